//! FFI probe for property C19.
//!
//! Every exported function first appends one line
//! `<function name> <Debug of the argument slice>` to the file named by the environment
//! variable `MSCRIPT_FFI_PROBE_LOG` (one `write(2)` per record, append mode), then answers
//! according to its name.  The harness (mv/engines/c19.py) knows the fixed answers below.

use bytecode::{raise_error, BytecodePrimitive, FFIReturnValue};
use std::io::Write;

/// Which build this is.  The plain build (`A`) logs and answers exactly as documented below; the tagged builds
/// prefix every log line, the `const_str` answer and the raised message with `B:` / `C:` and shift `const_int`
/// by 1000 / 2000, so that the harness can tell which library really served a call.
#[cfg(feature = "variant_b")]
const TAG: &str = "B:";
#[cfg(feature = "variant_b")]
const SHIFT: i32 = 1000;
#[cfg(all(feature = "variant_c", not(feature = "variant_b")))]
const TAG: &str = "C:";
#[cfg(all(feature = "variant_c", not(feature = "variant_b")))]
const SHIFT: i32 = 2000;
#[cfg(not(any(feature = "variant_b", feature = "variant_c")))]
const TAG: &str = "";
#[cfg(not(any(feature = "variant_b", feature = "variant_c")))]
const SHIFT: i32 = 0;

fn record(name: &str, args: &[BytecodePrimitive]) {
    let Some(path) = std::env::var_os("MSCRIPT_FFI_PROBE_LOG") else {
        return;
    };
    let line = format!("{TAG}{name} {args:?}\n");
    if let Ok(mut f) = std::fs::OpenOptions::new()
        .create(true)
        .append(true)
        .open(path)
    {
        let _ = f.write_all(line.as_bytes());
    }
}

/// Returns (a clone of) the first argument; no value when called without arguments.
#[no_mangle]
pub fn echo_first(args: &[BytecodePrimitive]) -> FFIReturnValue {
    record("echo_first", args);
    match args.first() {
        Some(first) => FFIReturnValue::Value(first.clone()),
        None => FFIReturnValue::NoValue,
    }
}

/// Returns (a clone of) the last argument; no value when called without arguments.
#[no_mangle]
pub fn echo_last(args: &[BytecodePrimitive]) -> FFIReturnValue {
    record("echo_last", args);
    match args.last() {
        Some(last) => FFIReturnValue::Value(last.clone()),
        None => FFIReturnValue::NoValue,
    }
}

#[no_mangle]
pub fn const_int(args: &[BytecodePrimitive]) -> FFIReturnValue {
    record("const_int", args);
    FFIReturnValue::Value(BytecodePrimitive::Int(-123_456_789 + SHIFT))
}

#[no_mangle]
pub fn const_bigint(args: &[BytecodePrimitive]) -> FFIReturnValue {
    record("const_bigint", args);
    FFIReturnValue::Value(BytecodePrimitive::BigInt(
        -170_141_183_460_469_231_731_687_303_715_884_105_727,
    ))
}

#[no_mangle]
pub fn const_float(args: &[BytecodePrimitive]) -> FFIReturnValue {
    record("const_float", args);
    FFIReturnValue::Value(BytecodePrimitive::Float(-6.02214076e23))
}

#[no_mangle]
pub fn const_byte(args: &[BytecodePrimitive]) -> FFIReturnValue {
    record("const_byte", args);
    FFIReturnValue::Value(BytecodePrimitive::Byte(0b1010_0101))
}

#[no_mangle]
pub fn const_bool(args: &[BytecodePrimitive]) -> FFIReturnValue {
    record("const_bool", args);
    FFIReturnValue::Value(BytecodePrimitive::Bool(true))
}

#[no_mangle]
pub fn const_str(args: &[BytecodePrimitive]) -> FFIReturnValue {
    record("const_str", args);
    FFIReturnValue::Value(BytecodePrimitive::Str(format!(
        "{TAG}probe says: \"h\u{e9}llo, w\u{f6}rld\" \u{2713}"
    )))
}

#[no_mangle]
pub fn no_value(args: &[BytecodePrimitive]) -> FFIReturnValue {
    record("no_value", args);
    FFIReturnValue::NoValue
}

#[no_mangle]
pub fn raise(args: &[BytecodePrimitive]) -> FFIReturnValue {
    record("raise", args);
    let message = format!("{TAG}probe raised: \"bad things\" happened \u{2717} (code 42)");
    raise_error!(message)
}

/// A symbol that exists in the plain build only ("existing symbol, then the same name missing in another library").
#[cfg(not(any(feature = "variant_b", feature = "variant_c")))]
#[no_mangle]
pub fn only_in_a(args: &[BytecodePrimitive]) -> FFIReturnValue {
    record("only_in_a", args);
    FFIReturnValue::Value(BytecodePrimitive::Int(11))
}

/// A symbol that exists in the `B` build only.
#[cfg(feature = "variant_b")]
#[no_mangle]
pub fn only_in_b(args: &[BytecodePrimitive]) -> FFIReturnValue {
    record("only_in_b", args);
    FFIReturnValue::Value(BytecodePrimitive::Int(22))
}

// Near misses of the name `no_such_symbol`, which the workloads ask for and which must NOT resolve: a loader that
// "helps" (leading underscore, trailing underscore, another case, a prefix, a version suffix) would find one of these.
macro_rules! near_miss {
    ($($name:ident)+) => {
        $(
            #[no_mangle]
            #[allow(non_snake_case)]
            pub fn $name(args: &[BytecodePrimitive]) -> FFIReturnValue {
                record(stringify!($name), args);
                FFIReturnValue::Value(BytecodePrimitive::Int(-1))
            }
        )+
    };
}

near_miss!(_no_such_symbol no_such_symbol_ No_Such_Symbol NO_SUCH_SYMBOL no_such_symbo no_such_symbol1 no_such_symbol_v1 __no_such_symbol);
