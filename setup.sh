#!/bin/sh
# Run once after a fresh restore, offline: warm build of /repo (hooks on) into /verif/.work/target
# and of the FFI probe library.  Everything else is python3 stdlib and needs no build.
set -e
cd "$(dirname "$0")"
export CARGO_NET_OFFLINE=true
python3 - <<'PY'
import sys, os
sys.path.insert(0, os.getcwd())
from mv import core
core.build(quiet=False)
try:
    from mv import ffi
    ffi.build_probe(quiet=False)
    if hasattr(ffi, "build_variants"):
        ffi.build_variants()
except ImportError:
    pass
PY
