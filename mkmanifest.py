#!/usr/bin/env python3
"""Regenerates MANIFEST.json from the table below (kept in one place so it stays valid)."""
import json, os, subprocess
HERE = os.path.dirname(os.path.abspath(__file__))

CHECKS = {
 "C20": dict(cat="exploration", tech="runtime monitoring: fs snapshot diff + strace syscall monitor vs. deletion model",
   text="Every generated directory tree (exhaustive single entries and pairs over 14 special names x 8 entry kinds x 4 DIR spellings; seeded larger trees) is cleaned by the real binary under strace; before/after snapshots of the whole case root and every mutating syscall are compared with the statement's model. Held = no deviation on the trees explored.",
   note="Trusted: strace -f reports all syscalls; snapshot covers type/content/mode/link target. `.mmm` and symlinks named *.mmm are left open by the statement and accepted either way.", ref="§3 C20"),
}
PENDING = {}

def main():
    props = [json.loads(l) for l in open(os.path.join(HERE, "properties.jsonl"))]
    hooks = subprocess.run(["git", "-C", "/repo", "log", "--format=%H %s"], capture_output=True, text=True).stdout.splitlines()
    hook_commits = [l.split()[0] for l in hooks if " verif hook" in l]
    checks, na = [], []
    for p in props:
        i = p["id"]
        if i in CHECKS:
            c = CHECKS[i]
            checks.append({
                "property_id": i,
                "quick_cmd": "./check %s --tier quick" % i,
                "thorough_cmd": "./check %s --tier thorough" % i,
                "evidence_file": "evidence/%s.json" % i,
                "replay_cmd_template": "./check %s --replay {path}" % i,
                "engine": "mv/engines/%s.py" % i.lower(),
                "level_claimed": {"category": c["cat"], "text": c["text"], "design_ref": c["ref"]},
                "level_note": c["note"],
                "technique": c["tech"],
            })
        else:
            na.append({"property_id": i, "reason": PENDING.get(i, "engine not built yet in this session (runtime-monitoring design in DESIGN.md §3 %s); not claimed until its check exists and is silent on the unchanged tree" % i)})
    m = {
        "version": 1,
        "setup_cmd": "./setup.sh",
        "hooks": {
            "guard": "--cfg mscript_verif",
            "enable": "RUSTFLAGS='--cfg mscript_verif --check-cfg cfg(mscript_verif)' CARGO_TARGET_DIR=/verif/.work/target cargo build --offline (done by every ./check); hooks are inert unless MSCRIPT_VERIF_TRACE / MSCRIPT_VERIF_DUMP / MSCRIPT_VERIF_TYPED_PRINT are set",
            "baseline_off_cmd": "cd /repo && cargo nextest run --workspace --no-fail-fast --tool-config-file pb:/w/lib/nextest.toml --profile pb --test-threads 8 --offline",
            "source_commits": hook_commits,
            "add_only": True,
        },
        "engines": [{"name": "mv", "path": "mv/", "serves_properties": sorted(CHECKS),
                     "kind_free_text": "python3-stdlib runtime-monitoring framework: builds /repo with hooks, drives the real mscript binary with generated/enumerated workloads, monitors (trace/dump/kind hooks, strace, snapshots) and model oracles decide each execution"}],
        "checks": checks,
        "not_applicable": na,
        "notes": "All checks: ./check <ID> --tier quick|thorough (VERIF_SEED / VERIF_TIER honoured). Exit 0 held / 1 VIOLATION / 2 inconclusive. known_findings.json lists recorded genuine defects (KNOWN-FINDING lines) and fixed ones.",
    }
    with open(os.path.join(HERE, "MANIFEST.json"), "w") as f:
        json.dump(m, f, indent=1, ensure_ascii=False)
        f.write("\n")

if __name__ == "__main__":
    main()
