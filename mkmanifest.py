#!/usr/bin/env python3
"""Regenerates MANIFEST.json from the table below (kept in one place so it stays valid)."""
import json, os, subprocess
HERE = os.path.dirname(os.path.abspath(__file__))

CHECKS = {
 "C19": dict(cat="exploration", tech="runtime monitoring + sanitizer: hand-assembled bytecode calling a probe library; argument vector conserved across harness -> H-FFI hook snapshot -> probe log, printed operand stack and error reports checked; valgrind memcheck on a sample is part of the verdict",
   text="Binary .mmm programs push argument vectors (all kind vectors of length <= 2 over int/bigint/float/byte/bool/str exhaustively x 10 probe functions, boundary values, two-call chains, seeded vectors of length 3-6), execute `call_lib` into the probe cdylib (built against /repo/bytecode with the same flags) and print the operand stack plus a sentinel. Oracle: assembled vector == hook `L` record == what the probe received (floats by bits), pushed value == returned value (or nothing), and for a raised error / missing library / missing symbol: exit 1, interpreter report with the message, sentinel absent and no instruction event after the failing call_lib. A sample of every class runs under valgrind memcheck (--error-exitcode): any memcheck error is a violation.",
   note="Assumes host and probe are compiled by the same rustc with the same flags (the FFI passes Rust types). Miri cannot cross the dlopen boundary, hence memcheck.", ref="§3 C19"),
 "C04": dict(cat="exploration", tech="runtime monitoring / differential twins: `run` vs `compile`+`execute` of the same program; stdout, exit class and the instruction streams of every loaded function (H-DUMP hook) compared",
   text="Corpus (examples + programs embedded in the tests), generated multi-module projects (2-4 modules, both import forms, sub-directories), generated control-flow programs and, exhaustively, all strings of length 0-4 over the 10 format-special symbols (quote, backslash, space, TAB, LF, CR, n, r, t, e-acute; length 4 sampled in quick) in three roles (print operand, map key, assert operand) run through both pipelines in separate directories; compared: stdout, exit/failure class, and per (file, function) opcodes and argument lists (make_function captures as a multiset). Failing string batches are bisected to single literals.",
   note="Trusted: H-DUMP hook; programs that do not compile are outside the domain (values ending in a backslash have no literal and are verified rejected); outputs containing addresses / hash-ordered maps are compared modulo that freedom.", ref="§3 C04"),
 "C18": dict(cat="exploration", tech="runtime monitoring / differential twins: `run` vs raw-text compile -> transpile -> execute; plus exhaustive opcode-table and argument-shape checks of the transpiler",
   text="Same oracle as C04 with pipeline B = compile --output-format raw-text, rename, transpile, execute (single-module programs), the same exhaustive string set, extra Unicode white-space values, and the complete opcode table: every instruction name x 4 argument forms and 7 argument-list shapes is transpiled and the loaded opcode/arguments (H-DUMP) compared with what was written.",
   note="Trusted: H-DUMP hook; `nop` is refused by the transpiler as deprecated (the compiler never emits it).", ref="§3 C18"),
 "C05": dict(cat="exploration", tech="runtime monitoring: operator x kind^2 x boundary^2 matrix + seeded random operands, printed value and run-time kind (H-KIND) compared with an exact numeric model (Python integers / IEEE doubles)",
   text="Every arithmetic, comparison, bitwise and shift operator, unary minus and `!` over all 16 kind pairs and all pairs from per-kind boundary sets (379k cases; quick runs a deterministic stratified slice plus random operands, thorough the whole matrix) with operands reaching the operator through variables, parameters and list elements; expected-value cases are batched 100 per program with operands echoed and checked, expected-failure cases run alone. A printed value where the model says failure, a wrong value or a wrong kind is a violation; any stop counts as a failure.",
   note="Trusted: models/numeric.py (promotion table and exactness rules taken from the statement); overflow delivered as a Rust panic counts as a stop here (it is C17's subject). evaluations counts compared cases (up to 100 share one process).", ref="§3 C05"),
 "C06": dict(cat="exploration", tech="runtime monitoring / differential twins inside one implementation: folded rendering (literals) vs unfolded rendering (same tree over variables); value, run-time kind, typeof text and failure compared, numeric model as referee",
   text="A catalogue of 664 pinned cases, the one-operator matrix (10 operators x all ordered pairs of 154 literal atoms incl. every spelling and negation), and depth-3 trees (sampled in quick, enumerated over a reduced leaf set in thorough) in plain / parenthesised / list-element contexts: the compiler must reject the folded form exactly when the unfolded form fails at run time, and otherwise value (floats by bits), kind and typeof must agree. Deviating trees are localised to their smallest deviating sub-tree.",
   note="Trusted: H-KIND hook; the numeric model only names the wrong side in the witness.", ref="§3 C06"),
 "C11": dict(cat="exploration", tech="runtime monitoring: enumerated import DAG projects run in memory and from files, exact stdout compared with a module-initialisation model, plus the module-cache hit/miss events of the H-MOD hook",
   text="All DAGs on <= 3 modules (<= 4 in thorough, 5 sampled) x import form per edge x import placement x directory placement (thorough: path spellings) are generated; every module prints begin/end of its initialisation, exports a counter cell and bump/peek functions and keeps a hidden variable; the entry drives every access path. Oracle: depth-first initialisation exactly once per module at the first executed import, shared state across importers, and exactly one cache `miss` per module with every later import a `hit`; negative twins (hidden member read, `m.x = ...`, `m.x += ...`) must be rejected at compile time. Each project runs through `run` and `compile`+`execute`.",
   note="Trusted: models/modules.py, H-MOD events; names imported with `import x from m` are local copies by the repository's own test, so writes to them are accepted and `m.x` is asserted unchanged.", ref="§3 C11"),
 "C15": dict(cat="exploration", tech="runtime monitoring: expression trees over logging leaf calls, exact log order/multiplicity and final value compared with a left-to-right, exactly-once, short-circuit model",
   text="Every shape of depth <= 3 over the reduced operator set (3556 shapes, every valuation), a 498-case arity catalogue (calls and method calls with 0-4 arguments) and seeded depth-4 trees in 8 statement contexts with recursive helpers: leaves log when evaluated; inner nodes are binary operators, calls, method calls with logging receivers, list/map literals, indexing, &&, ||, `or`. The printed log must equal the model's.",
   note="Trusted: models/evalorder.py. Division and overflow are avoided so that no run fails.", ref="§3 C15"),
 "C07": dict(cat="exploration", tech="runtime monitoring: generated closure worlds + call/assignment histories, printed observations after every step compared with a cell model (lexical scoping, one cell per variable, fresh cells per factory call)",
   text="A 47-case catalogue (readers, modify-writers, shadowers, factories, closures returned / stored in lists / passed as arguments / created in blocks and loops, nesting depth <= 3, is_closure, the pinned cases of every defect found) and seeded random histories (<= 12 steps) are executed; after every step all observable variables and reader results are printed and compared line by line with the model, which parses and interprets the same source text.",
   note="Trusted: models/closures.py (its lexical-scoping interpreter). Avoidance rules of the random generator switch on only while the corresponding pinned finding is listed in known_findings.json.", ref="§3 C07"),
 "C08": dict(cat="exploration", tech="runtime monitoring: generated classes + histories of constructions, aliasings, field writes, method calls and `is` tests, printed fields of every alias compared with an object model with identity",
   text="A 28-case catalogue and seeded histories (<= 15 steps over <= 5 object variables, <= 3 classes with scalar/list/optional/class-typed fields, methods calling sibling methods and returning Self, objects passed to / returned from functions and stored in lists and maps) are executed; after each step the fields of every alias are printed (never the object itself) and compared with Python instances sharing by reference; `a is b` must be true exactly for the same instance.",
   note="Trusted: models/objects.py + the interpreter of models/closures.py.", ref="§3 C08"),
 "C14": dict(cat="exploration", tech="runtime monitoring: every built-in method x exhaustive boundary receivers/arguments + seeded random, printed value and run-time kind (H-KIND) compared with one model function per method and with the declared `typeof`",
   text="For each string and number built-in of the statement the catalogue enumerates boundary receivers and arguments (empty/1-char/ASCII/multi-byte text, indices -1,0,len-1,len,len+1, numeric extremes of each kind, exponents, radices 0,1,2,10,16,36,37) and seeded random values; each probe prints `typeof (E)` and `E` with typed printing; the model gives the accepted outcomes (value, kind, or failure) per probe. Inside the domain a failure or wrong value/kind is a violation; outside it any stop is accepted and a value is a violation. Deviations are re-run alone before being reported.",
   note="Trusted: models/builtins.py following the meanings documented by tests/builtins.rs; where the statement leaves a meaning open (byte vs character units on multi-byte text, 0x-prefixed input to parse_int) every reading is accepted and listed in evidence.", ref="§3 C14"),
 "C10": dict(cat="fault_enumeration", tech="runtime monitoring / fault catalogue: exhaustive product declaration context x write form x write context, real compiler run on each program; rejection, diagnostic position and a run sentinel observed; accepted writes additionally print the constant",
   text="The whole product (33 read-only declaration contexts x 35 write forms x 9 write contexts, filtered by applicability tables written as data; ~2200 programs plus non-const twins and controls) is compiled and run: every program must be rejected at compile time with a diagnostic on the write's line and must not print the sentinel; controls show the base is accepted and prints the initializer. Exhaustive in both tiers.",
   note="Trusted: the applicability tables (reviewed against grammar.pest); names imported with `import x from m` are local copies by the repository's own test (assignments::not_import_const_bypass), so writes to them are accepted and only `m.x` is asserted unchanged.", ref="§3 C10"),
 "C12": dict(cat="exploration", tech="runtime monitoring: enumerated product of optional constructs, stdout/exit/error position compared with a value-level model; logging fallbacks make non-evaluation observable",
   text="The product carried type x holder (variable, parameter, result, list element, field, map lookup, literal) x nil/present x construct (== nil, != nil, == v, get, or, ?=) x position (statement, if, while, operand) x depth (same scope, block, closure) is enumerated completely (15336 cells) and each cell's output compared with the model; `get nil` must stop with the interpreter error naming the get's line and a column inside it; thorough adds seeded multi-optional programs.",
   note="Trusted: models/optionals.py; cells the compiler rejects by design (bool?/list?/class? == T, `a ?= nil`) are verified rejected and excluded.", ref="§3 C12"),
 "C13": dict(cat="exploration", tech="runtime monitoring: operation histories over aliased lists/maps, printed contents after every step compared with a sequence / finite-map model with aliasing",
   text="A deterministic catalogue (every list/map method x empty/singleton/pair/triple x boundary indices -1,0,len-1,len,len+1 x element types int/str/int?/[int...]; nested lists, parameter aliases, callbacks with side effects) and seeded random histories (<= 12 operations over <= 3 containers and their aliases) are executed; after every step len and contents of every alias are printed and compared with the model; out-of-range operations must stop the program, in-range ones must succeed.",
   note="Trusted: models/containers.py; keys/values/pairs compared as multisets; join's argument is treated as consumed; callbacks mutating the traversed list are recorded, not judged.", ref="§3 C13"),
 "C03": dict(cat="fault_enumeration", tech="runtime monitoring / fault injection: every typed site of generated well-typed programs x a fixed catalogue of type-breaking edits, real compiler run on each mutant; exit class, diagnostic position and a run sentinel are observed",
   text="Accepted-and-clean programs of the type-directed generator record their typed sites (initializer, re-assignment, argument, argument count, return, condition, operand, index, indexed value, field, method, callee, loop bound, map key/value, op-assign) in module/function/closure/method/constructor/loop/branch contexts; every applicable fault (wrong type, nil / optional into non-optional, unknown name/field/method, non-callable, non-indexable, surplus/missing argument, non-bool condition, unsupported operand) is applied one at a time, plus a catalogue of whole-program faults. Each mutant must exit 1 (not panic), print a diagnostic naming main.ms:line:col and must not print the sentinel first statement; a sample is cross-checked with the `compile` subcommand (no main.mmm may appear).",
   note="Only edits that are ill-typed under every reading are used (str + any, str * int, numeric kind mixing, int into int? are legal). Bases the compiler rejects are dropped.", ref="§3 C03"),
 "C02": dict(cat="exploration", tech="runtime monitoring: type-directed generated programs + boundary catalogue; run-time kind of every printed value (H-KIND hook) compared with the static type text of `typeof`, failures classified against the language-defined whitelist",
   text="Seeded type-directed programs (classes, aliases, helper functions, typed variable pool of every type constructor, statements in module/function/closure/method/constructor/loop/branch contexts) and a catalogue of boundary cases of the typing rules are run with typed printing. An accepted program must end ok or with a language-defined dynamic failure (anything else - 'X is invalid', 'not a function', load before store, ... - is a dynamic type error), and for each `typeof e` / `e` pair the run-time kind tree must conform to the static type. Held = no deviation other than listed known findings.",
   note="Trusted: H-KIND kind printer; the whitelist of defined failure messages in core.classify_failure; generator over-approximates typing (rejected programs are outside the quantifier and only counted).", ref="§3 C02"),
 "C17": dict(cat="exploration", tech="runtime monitoring: failing programs over a failure-kind x call-chain catalogue; merged output stream, exit status and printed trace compared with the shadow call stack rebuilt from the activation enter/exit hook events",
   text="Every defined dynamic failure kind (35 kinds) is provoked at call depths 0-6 through chains of functions, closures, methods, constructors, map/filter callbacks, recursion and functions of an imported module, inside if/else/while/from blocks. Each run must exit 1 with the interpreter's error report (a Rust panic is a deviation), all output printed before the failure must precede the report, the printed function frames must equal the activations open at the error (from H-TRACE) and the generator's call chain, and a failed assert must name file:line:col. Held = no deviation other than listed known findings.",
   note="Trusted: activation enter/exit hook events; block and native frames are excluded from 'functions and methods'. Panicking failure kinds are recorded genuine defects (known_findings.json).", ref="§3 C17"),
 "C01": dict(cat="exploration", tech="runtime monitoring: generated programs x all driver outcome vectors, stdout/exit compared with an executable reference interpreter",
   text="Seeded random programs (depth<=5, <=80 statements) and a systematic skeleton family (every construct nested in every other with break/continue/return, full from-loop matrix) are executed by the real binary once per driver outcome vector (all vectors up to the decision bound); the exact stdout line sequence, success/failure and failure kind are compared with the reference interpreter mv/cf.py. Held = every comparable execution agreed.",
   note="Trusted: the reference semantics in mv/cf.py (DESIGN §3 C01); bounded: nesting depth 5, 80 statements, 8 (quick) / 11 (thorough) decisions per run, loop trip counts <= 6.", ref="§3 C01"),
 "C09": dict(cat="exploration", tech="runtime monitoring: per-instruction trace hook checked offline against a shadow scope stack, the static nesting of the dumped bytecode, jump offsets and operand-shape preconditions",
   text="Every execution of the skeleton/random workloads (each branch outcome made taken by enumerating driver vectors) and of the example/test corpus runs with H-TRACE + H-DUMP; tracecheck.py asserts at every instruction: successor is ip+1 or ip+offset inside the function, frame depth == entry + open scopes == lexical nesting of that index, loop heads revisited at equal depth, callee returns restore the caller's depth, operand-stack shape, empty call stack at normal end; all loaded functions (executed or not) are checked statically for balanced scopes and in-range jumps.",
   note="Trusted: hook events are faithful; structured-code assumption of the static scan (violations of it are reported, not assumed). Paths of corpus programs are covered only as executed.", ref="§3 C09"),
 "C20": dict(cat="exploration", tech="runtime monitoring: fs snapshot diff + strace syscall monitor vs. deletion model",
   text="Every generated directory tree (exhaustive single entries and pairs over 14 special names x 8 entry kinds x 4 DIR spellings; seeded larger trees) is cleaned by the real binary under strace; before/after snapshots of the whole case root and every mutating syscall are compared with the statement's model. Held = no deviation on the trees explored.",
   note="Trusted: strace -f reports all syscalls; snapshot covers type/content/mode/link target. `.mmm` and symlinks named *.mmm are left open by the statement and accepted either way.", ref="§3 C20"),
}
PENDING = {}

def main():
    props = [json.loads(l) for l in open(os.path.join(HERE, "properties.jsonl"))]
    hooks = subprocess.run(["git", "-C", "/repo", "log", "--format=%H %s"], capture_output=True, text=True).stdout.splitlines()
    hook_commits = [l.split()[0] for l in hooks if " verif hook" in l]
    checks, na = [], []
    for p in props:
        i = p["id"]
        if i in CHECKS:
            c = CHECKS[i]
            checks.append({
                "property_id": i,
                "quick_cmd": "./check %s --tier quick" % i,
                "thorough_cmd": "./check %s --tier thorough" % i,
                "evidence_file": "evidence/%s.json" % i,
                "replay_cmd_template": "./check %s --replay {path}" % i,
                "engine": "mv/engines/%s.py" % i.lower(),
                "level_claimed": {"category": c["cat"], "text": c["text"], "design_ref": c["ref"]},
                "level_note": c["note"],
                "technique": c["tech"],
            })
        else:
            na.append({"property_id": i, "reason": PENDING.get(i, "engine not built yet in this session (runtime-monitoring design in DESIGN.md §3 %s); not claimed until its check exists and is silent on the unchanged tree" % i)})
    m = {
        "version": 1,
        "setup_cmd": "./setup.sh",
        "hooks": {
            "guard": "--cfg mscript_verif",
            "enable": "RUSTFLAGS='--cfg mscript_verif --check-cfg cfg(mscript_verif)' CARGO_TARGET_DIR=/verif/.work/target cargo build --offline (done by every ./check); hooks are inert unless MSCRIPT_VERIF_TRACE / MSCRIPT_VERIF_DUMP / MSCRIPT_VERIF_TYPED_PRINT are set",
            "baseline_off_cmd": "cd /repo && cargo nextest run --workspace --no-fail-fast --tool-config-file pb:/w/lib/nextest.toml --profile pb --test-threads 8 --offline",
            "source_commits": hook_commits,
            "add_only": True,
        },
        "engines": [{"name": "mv", "path": "mv/", "serves_properties": sorted(CHECKS),
                     "kind_free_text": "python3-stdlib runtime-monitoring framework: builds /repo with hooks, drives the real mscript binary with generated/enumerated workloads, monitors (trace/dump/kind hooks, strace, snapshots) and model oracles decide each execution"}],
        "checks": checks,
        "not_applicable": na,
        "notes": "All checks: ./check <ID> --tier quick|thorough (VERIF_SEED / VERIF_TIER honoured). Exit 0 held / 1 VIOLATION / 2 inconclusive. known_findings.json lists recorded genuine defects (KNOWN-FINDING lines) and fixed ones.",
    }
    with open(os.path.join(HERE, "MANIFEST.json"), "w") as f:
        json.dump(m, f, indent=1, ensure_ascii=False)
        f.write("\n")

if __name__ == "__main__":
    main()
