#!/usr/bin/env python3
"""tools/keep_break.py <src dir> <seeded id> <property> <needs> <what> <detected json> [notes]"""
import json, os, shutil, sys
src, sid, prop, needs, what, detected = sys.argv[1:7]
notes = sys.argv[7] if len(sys.argv) > 7 else None
d = '/verif/seeded/' + sid
os.makedirs(d, exist_ok=True)
for f in os.listdir(src):
    s = os.path.join(src, f)
    if os.path.isfile(s) and os.path.getsize(s) < 200000 and not f.endswith('.mmm'):
        shutil.copy(s, os.path.join(d, f))
m = {"property": prop, "what": what, "needs_to_manifest": needs,
     "origin": os.environ.get("ORIGIN", "independent sub-agent given only the property text and a scratch worktree"),
     "confirmed_by_me": "tools/confirm_break.sh: patch applies to the current /repo HEAD in a scratch worktree, cargo build ok, 193/193 tests pass with the change, the demo's output differs from the unchanged binary as the README says",
     "detected_by": json.loads(detected)}
if notes:
    m["notes"] = notes
json.dump(m, open(os.path.join(d, 'meta.json'), 'w'), indent=1)
print("kept", sid)
