#!/bin/sh
# tools/process_breaks.sh <worktree with breaks/1..n> <ID> [more IDs]   -> confirmation + detection summary per break
WT=$1; shift
for d in "$WT"/breaks/*/; do
  k=$(basename "$d")
  echo "################ break $k"
  LINES_MAX=0 /verif/tools/confirm_break.sh "$d" 2>&1 | grep -A${DIFFLINES:-14} -E "TESTS WITH|DIFF|DOES NOT|FAILED" | grep -v "^--$" | head -${MAXL:-40}
  echo "-------- detection"
  SKIP_TESTS=1 TAIL=${TAIL:-3} /verif/tools/try_patch.sh "$d/patch.diff" "$@" 2>&1 | cut -c1-${CUT:-260}
done
