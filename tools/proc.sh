#!/bin/sh
# tools/proc.sh <worktree name under /tmp/wt> <k> <ID>... : confirm break k and run the named checks against it -> /tmp/wt/out/<wt>_<k>.txt
W=$1; K=$2; shift; shift
( LINES_MAX=0 /verif/tools/confirm_break.sh /tmp/wt/$W/breaks/$K 2>&1 | grep -A14 -E "TESTS WITH|DIFF|DOES NOT|FAILED" | head -40; echo "-------- detection"; SKIP_TESTS=1 TAIL=${TAIL:-3} /verif/tools/try_patch.sh /tmp/wt/$W/breaks/$K/patch.diff "$@" 2>&1 | cut -c1-300 ) > /tmp/wt/out/${W}_$K.txt 2>&1
