#!/usr/bin/env python3
"""tools/keep_many.py <json file>: list of {src, prop, what, needs, detected{}, notes?, origin?} -> seeded/<prop>-<next free n>/"""
import json, os, re, subprocess, sys
items = json.load(open(sys.argv[1]))
for it in items:
    prop = it["prop"]
    ns = [int(m.group(1)) for d in os.listdir('/verif/seeded') for m in [re.match(prop + r'-(\d+)$', d)] if m]
    sid = "%s-%d" % (prop, max(ns + [0]) + 1)
    env = dict(os.environ)
    env["ORIGIN"] = it.get("origin", "independent sub-agent of the area-driven round: given the texts of all twenty properties, one assigned part of the code and a scratch worktree; it chose the property")
    args = ["python3", "/verif/tools/keep_break.py", it["src"], sid, prop, it["needs"], it["what"], json.dumps(it["detected"])]
    if it.get("notes"):
        args.append(it["notes"])
    subprocess.run(args, env=env, check=True)
