#!/usr/bin/env python3
"""Regenerates the generated lists inside DESIGN.md: §7.2 (fixed), §7.3 (known findings) and §8 (seeded breaks)
between the marker comments, from known_findings.json and seeded/*/meta.json."""
import json, os, glob, re
V = os.path.dirname(os.path.dirname(os.path.abspath(__file__)))
k = json.load(open(os.path.join(V, "known_findings.json")))
fixed = "\n".join("* `%s`" % f.replace("fixed: ", "") for f in k["fixed"])
finds = "\n".join("* `%s` — %s *Not repaired:* %s" % (f["signature"], f["what"], f.get("why_not_fixed", "")) for f in k["findings"])
rows = []
for d in sorted(glob.glob(os.path.join(V, "seeded", "*"))):
    mp = os.path.join(d, "meta.json")
    if not os.path.exists(mp):
        continue
    m = json.load(open(mp))
    det = "; ".join("%s: %s" % kv for kv in m.get("detected_by", {}).items()) or "— (not detected)"
    rows.append("| %s | %s | %s | %s | %s |" % (os.path.basename(d), m["property"], m["what"].replace("|", "/"),
                                               m["needs_to_manifest"].replace("|", "/"), det.replace("|", "/") + ((" — " + m["notes"].replace("|", "/")) if m.get("notes") else "")))
table = "| id | property | change | needs to manifest | detected by (quick tier unless said) / notes |\n|---|---|---|---|---|\n" + "\n".join(rows)
s = open(os.path.join(V, "DESIGN.md")).read()
def put(tag, text):
    global s
    a, b = "<!-- BEGIN %s -->" % tag, "<!-- END %s -->" % tag
    assert a in s and b in s, tag
    s = s[:s.index(a) + len(a)] + "\n" + text + "\n" + s[s.index(b):]
put("FIXED", fixed)
put("FINDINGS", finds)
put("SEEDED", table)
open(os.path.join(V, "DESIGN.md"), "w").write(s)
print("fixed", len(k["fixed"]), "findings", len(k["findings"]), "seeded", len(rows))
