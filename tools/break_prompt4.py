#!/usr/bin/env python3
"""Prints the prompt given to an independent sub-agent that is asked for seeded breaking changes.
The agent receives ONLY the property text and a scratch worktree — nothing from /verif."""
import json, sys
pid, wt, n = sys.argv[1], sys.argv[2], int(sys.argv[3]) if len(sys.argv) > 3 else 2
for l in open('/verif/properties.jsonl'):
    p = json.loads(l)
    if p['id'] == pid:
        break
print(f"""You are helping to evaluate how well a hidden verification suite detects regressions in mrodz/mscript (MScript: a hobby statically-typed scripting language; a pest-based compiler/type checker emitting custom bytecode, a stack-based bytecode interpreter with closures, classes and FFI, a CLI `mscript` with sub-commands run / compile / execute / transpile / clean).

Your own private git worktree of the repository is {wt} (detached HEAD). Work ONLY inside that directory. Do NOT read, list or touch /verif or /repo or any other worktree under /tmp/wt.

The property under test — this text is all you get:

  {p['id']}: {p['title']}
  {p['statement']}
  (It is meant to hold for: {p['quantifier']['text']})

Task: produce {n} DIFFERENT source changes to the implementation (Rust code under compiler/, bytecode/, src/, bytecode_dev_transpiler/), each of which
  * breaks the property: there is a concrete input / program / situation for which the statement above no longer holds;
  * still compiles (`cargo build --offline`) and passes the complete existing test suite unchanged (`cargo test --workspace --offline` — all 193 tests must pass; do not edit tests);
  * is realistic: it should look like a plausible refactoring slip, optimisation, clean-up or bug-fix gone wrong, not sabotage (do not simply delete a feature or make everything fail);
  * needs something SPECIFIC in order to manifest — a particular multi-step sequence of operations, an unusual input or boundary value, a specific nesting or combination of constructs, a fault at a particular point, or two cooperating code sites that each look fine alone. Ordinary use (the examples/ directory, the test suite, trivial programs) must keep behaving correctly. Prefer changes whose effect is subtle (wrong value / wrong state / missing report in a corner) over changes that crash everything.
The {n} changes should differ in mechanism and in what they need in order to manifest.
This is a late round: single-site slips in the code that most directly implements the property, dropped closure captures and plain name-lookup-order swaps have been tried already. Prefer
  * changes in SHARED infrastructure (name / scope lookup, variable storage and flags, pointer-like values produced by index / field / map lookups, instruction decoding and serialisation, type equality and assignability, closure dependency analysis, register / temporary allocation, operand-stack handling, error propagation) that break THIS property only in particular circumstances while everything else keeps working;
  * interactions of TWO language features, or of a feature with a nesting context (inside a loop body, an else-branch, a closure that outlived its creator, a method, a constructor, an imported module, a class field, a list element, an optional);
  * off-by-one / boundary / equality-vs-identity slips that need one precise value or one precise size;
  * TWO cooperating code sites that each look fine alone (a producer that changes a representation and one of several consumers that was not updated);
  * corners of the type system and of data representation (aliases of aliases, optionals of lists, lists of optionals, `Self` across classes, bigint vs int vs byte promotion, pointers into containers that are then resized or replaced, values that cross a function / module / closure boundary before they are used).

For each change k = 1..{n} deliver in {wt}/breaks/<k>/ :
  * patch.diff — `git diff` relative to HEAD, applying cleanly with `git apply` on a clean checkout of HEAD (only source files, no build output);
  * a demonstration — demo.ms (or several files / a demo.sh) plus the expected output — that shows the property VIOLATED with the change applied and behaves correctly without it;
  * README.md — what was changed and why it looks innocent, why it breaks the property, what exactly it needs in order to manifest, and the exact commands you ran with their results (build, full test suite with the pass count, demo with the change, demo without it).
Afterwards leave the worktree source at HEAD (`git checkout -- .`); keep only the breaks/ directory (and build output under target/).

Practical notes: build with `cargo build --offline` (≈ 30–60 s the first time; the target directory stays inside your worktree); the binary is target/debug/mscript; always run it with env RUST_BACKTRACE=0; `mscript run f.ms -q`, `mscript compile f.ms --quick`, `mscript execute f.mmm`, `mscript clean DIR`. Compiler diagnostics are printed on stdout, run-time error reports on stderr. Language crash course: see README.md, examples/ and compiler/src/tests/*.rs. The `#[cfg(mscript_verif)]` blocks and bytecode/src/verif.rs are inert instrumentation hooks: leave them alone and do not rely on them. Other helpers are running on this machine, so builds may be slow; be patient. Never use `pkill`/`killall`.

Your final message: for each change one paragraph (files touched, what it needs to manifest, how the demo shows it) and the test-suite result.""")
