#!/bin/sh
# tools/confirm_break.sh <break dir with patch.diff + demo>   -> prints: applies?, builds?, tests, demo without/with
# Everything happens in a scratch worktree of /repo HEAD under /tmp which is removed afterwards.
set -u
BD=$(readlink -f "$1")
WT=$(mktemp -d /tmp/cfm.XXXXXX); rmdir "$WT"
git -C /repo worktree add --detach "$WT" HEAD -q || exit 3
cleanup() { git -C /repo worktree remove --force "$WT" 2>/dev/null; rm -rf "$WT"; }
trap cleanup EXIT
mkdir -p "$WT/breaks"; cp -r "$BD" "$WT/breaks/k"
cd "$WT"
export RUST_BACKTRACE=0 NO_COLOR=1 CARGO_NET_OFFLINE=true
cargo build --offline >/dev/null 2>&1 || { echo "BASE BUILD FAILED"; exit 3; }
cp target/debug/mscript target/mscript.base
rundemo() {
  bin=$1
  if [ -f breaks/k/demo.sh ]; then ( cd breaks/k && sh ./demo.sh "$bin" 2>&1 )
  else ( cd breaks/k && for f in demo*.ms; do echo "## $f"; "$bin" run "$f" -q 2>&1; echo "exit=$?"; done )
  fi
}
echo "===== DEMO WITHOUT CHANGE"; rundemo "$WT/target/mscript.base" > "$WT/out_without.txt"; cat "$WT/out_without.txt" | head -${LINES_MAX:-60}
git apply breaks/k/patch.diff || { echo "PATCH DOES NOT APPLY"; exit 3; }
git diff --stat | tail -3
cargo build --offline >/dev/null 2>&1 || { echo "PATCHED BUILD FAILED"; exit 3; }
echo "===== TESTS WITH CHANGE"; cargo nextest run --workspace --no-fail-fast --offline 2>&1 | grep -E "Summary|FAIL" | head -5
echo "===== DEMO WITH CHANGE"; rundemo "$WT/target/debug/mscript" > "$WT/out_with.txt"; cat "$WT/out_with.txt" | head -${LINES_MAX:-60}
echo "===== DIFF (without vs with)"; diff "$WT/out_without.txt" "$WT/out_with.txt" | head -40
