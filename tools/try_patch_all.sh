#!/bin/sh
# tools/try_patch_all.sh <patch.diff> : all twenty checks (quick tier) against a scratch worktree with the patch applied;
# prints one line per check that does not hold, then a summary.
P=$1
OUT=$(SKIP_TESTS=1 TAIL=400 /verif/tools/try_patch.sh "$P" C01 C02 C03 C04 C05 C06 C07 C08 C09 C10 C11 C12 C13 C14 C15 C16 C17 C18 C19 C20 2>&1)
echo "$OUT" | grep -E "PATCH DOES NOT" 
echo "$OUT" | grep -E "check tier" | grep -v " held on " | cut -c1-120
echo "$OUT" | grep "VIOLATION" | sed 's/replay=[^ ]* //' | awk '{k=$2; c[k]++; if (c[k]<=2) print}' | cut -c1-220
echo "held: $(echo "$OUT" | grep -c ' held on ')  not held: $(echo "$OUT" | grep 'check tier' | grep -vc ' held on ')"
