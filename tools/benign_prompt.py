#!/usr/bin/env python3
"""Prompt for a BENIGN-change agent: it produces realistic changes to mrodz/mscript that keep all twenty properties
true (refactorings, optimisations, re-wordings, internal format changes).  The checks must stay silent on them
(no false alarm).  The agent gets the property texts and a scratch worktree, nothing else from /verif."""
import json, sys
theme, wt, n = sys.argv[1], sys.argv[2], int(sys.argv[3]) if len(sys.argv) > 3 else 4
props = [json.loads(l) for l in open('/verif/properties.jsonl')]
ptxt = "\n".join("  %s: %s\n      %s" % (p['id'], p['title'], p['statement']) for p in props)
print(f"""You are helping to evaluate a hidden verification suite for mrodz/mscript (MScript: a hobby statically-typed scripting language; a pest-based compiler/type checker emitting custom bytecode, a stack-based bytecode interpreter with closures, classes and FFI, a CLI `mscript` with sub-commands run / compile / execute / transpile / clean). This time the question is whether the suite raises FALSE alarms: you produce changes that are CORRECT — every one of the properties below still holds after the change — but that nevertheless alter internals a naive checker might have latched onto.

Your own private git worktree of the repository is {wt} (detached HEAD). Work ONLY inside that directory. Do NOT read, list or touch /verif or /repo or any other worktree under /tmp/wt.

The twenty properties the suite decides (these texts are all you get):

{ptxt}

Theme of your changes: {theme}

Task: produce {n} DIFFERENT source changes, each of which
  * is a realistic, maintainer-acceptable evolution of the code base: a refactoring, a performance optimisation, a clean-up, a re-wording of messages, a change of an internal representation or file-format detail, better diagnostics, a new internal helper, a changed-but-equivalent code generation strategy … ;
  * keeps ALL twenty properties true for every input (argue this carefully in the README — if you are not sure a property survives, do not use that change);
  * still compiles (`cargo build --offline`) and passes the complete existing test suite unchanged (`cargo test --workspace --offline` — all 193 tests must pass; do not edit tests);
  * visibly changes something INTERNAL or INCIDENTAL that the properties do not fix, e.g.: the exact wording of an error message or diagnostic (keeping the information the properties demand: file/line/column for diagnostics and asserts, the run-time error banner and the call trace), the sequence of instructions emitted for a construct (equivalent code), the numbering/encoding of opcodes or the byte layout of .mmm files (consistently in writer and reader(s)), the names of internal registers/labels, the order in which independent things are compiled, data structures (Vec vs HashMap, Rc vs Box), inlining/outlining of helper functions, extra debug output under `--verbose`, timing. Prefer changes that touch code that matters for several properties.
Each change should be moderately sized (10–150 changed lines) and the {n} changes should differ in what they touch.

For each change k = 1..{n} deliver in {wt}/benign/<k>/ :
  * patch.diff — `git diff` relative to HEAD, applying cleanly with `git apply` on a clean checkout of HEAD (only source files, no build output);
  * README.md — what was changed, why it is behaviour-preserving with respect to each property it could touch, what incidental behaviour DID change (old vs new message text, instruction listing, bytes …), and the exact commands you ran with their results (build, full test suite with pass count, a few example programs before/after).
Afterwards leave the worktree source at HEAD (`git checkout -- .`); keep only the benign/ directory (and build output under target/).

Practical notes: build with `cargo build --offline` (≈ 30–60 s the first time; the target directory stays inside your worktree); the binary is target/debug/mscript; always run it with env RUST_BACKTRACE=0; `mscript run f.ms -q`, `mscript compile f.ms --quick`, `mscript compile f.ms --quick --output-format raw-text`, `mscript execute f.mmm`, `mscript transpile f.transpiled.mmm`, `mscript clean DIR`. Compiler diagnostics are printed on stdout, run-time error reports on stderr. Language crash course: see README.md, examples/ and compiler/src/tests/*.rs. The `#[cfg(mscript_verif)]` blocks and bytecode/src/verif.rs are instrumentation hooks of the suite: keep them compiling and keep calling them at the equivalent places if you move code around them (do not delete them), do not otherwise rely on them. The multi-threaded `cargo test` run is known to be slightly flaky on this machine (a `gc` crate borrow assertion in a random test, also on unmodified HEAD): re-run or use `-- --test-threads=1` if one random test fails. Other helpers are running on this machine, so builds may be slow; be patient. Never use `pkill`/`killall`.

Your final message: for each change one paragraph (files touched, what incidental behaviour changed, why every property still holds) and the test-suite result.""")
