#!/bin/sh
# tools/try_patch.sh <patch.diff> <ID> [<ID>...]   [TIER=quick|thorough] [SEEDS="0 1"]
# Applies a seeded change to a scratch worktree of /repo's HEAD (outside /repo and /verif), confirms it builds and
# the 193 baseline tests pass, then runs the named checks against that worktree with their own work dir
# (MSCRIPT_REPO / VERIF_WORK overrides) and removes everything again.  /repo and /verif/.work are not touched.
set -u
PATCH=$(readlink -f "$1"); shift
TIER=${TIER:-quick}
SEEDS=${SEEDS:-0}
WT=$(mktemp -d /tmp/mut.XXXXXX)
rmdir "$WT"
git -C /repo worktree add --detach "$WT" HEAD -q || exit 3
cleanup() { git -C /repo worktree remove --force "$WT" 2>/dev/null; rm -rf "$WT" "$WT.work"; }
trap cleanup EXIT
if ! git -C "$WT" apply "$PATCH"; then echo "PATCH DOES NOT APPLY"; exit 3; fi
if [ "${SKIP_TESTS:-0}" != 1 ]; then
  ( cd "$WT" && CARGO_TARGET_DIR="$WT.work/testtarget" cargo nextest run --workspace --no-fail-fast --offline 2>&1 | grep -E "Summary|FAIL|error" | head -8 )
fi
cd /verif
for id in "$@"; do
  for s in $SEEDS; do
    MSCRIPT_REPO="$WT" VERIF_WORK="$WT.work" VERIF_SEED=$s ./check "$id" --tier "$TIER" 2>&1 | grep -v "^KNOWN-FINDING" | cut -c1-400 | tail -${TAIL:-6}
  done
done
