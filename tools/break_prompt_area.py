#!/usr/bin/env python3
"""Prompt for an AREA-driven seeded-break agent: it is told which part of the code to change and gets the texts of
all twenty properties (nothing else from /verif); it has to say which property each change breaks."""
import json, sys
area_name, area_files, wt, n = sys.argv[1], sys.argv[2], sys.argv[3], int(sys.argv[4]) if len(sys.argv) > 4 else 3
props = [json.loads(l) for l in open('/verif/properties.jsonl')]
ptxt = "\n".join("  %s: %s\n      %s" % (p['id'], p['title'], p['statement']) for p in props)
print(f"""You are helping to evaluate how well a hidden verification suite detects regressions in mrodz/mscript (MScript: a hobby statically-typed scripting language; a pest-based compiler/type checker emitting custom bytecode, a stack-based bytecode interpreter with closures, classes and FFI, a CLI `mscript` with sub-commands run / compile / execute / transpile / clean).

Your own private git worktree of the repository is {wt} (detached HEAD). Work ONLY inside that directory. Do NOT read, list or touch /verif or /repo or any other worktree under /tmp/wt.

The suite is meant to decide these twenty properties of the implementation — these texts are all you get:

{ptxt}

Your assignment is one AREA of the code: {area_name} — the files {area_files}. Read that code carefully first.

Task: produce {n} DIFFERENT source changes, each made (mainly) inside your area, each of which
  * breaks at least one of the twenty properties: there is a concrete input / program / situation for which that property's statement no longer holds (say which property, by id);
  * still compiles (`cargo build --offline`) and passes the complete existing test suite unchanged (`cargo test --workspace --offline` — all 193 tests must pass; do not edit tests);
  * is realistic: it should look like a plausible refactoring slip, optimisation, clean-up or bug-fix gone wrong, not sabotage (do not simply delete a feature or make everything fail);
  * needs something SPECIFIC in order to manifest — a particular multi-step sequence of operations, an unusual input or boundary value, a specific nesting or combination of constructs, or two cooperating code sites that each look fine alone. Ordinary use (the examples/ directory, the test suite, trivial programs) must keep behaving correctly. Prefer changes whose effect is subtle (wrong value / wrong state / missing report in a corner) over changes that crash everything.
Look for the LESS OBVIOUS functions and branches of your area — helper functions, rarely taken match arms, conversions, equality / hashing / ordering impls, cache and bookkeeping code, error paths — rather than the main line everybody would think of first. The {n} changes should differ in mechanism, in the function they touch and (if possible) in the property they break.

For each change k = 1..{n} deliver in {wt}/breaks/<k>/ :
  * patch.diff — `git diff` relative to HEAD, applying cleanly with `git apply` on a clean checkout of HEAD (only source files, no build output);
  * a demonstration — demo.ms (or several files / a demo.sh) plus the expected output — that shows the property VIOLATED with the change applied and behaves correctly without it;
  * property.txt — one line: the id of the property the change breaks (e.g. C13);
  * README.md — what was changed and why it looks innocent, which property it breaks and why, what exactly it needs in order to manifest, and the exact commands you ran with their results (build, full test suite with the pass count, demo with the change, demo without it).
Afterwards leave the worktree source at HEAD (`git checkout -- .`); keep only the breaks/ directory (and build output under target/).

Practical notes: build with `cargo build --offline` (≈ 30–60 s the first time; the target directory stays inside your worktree); the binary is target/debug/mscript; always run it with env RUST_BACKTRACE=0; `mscript run f.ms -q`, `mscript compile f.ms --quick`, `mscript execute f.mmm`, `mscript clean DIR`. Compiler diagnostics are printed on stdout, run-time error reports on stderr. Language crash course: see README.md, examples/ and compiler/src/tests/*.rs. The `#[cfg(mscript_verif)]` blocks and bytecode/src/verif.rs are inert instrumentation hooks: leave them alone and do not rely on them. The multi-threaded `cargo test` run is known to be slightly flaky on this machine (a `gc` crate borrow assertion in a random test, also on unmodified HEAD): re-run or use `-- --test-threads=1` if one random test fails. Other helpers are running on this machine, so builds may be slow; be patient. Never use `pkill`/`killall`.

Your final message: for each change one paragraph (files touched, property broken, what it needs to manifest, how the demo shows it) and the test-suite result.""")
