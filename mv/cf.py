"""Core statement language of C01/C09: AST, pretty-printer, seeded + systematic generators and the
reference interpreter (the executable model of the language semantics).

Expressions (tuples):  ('int',n) ('bool',b) ('str',s) ('var',name) ('bin',op,l,r) ('not',e) ('neg',e)
                       ('call',fname,[args]) ('take',)
Statements:            ('assign',name,e) ('opassign',name,op,e) ('print',e) ('if',[(cond,block)..],else|None)
                       ('while',cond,block) ('from',start,end,inclusive,step|None,ckind,cname|None,block)
                       ('break',) ('continue',) ('return',e) ('expr',e) ('assert',e)
                       ('fn',name,[(pname,ptype)..],rtype|None,block) ('index',dst,listname,idx_e)
                       ('list',name,[ints])
"""
import random

I32_MIN, I32_MAX = -2 ** 31, 2 ** 31 - 1


# ----------------------------------------------------------------------------- printer

def lit_str(s):
    return '"' + s.replace("\\", "\\\\").replace('"', '\\"') + '"'


MINIMAL = False      # print with the fewest parentheses the documented precedence table allows

PREC = {'||': 1, '^': 1, '&&': 2, '<': 3, '<=': 3, '>': 3, '>=': 3, '==': 3, '!=': 3, '|': 4, '&': 4, 'xor': 5,
        '<<': 6, '>>': 6, '+': 7, '-': 7, '*': 8, '/': 8, '%': 8}


def pe_min(e, ctx=0, right=False):
    """Minimal parenthesisation: every binary operator is left-associative; a child is parenthesised only when
    the grammar would otherwise attach it differently (lower level, or same level on the right)."""
    k = e[0]
    if k == 'bin':
        p = PREC[e[1]]
        s = "%s %s %s" % (pe_min(e[2], p, False), e[1], pe_min(e[3], p, True))
        return "(%s)" % s if (p < ctx or (p == ctx and right)) else s
    if k in ('not', 'neg'):
        sym = '!' if k == 'not' else '-'
        inner = e[1]
        if inner[0] in ('var', 'bool', 'call', 'take') or (inner[0] == 'int' and inner[1] >= 0):
            s = sym + pe_min(inner, 9, False)
        else:
            s = "%s(%s)" % (sym, pe_min(inner, 0, False))
        return "(%s)" % s if right else s          # `a - -b` is avoided, `-a * b` is not
    if k == 'call':
        return "%s(%s)" % (e[1], ", ".join(pe_min(a) for a in e[2]))
    return pe(e)


def pe(e):
    if MINIMAL and e[0] in ('bin', 'not', 'neg', 'call'):
        return pe_min(e)
    k = e[0]
    if k == 'int':
        return str(e[1]) if e[1] >= 0 else "(%d)" % e[1]
    if k == 'bool':
        return "true" if e[1] else "false"
    if k == 'str':
        return lit_str(e[1])
    if k == 'var':
        return e[1]
    if k == 'bin':
        return "(%s %s %s)" % (pe(e[2]), e[1], pe(e[3]))
    if k == 'not':
        return "!(%s)" % pe(e[1]) if e[1][0] != 'bin' else "!%s" % pe(e[1])
    if k == 'neg':
        return "-(%s)" % pe(e[1]) if e[1][0] != 'bin' else "-%s" % pe(e[1])
    if k == 'call':
        return "%s(%s)" % (e[1], ", ".join(pe(a) for a in e[2]))
    if k == 'take':
        return "take()"
    raise ValueError(e)


def ps(stmts, ind, out):
    pad = "  " * ind
    for s in stmts:
        k = s[0]
        if k == 'assign':
            out.append("%s%s = %s" % (pad, s[1], pe(s[2])))
        elif k == 'opassign':
            out.append("%s%s %s %s" % (pad, s[1], s[2], pe(s[3])))
        elif k == 'print':
            out.append("%sprint %s" % (pad, pe(s[1])))
        elif k == 'if':
            for i, (c, b) in enumerate(s[1]):
                if i == 0:
                    out.append("%sif %s {" % (pad, pe(c)))
                else:
                    out[-1] = "%s} else if %s {" % (pad, pe(c))
                ps(b, ind + 1, out)
                out.append(pad + "}")
            if s[2] is not None:
                out[-1] = "%s} else {" % pad
                ps(s[2], ind + 1, out)
                out.append(pad + "}")
        elif k == 'while':
            out.append("%swhile %s {" % (pad, pe(s[1])))
            ps(s[2], ind + 1, out)
            out.append(pad + "}")
        elif k == 'from':
            _, a, b, incl, step, ckind, cname, body = s
            head = "%sfrom %s %s %s" % (pad, pe(a), "through" if incl else "to", pe(b))
            if step is not None:
                head += " step %s" % pe(step)
            if cname is not None:
                head += ", %s" % cname
            out.append(head + " {")
            ps(body, ind + 1, out)
            out.append(pad + "}")
        elif k == 'break':
            out.append(pad + "break")
        elif k == 'continue':
            out.append(pad + "continue")
        elif k == 'return':
            out.append("%sreturn %s" % (pad, pe(s[1])))
        elif k == 'expr':
            out.append(pad + pe(s[1]))
        elif k == 'assert':
            out.append("%sassert %s" % (pad, pe(s[1])))
        elif k == 'fn':
            params = ", ".join("%s: %s" % p for p in s[2])
            out.append("%s%s = fn(%s)%s {" % (pad, s[1], params, (" -> " + s[3]) if s[3] else ""))
            ps(s[4], ind + 1, out)
            out.append(pad + "}")
        elif k == 'index':
            out.append("%s%s = %s[%s]" % (pad, s[1], s[2], pe(s[3])))
        elif k == 'list':
            out.append("%s%s: [int...] = [%s]" % (pad, s[1], ", ".join(str(x) if x >= 0 else "(%d)" % x for x in s[2])))
        else:
            raise ValueError(s)


DRIVER = """dd: [bool...] = [%s]
di = 0
take = fn() -> bool {
  dk = di
  modify di = di + 1
  dr = dd[dk]
  return dr
}
"""


def render(prog, decisions, uses_take, minimal=False):
    global MINIMAL
    out = []
    MINIMAL = minimal
    try:
        ps(prog, 0, out)
    finally:
        MINIMAL = False
    body = "\n".join(out) + "\n"
    if uses_take:
        dec = list(decisions) if decisions else [False]
        return DRIVER % ", ".join("true" if d else "false" for d in dec) + body
    return body


# ----------------------------------------------------------------------------- reference interpreter

class Failure(Exception):
    def __init__(self, kind):
        self.kind = kind


class Discard(Exception):
    pass


class NeedDecision(Exception):
    pass


class _Break(Exception):
    pass


class _Continue(Exception):
    pass


class _Return(Exception):
    def __init__(self, v):
        self.v = v


class FnVal:
    __slots__ = ("params", "rtype", "body", "name")

    def __init__(self, name, params, rtype, body):
        self.name, self.params, self.rtype, self.body = name, params, rtype, body


def fmt(v):
    if v is True:
        return "true"
    if v is False:
        return "false"
    return str(v)


def tdiv(a, b):
    q = abs(a) // abs(b)
    return q if (a < 0) == (b < 0) else -q


class Model:
    """Executes a program; `decisions` is the outcome vector of the decision driver."""

    def __init__(self, prog, decisions, max_steps=20000, max_depth=40):
        self.prog, self.decisions = prog, list(decisions)
        self.di = 0
        self.out = []
        self.steps = 0
        self.max_steps = max_steps
        self.depth = 0
        self.max_depth = max_depth
        self.globals = {}            # module-level scope (functions live here or in enclosing scopes)
        self.stats = {"loops_iter": 0, "calls": 0, "breaks": 0, "continues": 0, "returns_in_loop": 0, "branches": 0}

    def run(self):
        """Returns ('ok'|'fail', lines, failkind)."""
        act = [self.globals]
        try:
            self.block(self.prog, act, new_scope=False)
            return ('ok', self.out, None)
        except Failure as f:
            return ('fail', self.out, f.kind)

    def tick(self):
        self.steps += 1
        if self.steps > self.max_steps:
            raise Discard("steps")

    # ---- variables
    def lookup(self, act, name):
        for sc in reversed(act):
            if name in sc:
                return sc
        return None

    def read(self, act, name):
        sc = self.lookup(act, name)
        if sc is None:
            # functions (and only functions) are reachable from enclosing activations
            if name in self.globals:
                return self.globals[name]
            raise Discard("unbound " + name)
        return sc[name]

    def assign(self, act, name, v):
        sc = self.lookup(act, name)
        if sc is None:
            act[-1][name] = v
        else:
            sc[name] = v

    # ---- expressions
    def chk(self, n):
        if not (I32_MIN <= n <= I32_MAX):
            raise Discard("overflow")
        return n

    def ev(self, e, act):
        self.tick()
        k = e[0]
        if k in ('int', 'bool', 'str'):
            return e[1]
        if k == 'var':
            return self.read(act, e[1])
        if k == 'take':
            if self.di >= len(self.decisions):
                raise NeedDecision()
            v = self.decisions[self.di]
            self.di += 1
            return v
        if k == 'not':
            return not self.ev(e[1], act)
        if k == 'neg':
            return self.chk(-self.ev(e[1], act))
        if k == 'bin':
            op = e[1]
            if op == '&&':
                return self.ev(e[2], act) and self.ev(e[3], act)
            if op == '||':
                return self.ev(e[2], act) or self.ev(e[3], act)
            a = self.ev(e[2], act)
            b = self.ev(e[3], act)
            if op == '^':
                return bool(a) != bool(b)
            if op == '&':
                return self.chk(a & b)
            if op == '|':
                return self.chk(a | b)
            if op == 'xor':
                return self.chk(a ^ b)
            if op in ('<<', '>>'):
                if b < 0 or b >= 32:
                    raise Discard("shift amount out of range")       # C05's subject
                return self.chk(a * (2 ** b) if op == '<<' else a >> b)
            if op == '+':
                if isinstance(a, str) or isinstance(b, str):
                    v = fmt(a) + fmt(b)
                    if len(v) > 400:
                        raise Discard("string growth")
                    return v
                return self.chk(a + b)
            if op == '-':
                return self.chk(a - b)
            if op == '*':
                return self.chk(a * b)
            if op == '/':
                if b == 0:
                    raise Failure('zero_div')
                return self.chk(tdiv(a, b))
            if op == '%':
                if b == 0:
                    raise Failure('zero_div')
                return a - tdiv(a, b) * b
            if op == '<':
                return a < b
            if op == '<=':
                return a <= b
            if op == '>':
                return a > b
            if op == '>=':
                return a >= b
            if op == '==':
                return a == b
            if op == '!=':
                return a != b
            raise ValueError(op)
        if k == 'call':
            args = [self.ev(a, act) for a in e[2]]
            if e[1] == 'self':
                f = act[0].get('$self')
            else:
                f = self.read(act, e[1])
            if not isinstance(f, FnVal):
                raise Discard("not a function " + e[1])
            return self.call(f, args)
        raise ValueError(e)

    def call(self, f, args):
        self.stats["calls"] += 1
        self.depth += 1
        if self.depth > self.max_depth:
            raise Discard("depth")
        act = [{'$self': f}]
        for (pn, _), a in zip(f.params, args):
            act[0][pn] = a
        try:
            self.block(f.body, act, new_scope=False)
            rv = None
        except _Return as r:
            rv = r.v
        finally:
            self.depth -= 1
        if f.rtype and rv is None:
            raise Discard("missing return")
        return rv

    # ---- statements
    def block(self, stmts, act, new_scope=True):
        if new_scope:
            act.append({})
        try:
            for s in stmts:
                self.stmt(s, act)
        finally:
            if new_scope:
                act.pop()

    def stmt(self, s, act):
        self.tick()
        k = s[0]
        if k == 'assign':
            self.assign(act, s[1], self.ev(s[2], act))
        elif k == 'opassign':
            cur = self.read(act, s[1])
            v = self.ev(s[3], act)
            op = s[2][0]
            nv = self.ev(('bin', op, ('int' if isinstance(cur, int) and not isinstance(cur, bool) else 'str', cur),
                          ('int' if isinstance(v, int) and not isinstance(v, bool) else 'str', v)), act)
            self.assign(act, s[1], nv)
        elif k == 'print':
            self.out.append(fmt(self.ev(s[1], act)))
        elif k == 'if':
            self.stats["branches"] += 1
            for c, b in s[1]:
                if self.ev(c, act):
                    self.block(b, act)
                    return
            if s[2] is not None:
                self.block(s[2], act)
        elif k == 'while':
            while self.ev(s[1], act):
                self.stats["loops_iter"] += 1
                try:
                    self.block(s[2], act)
                except _Break:
                    self.stats["breaks"] += 1
                    break
                except _Continue:
                    self.stats["continues"] += 1
                    continue
        elif k == 'from':
            _, a, b, incl, step, ckind, cname, body = s
            start = self.ev(a, act)
            cn = cname if ckind != 'anon' else '$c%d' % id(s)
            if ckind == 'collide':
                self.assign(act, cn, start)
            else:
                act[-1][cn] = start
            end = self.ev(b, act)
            try:
                while True:
                    self.tick()
                    c = self.read(act, cn)
                    if not (c <= end if incl else c < end):
                        break
                    self.stats["loops_iter"] += 1
                    try:
                        self.block(body, act)
                    except _Break:
                        self.stats["breaks"] += 1
                        break
                    except _Continue:
                        self.stats["continues"] += 1
                    st = 1 if step is None else self.ev(step, act)
                    self.assign(act, cn, self.chk(self.read(act, cn) + st))
            finally:
                if ckind != 'collide':
                    act[-1].pop(cn, None)
        elif k == 'break':
            raise _Break()
        elif k == 'continue':
            raise _Continue()
        elif k == 'return':
            raise _Return(self.ev(s[1], act))
        elif k == 'expr':
            self.ev(s[1], act)
        elif k == 'assert':
            if not self.ev(s[1], act):
                raise Failure('assert')
        elif k == 'fn':
            self.assign(act, s[1], FnVal(s[1], s[2], s[3], s[4]))
            # functions are looked up through enclosing activations: record globally by (unique) name
            self.globals.setdefault(s[1], act[-1].get(s[1]) or self.lookup(act, s[1])[s[1]])
        elif k == 'list':
            act[-1][s[1]] = list(s[2])
        elif k == 'index':
            lst = self.read(act, s[2])
            i = self.ev(s[3], act)
            if not (0 <= i < len(lst)):
                raise Failure('index')
            self.assign(act, s[1], lst[i])
        else:
            raise ValueError(s)


def enumerate_paths(prog, uses_take, max_decisions, max_runs=4000):
    """All decision vectors (up to max_decisions) that complete an execution of the model.
    Returns (list of (decisions, status, lines, failkind, stats), n_dropped)."""
    if not uses_take:
        m = Model(prog, [])
        try:
            st, lines, fk = m.run()
        except (Discard, NeedDecision, RecursionError):
            return [], 1
        return [((), st, lines, fk, m.stats)], 0
    done, dropped, runs = [], 0, 0
    work = [()]
    while work and runs < max_runs:
        prefix = work.pop()
        runs += 1
        m = Model(prog, prefix)
        try:
            st, lines, fk = m.run()
            if m.di == len(prefix):
                done.append((prefix, st, lines, fk, m.stats))
            else:
                dropped += 1          # unused decisions cannot happen by construction (DFS extends by one)
        except NeedDecision:
            if len(prefix) < max_decisions:
                work.append(prefix + (True,))
                work.append(prefix + (False,))
            else:
                dropped += 1
        except (Discard, RecursionError):
            dropped += 1
    dropped += len(work)
    return done, dropped


# ----------------------------------------------------------------------------- generator

class Gen:
    """Seeded generator of well-typed programs.  Tracks lexical scopes exactly like the model so that
    every read is of a live name; every binding gets a globally unique name (C07 avoidance rule)."""

    def __init__(self, rng, max_depth=5, max_stmts=80, p_take=0.5, inject=0.02, fix_collide_nested=True):
        self.r = rng
        self.max_depth = max_depth
        self.max_stmts = max_stmts
        self.p_take = p_take
        self.inject = inject
        self.n = 0
        self.nstmts = 0
        self.uses_take = False
        self.fn_stack = [[]]     # per open block: functions defined there (name, [ptypes], rtype)
        self.shape = []
        self.allow_collide_nested = fix_collide_nested

    @property
    def funcs(self):
        return [f for level in self.fn_stack for f in level]

    def fresh(self, p):
        self.n += 1
        return "%s%d" % (p, self.n)

    # scopes: list of dict name -> type ; one list per function
    def vars_of(self, scopes, t, exclude=()):
        return [n for sc in scopes for n, ty in sc.items() if ty == t and n not in exclude]

    def int_e(self, scopes, d=0, no=()):
        r = self.r
        vs = self.vars_of(scopes, 'int', no)
        c = r.random()
        if d >= 2 or c < 0.3:
            if vs and r.random() < 0.65:
                return ('var', r.choice(vs))
            return ('int', r.choice([0, 1, 1, 2, 2, 3, 4, 5, 7, 10, -1, -2, -3]))
        if c < 0.85:
            op = r.choice(['+', '+', '+', '-', '-', '-', '*', '*', '/', '%'])
            left = self.int_e(scopes, d + 1, no)
            right = self.int_e(scopes, d + 1, no)
            if op in '/%':
                # literal zero divisors are folded and rejected at compile time; run-time zero divisors are
                # a prescribed failure and are kept, but rare
                if right[0] == 'int' or r.random() < 0.85 or not vars_in(right):
                    right = ('int', r.choice([1, 2, 3, 4, -2]))
            if left[0] == 'int' and right[0] == 'int' and vs:
                left = ('var', r.choice(vs))
            return ('bin', op, left, right)
        if c < 0.93 and self.funcs:
            fs = [f for f in self.funcs if f[2] == 'int']
            if fs:
                f = r.choice(fs)
                return ('call', f[0], [self.expr_of(t, scopes, d + 1, no) for t in f[1]])
        if vs:
            return ('neg', ('var', r.choice(vs)))
        return ('int', r.randint(0, 6))

    def bool_e(self, scopes, d=0, no=(), allow_take=True):
        r = self.r
        c = r.random()
        if allow_take and c < self.p_take * (0.8 if d == 0 else 0.4):
            self.uses_take = True
            return ('take',)
        if d >= 2 or c < 0.7:
            op = r.choice(['<', '<=', '>', '>=', '==', '!='])
            return ('bin', op, self.int_e(scopes, 1, no), self.int_e(scopes, 1, no))
        if c < 0.8:
            bs = self.vars_of(scopes, 'bool', no)
            if bs:
                return ('var', r.choice(bs))
        if c < 0.88:
            return ('not', self.bool_e(scopes, d + 1, no, allow_take))
        return ('bin', r.choice(['&&', '||']), self.bool_e(scopes, d + 1, no, allow_take),
                self.bool_e(scopes, d + 1, no, allow_take))

    def str_e(self, scopes, d=0, no=()):
        r = self.r
        ss = self.vars_of(scopes, 'str', no)
        c = r.random()
        if d >= 2 or c < 0.4:
            if ss and r.random() < 0.6:
                return ('var', r.choice(ss))
            return ('str', r.choice(["a", "b", "xy", "", "k ", "q1"]))
        if c < 0.8:
            return ('bin', '+', self.str_e(scopes, d + 1, no), self.str_e(scopes, d + 1, no))
        return ('bin', '+', self.str_e(scopes, d + 1, no), self.int_e(scopes, 2, no))

    def expr_of(self, t, scopes, d=0, no=()):
        if t == 'int':
            return self.int_e(scopes, d, no)
        if t == 'bool':
            return self.bool_e(scopes, max(d, 1), no, allow_take=False)
        return self.str_e(scopes, d, no)

    def label(self):
        return ('print', ('str', self.fresh("L")))

    def block(self, scopes, depth, loop_depth, fn, counters, n=None):
        """fn = None at module level, else (rtype).  counters: names that must not be written."""
        r = self.r
        scopes.append({})
        self.fn_stack.append([])
        out = [self.label()]
        n = n if n is not None else r.randint(1, 4 if depth > 1 else 6)
        for i in range(n):
            if self.nstmts >= self.max_stmts:
                break
            last = i == n - 1
            out.extend(self.stmt(scopes, depth, loop_depth, fn, counters, last))
            if out and out[-1][0] in ('break', 'continue', 'return'):
                break
        scopes.pop()
        self.fn_stack.pop()
        return out

    def stmt(self, scopes, depth, loop_depth, fn, counters, last):
        r = self.r
        self.nstmts += 1
        c = r.random()
        can_nest = depth < self.max_depth
        ivars = self.vars_of(scopes, 'int', counters)
        if r.random() < self.inject:
            return self.injected(scopes, counters)
        if last and loop_depth > 0 and c < 0.3:
            self.shape.append('brk' if c < 0.17 else 'cont')
            return [('break',) if c < 0.17 else ('continue',)]
        if last and fn and fn[0] and c < 0.45:
            self.shape.append('ret@%d' % loop_depth)
            return [('return', self.expr_of(fn[0], scopes, 0))]
        c = r.random()
        if c < 0.16:
            t = r.choice(['int', 'int', 'int', 'bool', 'str'])
            name = self.fresh({'int': 'v', 'bool': 'p', 'str': 's'}[t])
            e = self.expr_of(t, scopes)
            scopes[-1][name] = t
            return [('assign', name, e)]
        if c < 0.22 and ivars:
            return [('assign', r.choice(ivars), self.int_e(scopes, 0, counters))]
        if c < 0.26:
            # self-referential updates in both operand orders (`x = x (+) e`, `x = e (+) x`), ints and strings
            svars = [n for n in self.vars_of(scopes, 'str') if n not in counters]
            pool = [(n, 'int') for n in ivars] + [(n, 'str') for n in svars]
            if pool:
                n, t = r.choice(pool)
                e = self.int_e(scopes, 1, counters) if t == 'int' else self.str_e(scopes, 1)
                op = r.choice(['+', '-', '*']) if t == 'int' else '+'
                left, right = (('var', n), e) if r.random() < 0.5 else (e, ('var', n))
                return [('assign', n, ('bin', op, left, right)), ('print', ('var', n))]
        if c < 0.36 and ivars:
            return [('opassign', r.choice(ivars), r.choice(['+=', '-=', '*=']), self.int_e(scopes, 1, counters))]
        if c < 0.40:
            ss = self.vars_of(scopes, 'str')
            if ss:
                return [('opassign', r.choice(ss), '+=', self.str_e(scopes, 1))]
        if c < 0.54:
            t = r.choice(['int', 'int', 'bool', 'str'])
            return [('print', self.expr_of(t, scopes))]
        if c < 0.70 and can_nest:
            return [self.if_stmt(scopes, depth, loop_depth, fn, counters)]
        if c < 0.78 and can_nest:
            return self.while_stmt(scopes, depth, loop_depth, fn, counters)
        if c < 0.90 and can_nest:
            return self.from_stmt(scopes, depth, loop_depth, fn, counters)
        if c < 0.95 and depth <= 2 and fn is None and len(self.funcs) < 4:
            return [self.fn_def(scopes, depth)]
        if self.funcs:
            f = r.choice(self.funcs)
            call = ('call', f[0], [self.expr_of(t, scopes, 1) for t in f[1]])
            if f[2]:
                return [('print', call)]
            return [('expr', call)]
        return [('print', self.int_e(scopes))]

    def injected(self, scopes, counters):
        """A statement that may fail at run time: assert, division by a run-time zero, index == len."""
        r = self.r
        c = r.random()
        self.shape.append('inj')
        if c < 0.4:
            if r.random() < 0.5:
                self.uses_take = True
                return [('assert', ('take',))]
            return [('assert', self.bool_e(scopes, 1, (), allow_take=False))]
        if c < 0.7:
            z = self.fresh('z')
            d = self.fresh('v')
            num = self.int_e(scopes, 1)
            scopes[-1][z] = 'int'
            scopes[-1][d] = 'int'
            return [('assign', z, ('int', r.choice([0, 0, 1]))),
                    ('assign', d, ('bin', r.choice(['/', '%']), num, ('var', z)))]
        ln = self.fresh('lq')
        k = self.fresh('k')
        dst = self.fresh('v')
        vals = [r.randint(-3, 9) for _ in range(r.randint(1, 3))]
        scopes[-1][k] = 'int'
        scopes[-1][dst] = 'int'
        idx = r.choice([0, len(vals) - 1, len(vals), len(vals), -1])
        return [('list', ln, vals), ('assign', k, ('int', idx)), ('index', dst, ln, ('var', k))]

    def if_stmt(self, scopes, depth, loop_depth, fn, counters):
        r = self.r
        arms = [(self.bool_e(scopes, 0, ()), self.block(scopes, depth + 1, loop_depth, fn, counters))]
        kind = 'if'
        for _ in range(r.choice([0, 0, 0, 1, 1, 2])):
            arms.append((self.bool_e(scopes, 0, ()), self.block(scopes, depth + 1, loop_depth, fn, counters)))
            kind = 'elif'
        els = None
        if r.random() < 0.5:
            els = self.block(scopes, depth + 1, loop_depth, fn, counters)
            kind += '+else'
        self.shape.append('%s@%d' % (kind, depth))
        return ('if', arms, els)

    def while_stmt(self, scopes, depth, loop_depth, fn, counters):
        r = self.r
        self.shape.append('while@%d' % depth)
        c = r.random()
        if c < self.p_take:
            self.uses_take = True
            body = self.block(scopes, depth + 1, loop_depth + 1, fn, counters)
            return [('while', ('take',), body)]
        w = self.fresh('w')
        scopes[-1][w] = 'int'
        bound = r.randint(0, 3)
        cond = ('bin', '<', ('var', w), ('int', bound))
        if c < self.p_take + 0.2:
            self.uses_take = True
            cond = ('bin', '&&', cond, ('take',)) if r.random() < 0.5 else ('bin', '&&', ('take',), cond)
        body = self.block(scopes, depth + 1, loop_depth + 1, fn, counters + (w,))
        body.insert(1, ('opassign', w, '+=', ('int', 1)))
        return [('assign', w, ('int', 0)), ('while', cond, body)]

    def from_stmt(self, scopes, depth, loop_depth, fn, counters):
        r = self.r
        pre = []
        a = r.choice([('int', r.randint(-1, 3)), self.int_e(scopes, 2, counters)])
        lo = a[1] if a[0] == 'int' else 0
        b = r.choice([('int', lo + r.randint(0, 4)), ('int', lo + r.randint(0, 4)), self.int_e(scopes, 2, counters)])
        incl = r.random() < 0.5
        step = r.choice([None, None, ('int', 1), ('int', 2), ('int', 3), 'var', 'compound', 'compound'])
        stv = None
        if step in ('var', 'compound'):
            # a step held in a variable / computed by a compound expression (evaluated after every iteration);
            # the variable is never written by the body
            stv = self.fresh('st')
            scopes[-1][stv] = 'int'
            pre.append(('assign', stv, ('int', r.choice([1, 2]))))
            if step == 'var':
                step = ('var', stv)
            else:
                step = r.choice([('bin', '+', ('var', stv), ('int', 1)), ('bin', '*', ('var', stv), ('int', 2)),
                                 ('bin', '+', ('int', 1), ('bin', '*', ('var', stv), ('int', 1))),
                                 ('bin', '-', ('bin', '+', ('var', stv), ('int', 3)), ('int', 1))])
        ck = r.choice(['anon', 'named', 'named', 'collide'])
        cname = None
        inner = counters + ((stv,) if stv else ())
        counters = inner
        if ck == 'named':
            cname = self.fresh('i')
        elif ck == 'collide':
            # an existing int variable of this function that is not a live counter and is not mentioned by the
            # bounds / step (the order of counter initialisation vs. bound evaluation is not specified)
            mentioned = set(vars_in(a)) | set(vars_in(b))
            cand_scopes = scopes if self.allow_collide_nested else scopes[-1:]
            cands = [n for sc in cand_scopes for n, ty in sc.items() if ty == 'int' and n not in counters
                     and n not in mentioned]
            if cands:
                cname = r.choice(cands)
            else:
                cname = self.fresh('c')
                scopes[-1][cname] = 'int'
                pre.append(('assign', cname, ('int', r.randint(5, 9))))
        self.shape.append('from:%s%s%s@%d' % (ck, 'T' if incl else 't', (step[1] if step[0] == 'int' else step[0]) if step else '', depth))
        if ck == 'named':
            scopes.append({cname: 'int'})     # visible in the body only
        if cname:
            inner = counters + (cname,)
        body = self.block(scopes, depth + 1, loop_depth + 1, fn, inner)
        if ck == 'named':
            scopes.pop()
        return pre + [('from', a, b, incl, step, ck, cname, body)]

    def fn_def(self, scopes, depth):
        r = self.r
        name = self.fresh('f')
        nparams = r.randint(0, 3)
        params = [(self.fresh('a'), r.choice(['int', 'int', 'bool', 'str'])) for _ in range(nparams)]
        rtype = r.choice(['int', 'int', 'bool', 'str', None])
        recursive = rtype == 'int' and params and params[0][1] == 'int' and r.random() < 0.4
        fscopes = [dict(params)]
        body = []
        self.shape.append('fn%s%s' % (len(params), 'R' if recursive else ''))
        if recursive:
            p0 = params[0][0]
            rest = [self.expr_of(t, fscopes, 1) for _, t in params[1:]]
            body.append(('if', [(('bin', '<=', ('var', p0), ('int', 0)), [self.label(), ('return', ('int', r.randint(0, 3)))])], None))
            inner = self.block(fscopes, depth + 1, 0, (rtype,), (p0,), n=r.randint(1, 3))
            if inner and inner[-1][0] == 'return':
                inner.pop()
            body.extend(inner)
            rec = ('call', 'self', [('bin', '-', ('var', p0), ('int', r.choice([1, 1, 2])))] + rest)
            body.append(('return', ('bin', '+', rec, ('int', r.randint(0, 2)))))
        else:
            body = self.block(fscopes, depth + 1, 0, (rtype,), ())
            if rtype and not (body and body[-1][0] == 'return'):
                body.append(('return', self.expr_of(rtype, fscopes[:1], 1)))
        # recursive functions are called with small arguments only
        ptypes = (['small'] if recursive else [params[0][1]] if params else []) + [t for _, t in params[1:]]
        self.fn_stack[-1].append((name, ptypes, rtype))
        scopes[-1][name] = 'fn'
        return ('fn', name, params, rtype, body)

    def program(self):
        scopes = []
        prog = self.block(scopes, 0, 0, None, (), n=self.r.randint(3, 9))
        return prog


def vars_in(e):
    if e[0] == 'var':
        return [e[1]]
    out = []
    for x in e[1:]:
        if isinstance(x, tuple):
            out.extend(vars_in(x))
        elif isinstance(x, list):
            for y in x:
                if isinstance(y, tuple):
                    out.extend(vars_in(y))
    return out


def gen_program(seed, **kw):
    g = Gen(random.Random(seed), **kw)
    # 'small' parameter type: an int in 0..3 (recursion depth)
    orig = g.expr_of

    def expr_of(t, scopes, d=0, no=()):
        if t == 'small':
            return ('int', g.r.randint(0, 3))
        return orig(t, scopes, d, no)
    g.expr_of = expr_of
    prog = g.program()
    return prog, g.uses_take, g.shape


def count_nodes(prog):
    n = 0
    md = 0

    def walk(stmts, d):
        nonlocal n, md
        md = max(md, d)
        for s in stmts:
            n += 1
            k = s[0]
            if k == 'if':
                for _, b in s[1]:
                    walk(b, d + 1)
                if s[2] is not None:
                    walk(s[2], d + 1)
            elif k == 'while':
                walk(s[2], d + 1)
            elif k == 'from':
                walk(s[7], d + 1)
            elif k == 'fn':
                walk(s[4], d + 1)
    walk(prog, 0)
    return n, md


# ----------------------------------------------------------------------------- systematic skeletons

def _lbl(n):
    return ('print', ('str', "S%d" % n[0]))


def systematic_programs(max_level=2):
    """Deterministic family: every control construct nested directly in every other (two and three
    levels), with break / continue / return guarded by a driver decision at the innermost level, and the
    full from-loop matrix (to|through x step x counter kind x trip count x early exit).  Every condition
    is a driver decision or a small counter test, so enumerate_paths() turns every path into a run."""
    T = ('take',)
    ctr = [0]

    def fresh(p):
        ctr[0] += 1
        return "%s%d" % (p, ctr[0])

    def P(tag):
        return ('print', ('str', tag))

    def wrap(kind, body, tag, tail=False):
        """Returns list of statements implementing construct `kind` around `body`.  tail=True: `body` is the
        last thing in the construct's block (no trailing statement), so that a nested construct ending in
        break / continue / return is in tail position at every level."""
        if tail:
            full = wrap(kind, body, tag)
            def strip(stmts):
                # drop the trailing marker print that wrap() puts after the body of loops
                if stmts and stmts[-1][0] == 'print' and stmts[-1][1][0] == 'str' and stmts[-1][1][1] == tag + "x":
                    return stmts[:-1]
                return stmts
            out = []
            for st in full:
                if st[0] == 'while':
                    out.append(('while', st[1], strip(st[2])))
                elif st[0] == 'from':
                    out.append(st[:7] + (strip(st[7]),))
                else:
                    out.append(st)
            return out
        if kind == 'if':
            return [('if', [(T, [P(tag + "t")] + body)], None)]
        if kind == 'ifelse':
            return [('if', [(T, [P(tag + "t")] + body)], [P(tag + "e")])]
        if kind == 'elseif':
            return [('if', [(T, [P(tag + "a")]), (T, [P(tag + "b")] + body)], [P(tag + "c")])]
        if kind == 'else':
            return [('if', [(T, [P(tag + "t")])], [P(tag + "e")] + body)]
        # conditions the compiler can decide: a literal, a comparison of literals, a negated literal
        if kind == 'iftrue':
            return [('if', [(('bool', True), [P(tag + "t")] + body)], None)]
        if kind == 'ifcmp':
            return [('if', [(('bin', '<', ('int', 1), ('int', 2)), [P(tag + "t")] + body)], [P(tag + "e")])]
        if kind == 'elsefalse':
            return [('if', [(('not', ('bool', True)), [P(tag + "t")])], [P(tag + "e")] + body)]
        # empty branches: an `else` (or a then-branch) without statements still has its frame and its jumps
        if kind == 'emptyelse':
            return [('if', [(T, [P(tag + "t")] + body)], [])]
        if kind == 'emptythen':
            return [('if', [(T, [])], [P(tag + "e")] + body)]
        if kind == 'while':
            return [('while', T, [P(tag + "w")] + body + [P(tag + "x")])]
        if kind == 'wcount':
            w = fresh('w')
            return [('assign', w, ('int', 0)),
                    ('while', ('bin', '<', ('var', w), ('int', 2)), [('opassign', w, '+=', ('int', 1)), P(tag + "w")] + body + [P(tag + "x")]),
                    ('print', ('var', w))]
        if kind == 'from':
            return [('from', ('int', 0), ('int', 2), False, None, 'anon', None, [P(tag + "f")] + body + [P(tag + "x")])]
        if kind == 'fromnamed':
            i = fresh('i')
            return [('from', ('int', 1), ('int', 2), True, None, 'named', i, [('print', ('var', i))] + body + [P(tag + "x")])]
        if kind == 'fromcollide':
            c = fresh('c')
            return [('assign', c, ('int', 7)),
                    ('from', ('int', 0), ('int', 2), False, ('int', 1), 'collide', c, [('print', ('var', c))] + body + [P(tag + "x")]),
                    ('print', ('var', c))]
        raise ValueError(kind)

    KINDS = ['if', 'ifelse', 'elseif', 'else', 'while', 'wcount', 'from', 'fromnamed', 'fromcollide',
             'iftrue', 'ifcmp', 'elsefalse', 'emptyelse', 'emptythen']
    LOOPS = ('while', 'wcount', 'from', 'fromnamed', 'fromcollide')
    out = []

    def emit(prog, shape):
        out.append((prog, True, shape))

    # two- and three-level nestings with every applicable exit at the innermost level
    chains = [(a, b) for a in KINDS for b in KINDS]
    if max_level >= 3:
        chains += [(a, b, c) for a in KINDS for b in ('if', 'else', 'while', 'from', 'fromcollide') for c in ('ifelse', 'elseif', 'wcount', 'fromnamed')]
    for chain in chains:
        in_loop = any(k in LOOPS for k in chain)
        exits = ['none'] + (['break', 'continue'] if in_loop else [])
        for ex in exits:
            ctr[0] = 0
            inner = [P("in")]
            if ex != 'none':
                inner = [P("in"), ('if', [(T, [P("ex"), (ex,)])], None), P("after")]
            body = inner
            for lvl, kind in enumerate(reversed(chain)):
                body = wrap(kind, body, "k%d" % (len(chain) - lvl))
            emit([P("begin")] + body + [P("end")], ["sys"] + list(chain) + [ex])
        # the same nest inside a function, leaving by `return` from the innermost level; once with statements
        # after the exit at every level and once with the exit in tail position at every level
        for tail in (False, True):
            ctr[0] = 0
            inner = [P("in"), ('if', [(T, [P("ret"), ('return', ('int', 7))])], None)] + ([] if tail else [P("after")])
            body = inner
            for lvl, kind in enumerate(reversed(chain)):
                body = wrap(kind, body, "k%d" % (len(chain) - lvl), tail)
            f = fresh('f')
            prog = [P("begin"), ('fn', f, [], 'int', [P("fn")] + body + [P("fell"), ('return', ('int', 1))]),
                    ('print', ('call', f, [])), ('print', ('call', f, [])), P("end")]
            emit(prog, ["sys-fn"] + list(chain) + ["return-tail" if tail else "return"])
        if in_loop:
            for ex in ('break', 'continue'):
                ctr[0] = 0
                body = [P("in"), ('if', [(T, [P("ex"), (ex,)])], None)]
                for lvl, kind in enumerate(reversed(chain)):
                    body = wrap(kind, body, "k%d" % (len(chain) - lvl), True)
                emit([P("begin")] + body + [P("end")], ["sys"] + list(chain) + [ex + "-tail"])

    # two exits in one loop body: a guarded exit followed by an unconditional exit as the LAST statement of the
    # body (the retry idiom `while .. { ..; if c { continue }; return v }`), every loop x guard x exit pair
    for L in LOOPS:
        for g in ('if', 'else', 'elseif'):
            for ex1 in ('break', 'continue', 'return'):
                for ex2 in ('break', 'continue', 'return'):
                    ctr[0] = 0
                    mk = lambda ex, v: ('return', ('int', v)) if ex == 'return' else (ex,)
                    inner = wrap(g, [P("ex1"), mk(ex1, 7)], "g", True)
                    body = wrap(L, [P("in")] + inner + [P("mid"), mk(ex2, 8)], "k1", True)
                    f = fresh('f')
                    prog = [P("begin"), ('fn', f, [], 'int', [P("fn")] + body + [P("fell"), ('return', ('int', 1))]),
                            ('print', ('call', f, [])), ('print', ('call', f, [])), P("end")]
                    emit(prog, ["sys-two-exits", L, g, ex1, ex2])

    # self-referential updates: every operator in both operand orders, ints and strings, at module level,
    # inside a block and inside a function (plain `x = x (+) e` and the op-assign spelling)
    for where in ('module', 'block', 'fn'):
        stmts = [('assign', 'u1', ('int', 7)), ('assign', 't1', ('str', "ab"))]
        for op in ('+', '-', '*', '/', '%'):
            stmts += [('assign', 'u1', ('bin', op, ('var', 'u1'), ('int', 3))), ('print', ('var', 'u1')),
                      ('assign', 'u1', ('bin', op, ('int', 20), ('var', 'u1'))), ('print', ('var', 'u1')),
                      ('assign', 'u1', ('int', 7))]
        stmts += [('assign', 't1', ('bin', '+', ('var', 't1'), ('str', "x"))), ('print', ('var', 't1')),
                  ('assign', 't1', ('bin', '+', ('str', "y"), ('var', 't1'))), ('print', ('var', 't1')),
                  ('assign', 't1', ('bin', '+', ('int', 5), ('var', 't1'))), ('print', ('var', 't1')),
                  ('opassign', 't1', '+=', ('str', "z")), ('print', ('var', 't1')),
                  ('opassign', 'u1', '-=', ('int', 2)), ('print', ('var', 'u1'))]
        if where == 'block':
            stmts = [('if', [(T, stmts)], [P("skipped")])]
        elif where == 'fn':
            stmts = [('fn', 'f1', [], 'int', stmts + [('return', ('var', 'u1'))]), ('print', ('call', 'f1', []))]
        emit([P("begin")] + stmts + [P("end")], ["sys-update", where])

    # from-loop matrix
    for incl in (False, True):
        for step in (None, 1, 2, 3, 'var', 'compound'):
            for ck in ('anon', 'named', 'collide', 'collide_nested'):
                for (a, b) in ((0, 0), (0, 1), (0, 3), (1, 4), (2, 1), (-1, 2)):
                    for ex in ('none', 'break', 'continue'):
                        ctr[0] = 0
                        body = [P("b")]
                        cname = None
                        pre, post = [], []
                        kind = ck
                        if ck == 'named':
                            cname = 'i1'
                        elif ck.startswith('collide'):
                            cname = 'c1'
                            kind = 'collide'
                            pre = [('assign', 'c1', ('int', 9))]
                            post = [('print', ('var', 'c1'))]
                        if cname:
                            body.append(('print', ('var', cname)))
                        if ex != 'none':
                            body += [('if', [(T, [P("ex"), (ex,)])], None), P("after")]
                        if step == 'var':
                            pre = pre + [('assign', 'st1', ('int', 2))]
                            step_e = ('var', 'st1')
                        elif step == 'compound':
                            pre = pre + [('assign', 'st1', ('int', 1))]
                            step_e = ('bin', '+', ('var', 'st1'), ('int', 1))
                        else:
                            step_e = ('int', step) if step else None
                        loop = ('from', ('int', a), ('int', b), incl, step_e, kind, cname, body)
                        if ck == 'collide_nested':
                            stmts = pre + [('if', [(('bool', True), [P("blk"), loop, ('print', ('var', 'c1'))])], None)] + post
                        else:
                            stmts = pre + [loop] + post
                        emit([P("begin")] + stmts + [P("end")],
                             ["sys-from", 'T' if incl else 't', str(step), ck, "%d..%d" % (a, b), ex])
    # from-loop bounds that are calls with a visible effect: the start bound is evaluated before the end bound,
    # each exactly once (how often `step` is evaluated stays an open reading: literal steps only)
    for incl in (False, True):
        for ck in ('anon', 'named'):
            for step in (None, 2):
                for ex in ('none', 'break', 'continue'):
                    ctr[0] = 0
                    defs = [('fn', 'lo1', [], 'int', [P("lo"), ('return', ('int', 1))]),
                            ('fn', 'hi1', [], 'int', [P("hi"), ('return', ('int', 4))])]
                    body = [P("body")]
                    if ck == 'named':
                        body.append(('print', ('var', 'k1')))
                    if ex != 'none':
                        body += [('if', [(T, [P("ex"), (ex,)])], None), P("after")]
                    loop = ('from', ('call', 'lo1', []), ('call', 'hi1', []), incl, ('int', step) if step else None, ck,
                            'k1' if ck == 'named' else None, body)
                    emit([P("begin")] + defs + [loop, P("end")],
                         ["sys-from-calls", 'T' if incl else 't', str(step), ck, ex])
    out.extend(precedence_programs())
    return out


def precedence_programs():
    """sys-prec family (rendered with minimal parentheses): every well-typed pair of binary operators in both
    tree shapes, plus the unary operators against each binary level, over variable and literal operands, with
    operand values for which the two possible groupings differ."""
    AR, CMP, LOG = ['+', '-', '*', '/', '%'], ['<', '<=', '>', '>=', '==', '!='], ['&&', '||', '^']
    BIT = ['&', '|', 'xor', '<<', '>>']
    INTS = [(7, 3, 2), (2, 7, 3), (-8, 3, 2), (9, -5, 4), (12, 5, 1)]
    BOOLS = [(a, b, c) for a in (True, False) for b in (True, False) for c in (True, False)]
    out = []

    def prog(shape, make, ityped, btyped):
        """make(leaf) -> expression, leaf(kind, i) -> operand i of kind 'i'|'b'.  Operand triples for which the
        expression is not defined (zero divisor, overflow, shift amount out of range) are left out: those
        failures are C05's subject and a literal one would be refused at compile time."""
        stmts = []
        for lit in (False, True):
            for iv in (INTS if ityped else [(0, 0, 0)]):
                for bv in (BOOLS if btyped else [(False,) * 3]):
                    litleaf = lambda kd, j, iv=iv, bv=bv: ('int', iv[j]) if kd == 'i' else ('bool', bv[j])
                    try:
                        Model([], ()).ev(make(litleaf), [{}])
                    except (Failure, Discard):
                        continue
                    if not lit:
                        for j in range(3):
                            if ityped:
                                stmts.append(('assign', 'x%d' % j, ('int', iv[j])))
                            if btyped:
                                stmts.append(('assign', 'p%d' % j, ('bool', bv[j])))
                    leaf = litleaf if lit else (lambda kd, j: ('var', ('x%d' if kd == 'i' else 'p%d') % j))
                    e = make(leaf)
                    stmts.append(('assign', 'res', e))
                    stmts.append(('print', ('var', 'res')))
        if stmts:
            out.append((stmts, False, ["sys-prec"] + shape))

    I = lambda l, j: l('i', j)
    B = lambda l, j: l('b', j)
    for a in AR:
        for b in AR:
            prog([a, b, "L"], lambda l, a=a, b=b: ('bin', b, ('bin', a, I(l, 0), I(l, 1)), I(l, 2)), True, False)
            prog([a, b, "R"], lambda l, a=a, b=b: ('bin', a, I(l, 0), ('bin', b, I(l, 1), I(l, 2))), True, False)
    for c in CMP:
        for a in AR:
            prog([a, c, "L"], lambda l, a=a, c=c: ('bin', c, ('bin', a, I(l, 0), I(l, 1)), I(l, 2)), True, False)
            prog([c, a, "R"], lambda l, a=a, c=c: ('bin', c, I(l, 0), ('bin', a, I(l, 1), I(l, 2))), True, False)
        for g in LOG:
            prog([c, g, "L"], lambda l, c=c, g=g: ('bin', g, ('bin', c, I(l, 0), I(l, 1)), B(l, 2)), True, True)
            prog([g, c, "R"], lambda l, c=c, g=g: ('bin', g, B(l, 0), ('bin', c, I(l, 1), I(l, 2))), True, True)
    for g in LOG + ['==', '!=']:
        for h in LOG + ['==', '!=']:
            prog([g, h, "L"], lambda l, g=g, h=h: ('bin', h, ('bin', g, B(l, 0), B(l, 1)), B(l, 2)), False, True)
            prog([g, h, "R"], lambda l, g=g, h=h: ('bin', g, B(l, 0), ('bin', h, B(l, 1), B(l, 2))), False, True)
    for g in LOG + ['==', '!=']:
        prog(['!', g, "operand"], lambda l, g=g: ('bin', g, ('not', B(l, 0)), B(l, 1)), False, True)
        prog(['!', g, "whole"], lambda l, g=g: ('not', ('bin', g, B(l, 0), B(l, 1))), False, True)
        prog([g, '!', "right"], lambda l, g=g: ('bin', g, B(l, 0), ('not', B(l, 1))), False, True)
    for a in AR + CMP:
        prog(['neg', a, "operand"], lambda l, a=a: ('bin', a, ('neg', I(l, 0)), I(l, 1)), True, False)
        prog([a, 'neg', "right"], lambda l, a=a: ('bin', a, I(l, 0), ('neg', I(l, 1))), True, False)
        if a in AR:
            prog(['neg', a, "whole"], lambda l, a=a: ('neg', ('bin', a, I(l, 0), I(l, 1))), True, False)
    for a in BIT:
        for b in BIT + AR:
            prog([a, b, "L"], lambda l, a=a, b=b: ('bin', b, ('bin', a, I(l, 0), I(l, 1)), I(l, 2)), True, False)
            prog([a, b, "R"], lambda l, a=a, b=b: ('bin', a, I(l, 0), ('bin', b, I(l, 1), I(l, 2))), True, False)
            if b in AR:
                prog([b, a, "L"], lambda l, a=a, b=b: ('bin', a, ('bin', b, I(l, 0), I(l, 1)), I(l, 2)), True, False)
                prog([b, a, "R"], lambda l, a=a, b=b: ('bin', b, I(l, 0), ('bin', a, I(l, 1), I(l, 2))), True, False)
        for c in CMP:
            prog([a, c, "L"], lambda l, a=a, c=c: ('bin', c, ('bin', a, I(l, 0), I(l, 1)), I(l, 2)), True, False)
            prog([c, a, "R"], lambda l, a=a, c=c: ('bin', c, I(l, 0), ('bin', a, I(l, 1), I(l, 2))), True, False)
        prog(['neg', a, "operand"], lambda l, a=a: ('bin', a, ('neg', I(l, 0)), I(l, 1)), True, False)
    for a in AR:   # string concatenation next to arithmetic: "s" + a * b, "s" + a + b, a + b + "s"
        prog(['str+', a, "R"], lambda l, a=a: ('bin', '+', ('str', "s"), ('bin', a, I(l, 0), I(l, 1))), True, False)
        prog(['str+', a, "L"], lambda l, a=a: ('bin', a if a == '+' else '+', ('bin', '+', ('str', "s"), I(l, 0)), I(l, 1)) if a == '+'
             else ('bin', '+', ('bin', a, I(l, 0), I(l, 1)), ('str', "s")), True, False)
    return out
