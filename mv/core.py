"""Shared machinery: build, case runner, exit classification, parallel map, verdicts,
known findings, evidence.  Python 3 standard library only."""
import hashlib
import json
import multiprocessing as mp
import os
import random
import re
import resource
import shutil
import signal
import subprocess
import sys
import time
import traceback

VERIF = os.path.dirname(os.path.dirname(os.path.abspath(__file__)))
REPO = os.environ.get("MSCRIPT_REPO", "/repo")
WORK = os.environ.get("VERIF_WORK") or os.path.join(VERIF, ".work")   # override only for scratch mutation runs
# scratch mutation runs (VERIF_WORK set) keep their evidence and witnesses out of /verif
OUT = WORK if os.environ.get("VERIF_WORK") else VERIF
TARGET = os.path.join(WORK, "target")
BIN = os.path.join(TARGET, "debug", "mscript")
RUSTFLAGS = "--cfg mscript_verif --check-cfg cfg(mscript_verif)"
NPROC = min(16, os.cpu_count() or 4)

BANNER = "MSCRIPT INTERPRETER FATAL RUNTIME ERROR"
MISMATCH = "MSCRIPT INTERPRETER STACK MISMATCH"


class Inconclusive(Exception):
    """The run could not decide (build failure, hook silent, harness trouble)."""


# ----------------------------------------------------------------------------- build

def cargo_env():
    env = dict(os.environ)
    env["RUSTFLAGS"] = RUSTFLAGS
    env["CARGO_TARGET_DIR"] = TARGET
    env["CARGO_NET_OFFLINE"] = "true"
    env.pop("RUST_BACKTRACE", None)
    return env


def build(quiet=True):
    """Build /repo's current working tree with the hooks on.  Returns the binary path."""
    os.makedirs(WORK, exist_ok=True)
    t0 = time.time()
    p = subprocess.run(["cargo", "build", "--offline", "--bin", "mscript"], cwd=REPO,
                       env=cargo_env(), stdout=subprocess.PIPE, stderr=subprocess.STDOUT, text=True)
    if p.returncode != 0:
        tail = "\n".join(p.stdout.splitlines()[-40:])
        raise Inconclusive("cargo build of %s failed (exit %d):\n%s" % (REPO, p.returncode, tail))
    if not quiet:
        print("build ok in %.1fs" % (time.time() - t0))
    return BIN


# ----------------------------------------------------------------------------- running

class _Popen(subprocess.Popen):
    """Popen that keeps the child's rusage (CPU time is the deadline clock, not wall time)."""
    rusage = None

    def _try_wait(self, wait_flags):
        try:
            pid, sts, ru = os.wait4(self.pid, wait_flags)
            if pid == self.pid:
                self.rusage = ru
        except ChildProcessError:
            pid, sts = self.pid, 0
        return (pid, sts)


class Res:
    __slots__ = ("argv", "rc", "cls", "out", "err", "cpu", "wall")

    def __init__(self, argv, rc, cls, out, err, cpu, wall):
        self.argv, self.rc, self.cls, self.out, self.err, self.cpu, self.wall = argv, rc, cls, out, err, cpu, wall

    def lines(self):
        return self.out.split("\n")[:-1] if self.out.endswith("\n") else self.out.split("\n")

    def brief(self):
        return {"argv": self.argv, "rc": self.rc, "cls": self.cls, "out": self.out[-4000:],
                "err": self.err[-4000:], "cpu": round(self.cpu, 3)}


BASE_ENV = {"PATH": os.environ.get("PATH", "/usr/bin:/bin"), "RUST_BACKTRACE": "0", "NO_COLOR": "1",
            "HOME": os.environ.get("HOME", "/root"), "LANG": "C.UTF-8"}


def run(argv, cwd, env=None, cpu=20, wall=None, merge=False, stdin=None):
    """Run one command.  Exit classes: ok fail panic signal cpu_timeout wall_timeout other."""
    e = dict(BASE_ENV)
    if env:
        e.update(env)
    if wall is None:
        wall = max(60, cpu * 6)
    t0 = time.time()
    try:
        p = _Popen(argv, cwd=cwd, env=e, stdin=subprocess.PIPE if stdin is not None else subprocess.DEVNULL,
                   stdout=subprocess.PIPE, stderr=subprocess.STDOUT if merge else subprocess.PIPE)
    except OSError as ex:
        return Res(argv, None, "spawn_error", "", str(ex), 0.0, 0.0)
    try:
        resource.prlimit(p.pid, resource.RLIMIT_CPU, (cpu, cpu + 2))
    except (OSError, ValueError):
        pass
    timed_out = False
    try:
        out, err = p.communicate(input=stdin, timeout=wall)
    except subprocess.TimeoutExpired:
        timed_out = True
        p.kill()
        out, err = p.communicate()
    wall_s = time.time() - t0
    ru = p.rusage
    cpu_s = (ru.ru_utime + ru.ru_stime) if ru else 0.0
    out = out.decode("utf-8", "replace") if out else ""
    err = err.decode("utf-8", "replace") if err else ""
    rc = p.returncode
    if timed_out:
        cls = "wall_timeout"
    elif rc == 0:
        cls = "ok"
    elif rc in (-signal.SIGXCPU,) or (rc == -signal.SIGKILL and cpu_s >= cpu):
        cls = "cpu_timeout"
    elif rc is not None and rc < 0:
        cls = "signal"
    elif rc == 101 or "panicked at" in err or (merge and "panicked at" in out):
        cls = "panic"
    elif rc == 1:
        cls = "fail"
    else:
        cls = "other"
    return Res(argv, rc, cls, out, err, cpu_s, wall_s)


def ms(*args):
    return [BIN] + list(args)


_case_counter = [0]
CASE_ROOT = os.path.join(WORK, "cases", "%d" % os.getpid())   # forked workers inherit the driver's root


def case_dir(tag="case"):
    """A fresh scratch directory under .work/cases (one per case: `run` writes .mmm next to sources)."""
    _case_counter[0] += 1
    d = os.path.join(CASE_ROOT, "%s-%d-%d" % (tag, os.getpid(), _case_counter[0]))
    os.makedirs(d)
    return d


def write_files(d, files):
    for name, text in files.items():
        path = os.path.join(d, name)
        os.makedirs(os.path.dirname(path), exist_ok=True)
        mode = "wb" if isinstance(text, bytes) else "w"
        with open(path, mode) as f:
            f.write(text)


def rm(d):
    shutil.rmtree(d, ignore_errors=True)


def run_program(files, entry="main.ms", mode="run", env=None, cpu=20, merge=False, keep=False, tag="case",
                trace=False, dump=False, typed=False):
    """Write `files` into a fresh directory and execute `entry`.
    mode: run | compile (compile only) | compile_execute.
    Returns (Res or list of Res, dir or None, extras dict with 'trace'/'dump' text)."""
    d = case_dir(tag)
    write_files(d, files)
    e = dict(env or {})
    if trace:
        e["MSCRIPT_VERIF_TRACE"] = os.path.join(d, "_trace.log")
    if dump:
        e["MSCRIPT_VERIF_DUMP"] = os.path.join(d, "_dump.log")
    if typed:
        e["MSCRIPT_VERIF_TYPED_PRINT"] = "1"
    extras = {}
    try:
        if mode == "run":
            r = run(ms("run", entry, "-q"), d, e, cpu=cpu, merge=merge)
        elif mode == "compile":
            r = run(ms("compile", entry, "--quick"), d, e, cpu=cpu, merge=merge)
        elif mode == "compile_execute":
            r1 = run(ms("compile", entry, "--quick"), d, e, cpu=cpu, merge=merge)
            if r1.cls == "ok":
                r = run(ms("execute", entry[:-3] + ".mmm"), d, e, cpu=cpu, merge=merge)
            else:
                r = r1
            extras["compile"] = r1
        else:
            raise ValueError(mode)
        for key, fn in (("trace", "_trace.log"), ("dump", "_dump.log")):
            path = os.path.join(d, fn)
            if os.path.exists(path):
                with open(path, encoding="utf-8", errors="replace") as f:
                    extras[key] = f.read()
        return r, (d if keep else None), extras
    finally:
        if not keep:
            rm(d)


# ----------------------------------------------------------------------------- failure taxonomy (§2.3)

DEFINED = [
    # exact message fragments of the interpreter for the dynamic failures the language defines
    ("assert", ["An explicit assertion failed"]),
    ("nil", ["unwrap of `nil`", "nil object, looking up", "<Nil ", " Nil>"]),
    ("index", ["out of bounds", "key error: map does not have key"]),
    ("zero_div", ["/ by 0", "% by 0"]),
    ("overflow", ["operation overflow/underflow", "cannot be made into", "could not fit in", "is an invalid radix",
                  "is an invalid power", "could not be used to index", "out of range integral type conversion attempted",
                  "new size is too large"]),
    ("ffi", ["FFI:", "Could not open FFI Library", "Could not find symbol"]),
]

# wording-tolerant fall-back (see classify_failure)
INTERNAL_CUES = ["is invalid", "not in scope", "load before store", "not a function", "does not exist", "can only",
                 "non-boolean", "heapprimitive", "non-vector", "mismatched types", "cannot index with", "not found",
                 "unreachable", "already", "cannot negate", "cannot compare", "not callable", "has not been mapped",
                 "is not a callback", "requires", "expected", "impossible", "stack mismatch"]
DEFINED_BROAD = [("assert", re.compile(r"\bassert")), ("nil", re.compile(r"\bnil\b")),
                 ("index", re.compile(r"out of bounds|out of range|key error|does not have key|no such key|missing key")),
                 ("zero_div", re.compile(r"by 0\b|by zero|division by|divide by")),
                 ("overflow", re.compile(r"overflow|underflow|cannot be made into|could not fit|too large|invalid radix|invalid power|conversion")),
                 ("ffi", re.compile(r"\bffi\b|foreign function|could not open|could not find symbol"))]

PANIC_DEFINED = [
    ("overflow", ["attempt to add with overflow", "attempt to subtract with overflow",
                  "attempt to multiply with overflow", "attempt to negate with overflow",
                  "attempt to divide with overflow", "attempt to shift left with overflow",
                  "attempt to shift right with overflow",
                  "attempt to calculate the remainder with overflow"]),
    ("zero_div", ["attempt to divide by zero", "attempt to calculate the remainder with a divisor of zero"]),
    ("index", ["index out of bounds", "removal index", "insertion index", "out of range for slice",
               "is not a char boundary", "byte index", "range end index", "range start index", "slice index starts"]),
]


def classify_failure(res):
    """Class of a failing run: ('defined', kind) | ('panic_defined', kind) | ('stack', '') |
    ('internal', msg) | ('compile', '') | ('timeout', '')."""
    text = res.err + ("\n" + res.out if BANNER not in res.err else "")
    if res.cls in ("cpu_timeout", "wall_timeout"):
        return ("timeout", res.cls)
    if "has overflowed its stack" in text:
        return ("stack", "")
    if res.cls == "signal":
        return ("internal", "signal %s" % res.rc)
    if res.cls == "panic":
        for kind, pats in PANIC_DEFINED:
            if any(p in text for p in pats):
                return ("panic_defined", kind)
        return ("internal", first_line_with(text, "panicked at"))
    if BANNER in text:
        body = text.split(BANNER, 1)[1]
        for kind, pats in DEFINED:
            if any(p in body for p in pats):
                return ("defined", kind)
        # Not one of the pinned tree's own messages.  A re-worded message of a defined failure must not become an
        # alarm: when the cause carries none of the cues of an internal error and names what failed in the words of
        # the statement (assertion, nil, bounds / key, division by zero, overflow / conversion), it is that failure.
        cause = body.split("Caused by:", 1)[1] if "Caused by:" in body else "\n".join(
            l for l in body.splitlines() if not l.strip().startswith((">>", "^")))
        low = re.sub(r"`(?!nil`)[^`\n]*`", "`_`", cause).lower()
        if not any(c in low for c in INTERNAL_CUES):
            for kind, rx in DEFINED_BROAD:
                if rx.search(low):
                    return ("defined", kind)
        return ("internal", cause_of(body))
    if MISMATCH in text:
        return ("internal", "STACK MISMATCH")
    if has_compile_diagnostics(text):
        return ("compile", "")
    return ("internal", text.strip()[-300:])


_DIAG_POS = re.compile(r"[^\s:]+\.ms:\d+:\d+")


def has_compile_diagnostics(text):
    """The compiler reported an error: its summary line (pinned wording) or, independent of that wording, a
    diagnostic header naming `<file>.ms:<line>:<col>`."""
    return "Did not compile successfully" in text or bool(_DIAG_POS.search(text))


def compile_rejected(r):
    """The CLI refused the program at compile time: exit status 1 (no panic, no signal) and no run-time error report."""
    text = (r.out or "") + (r.err or "")
    # exit status 1 without a run-time error report: `run` / `compile` of a source file stopped before executing
    # anything.  (Errors found while generating code are printed without a position; how the summary line is
    # worded is incidental.  A run-time failure without a report is C17's subject, not a rejection.)
    return r.cls == "fail" and BANNER not in text and MISMATCH not in text and "panicked at" not in text


def first_line_with(text, needle):
    lines = text.splitlines()
    for i, line in enumerate(lines):
        if needle in line:
            return (line + " " + (lines[i + 1] if i + 1 < len(lines) else "")).strip()[:300]
    return text.strip()[:300]


def cause_of(body):
    """Innermost 'Caused by' line of an anyhow chain (the root cause text)."""
    lines = [l.strip() for l in body.splitlines() if l.strip()]
    causes = []
    for i, l in enumerate(lines):
        if l[:1].isdigit() and ":" in l[:4]:
            causes.append(l.split(":", 1)[1].strip())
    return (causes[-1] if causes else (lines[-1] if lines else ""))[:300]


# ----------------------------------------------------------------------------- parallel map

def _worker(args):
    fn, item = args
    try:
        return ("ok", fn(item))
    except Inconclusive as ex:
        return ("inconclusive", str(ex))
    except Exception:
        return ("error", traceback.format_exc())


def pmap(fn, items, procs=None, chunksize=1):
    """Map a top-level function over items in worker processes.  Harness exceptions in a worker are
    returned as ('error', traceback) and are counted as inconclusive by the caller — never violations."""
    items = list(items)
    procs = procs or NPROC
    if procs <= 1 or len(items) <= 1:
        return [_worker((fn, it)) for it in items]
    ctx = mp.get_context("fork")
    with ctx.Pool(procs) as pool:
        return pool.map(_worker, [(fn, it) for it in items], chunksize)


# ----------------------------------------------------------------------------- verdicts

class Violation:
    def __init__(self, signature, what, witness):
        self.signature, self.what, self.witness = signature, what, witness

    def to_json(self):
        return {"signature": self.signature, "what": self.what, "witness": self.witness}


class Outcome:
    """What an engine returns to the driver."""

    def __init__(self):
        self.evaluations = 0
        self.distinct = set()          # hashes of distinct non-trivial cases
        self.samples = []
        self.violations = []           # Violation
        self.inconclusive = []         # strings
        self.coverage = {}             # extra monitor observations
        self.rule = ""
        self.assumptions = []
        self.exhaustive = None
        self.level = "exploration"
        self.observed_nothing = None   # string reason => run is inconclusive, exit 2

    def add_sample(self, s, cap=6):
        if len(self.samples) < cap:
            self.samples.append(s)

    def merge_counts(self, d, key, n=1):
        d[key] = d.get(key, 0) + n


def h(obj):
    if not isinstance(obj, (bytes, str)):
        obj = json.dumps(obj, sort_keys=True, default=str)
    if isinstance(obj, str):
        obj = obj.encode("utf-8", "replace")
    return hashlib.sha1(obj).hexdigest()[:16]


def load_findings():
    path = os.path.join(VERIF, "known_findings.json")
    if not os.path.exists(path):
        return {"findings": [], "fixed": []}
    with open(path) as f:
        return json.load(f)


def write_witness(prop, v):
    d = os.path.join(OUT, "replay", prop, h([v.signature, v.witness]))
    os.makedirs(d, exist_ok=True)
    w = dict(v.witness) if isinstance(v.witness, dict) else {"witness": v.witness}
    files = w.pop("files", None)
    if files:
        for name, text in files.items():
            path = os.path.join(d, "files", name)
            os.makedirs(os.path.dirname(path), exist_ok=True)
            with open(path, "wb" if isinstance(text, bytes) else "w") as f:
                f.write(text)
    with open(os.path.join(d, "case.json"), "w") as f:
        json.dump({"property": prop, "signature": v.signature, "what": v.what, "witness": w,
                   "has_files": bool(files)}, f, indent=1, default=str, ensure_ascii=False)
    return d


def finish(prop, tier, seed, outcome, t0):
    """Apply the known-findings file, write evidence, print verdict lines, return the exit code."""
    kf = load_findings()
    known = {f["signature"]: f for f in kf.get("findings", []) if f.get("property") == prop}
    seen_known, new = {}, []
    for v in outcome.violations:
        if v.signature in known:
            seen_known.setdefault(v.signature, v)
        else:
            new.append(v)
    stale = sorted(set(known) - set(seen_known))
    # one VIOLATION line per distinct signature (the first witness of each)
    by_sig = {}
    for v in new:
        by_sig.setdefault(v.signature, v)
    lines = []
    for sig, v in sorted(seen_known.items()):
        lines.append("KNOWN-FINDING: property=%s %s — %s" % (prop, sig, known[sig].get("what", v.what)))
    for sig, v in sorted(by_sig.items()):
        d = write_witness(prop, v)
        lines.append("VIOLATION property=%s replay=%s  [%s] %s" % (prop, d, sig, v.what))
    cov = dict(outcome.coverage)
    cov["evaluations"] = int(outcome.evaluations)
    cov["distinct_nontrivial"] = len(outcome.distinct)
    cov["rule"] = outcome.rule
    cov["samples"] = outcome.samples or ["<none>"]
    if outcome.exhaustive is not None:
        cov["exhaustive"] = bool(outcome.exhaustive)
    cov["inconclusive_cases"] = len(outcome.inconclusive)
    cov["inconclusive_examples"] = outcome.inconclusive[:5]
    cov["known_findings_observed"] = sorted(seen_known)
    cov["known_findings_not_observed_this_run"] = stale
    cov["new_violation_signatures"] = sorted(by_sig)
    ev = {"property_id": prop, "tier": tier, "seed": int(seed), "level": outcome.level, "coverage": cov,
          "assumptions": outcome.assumptions, "wall_s": round(time.time() - t0, 2),
          "violations": len(by_sig)}
    os.makedirs(os.path.join(OUT, "evidence"), exist_ok=True)
    with open(os.path.join(OUT, "evidence", prop + ".json"), "w") as f:
        json.dump(ev, f, indent=1, ensure_ascii=False, default=str)
        f.write("\n")
    for l in lines:
        print(l)
    verdict = "violated" if by_sig else "held"
    if outcome.observed_nothing and not by_sig:
        print("INCONCLUSIVE property=%s: %s" % (prop, outcome.observed_nothing))
        return 2
    print("%s %s tier=%s seed=%s: %s on %d executions (%d distinct non-trivial cases, %d inconclusive, "
          "%d known findings) in %.1fs" % (prop, "check", tier, seed, verdict, outcome.evaluations,
                                           len(outcome.distinct), len(outcome.inconclusive), len(seen_known),
                                           time.time() - t0))
    return 1 if by_sig else 0


class Ctx:
    def __init__(self, prop, tier, seed):
        self.prop, self.tier, self.seed = prop, tier, seed
        self.quick = tier == "quick"
        self.known = {f["signature"] for f in load_findings().get("findings", []) if f.get("property") == prop}

    def rng(self, *salt):
        return random.Random(h([self.prop, self.seed] + list(salt)))

    def n(self, quick, thorough):
        return quick if self.quick else thorough


def clean_cases():
    rm(CASE_ROOT)
