"""Type-directed program generator shared by C02 (soundness) and C03 (rejection of ill-typed edits).

A program is a list of lines; a line is a list of parts, a part being text or a Site (a typed position whose
expression can be replaced).  The generator over-approximates the language's typing: programs the compiler
rejects are outside the quantifier of C02 and are dropped as bases of C03."""
import random

INT, BIG, FLT, BYT, BOOL, STR = ('int',), ('bigint',), ('float',), ('byte',), ('bool',), ('str',)
SCALARS = [INT, BIG, FLT, BYT, BOOL, STR]


def LIST(t):
    return ('list', t)


def OPT(t):
    return ('opt', t)


def MAP(k, v):
    return ('map', k, v)


def FN(args, ret):
    return ('fn', tuple(args), ret)


def CLS(n):
    return ('class', n)


def tname(t):
    k = t[0]
    if k in ('int', 'bigint', 'float', 'byte', 'bool', 'str'):
        return k
    if k == 'list':
        return "[%s...]" % tname(t[1])
    if k == 'opt':
        return tname(t[1]) + "?"
    if k == 'map':
        return "map[%s, %s]" % (tname(t[1]), tname(t[2]))
    if k == 'fn':
        inner = ", ".join(tname(a) for a in t[1])
        return "fn(%s)%s" % (inner, (" -> " + tname(t[2])) if t[2] else "")
    if k == 'class':
        return t[1]
    raise ValueError(t)


class Site:
    """A typed position.  kind: init reassign arg argcount return cond operand index mapkey mapval name field
    method callee indexee opassign"""
    __slots__ = ("kind", "typ", "text", "ctx", "extra", "line", "start", "end")

    def __init__(self, kind, typ, text, ctx="", extra=None):
        self.kind, self.typ, self.text, self.ctx, self.extra = kind, typ, text, ctx, extra
        self.line = self.start = self.end = None


class Prog:
    def __init__(self):
        self.lines = []      # (indent, [parts])
        self.files = {}      # extra modules

    def add(self, indent, *parts):
        self.lines.append((indent, list(parts)))

    def render(self):
        """Returns (text, sites) and sets line/start/end of every site."""
        out, sites = [], []
        for li, (ind, parts) in enumerate(self.lines):
            s = "  " * ind
            for p in parts:
                if isinstance(p, Site):
                    p.line, p.start = li, len(s)
                    s += p.text
                    p.end = len(s)
                    sites.append(p)
                else:
                    s += p
            out.append(s)
        return "\n".join(out) + "\n", sites


def splice(text, site, replacement):
    lines = text.split("\n")
    l = lines[site.line]
    lines[site.line] = l[:site.start] + replacement + l[site.end:]
    return "\n".join(lines)


WRONG = {
    'int': ['"w"', 'true', '[1, 2]'], 'bigint': ['"w"', 'true'], 'float': ['"w"', 'true'], 'byte': ['"w"', 'true'],
    'bool': ['1', '"w"'], 'str': ['1', 'true', '[1, 2]'], 'list': ['1', '"w"', 'true'], 'map': ['1', '"w"'],
    'fn': ['1', '"w"'], 'class': ['1', '"w"', 'true'],
}


def wrong_for(t):
    if t[0] == 'opt':
        return wrong_for(t[1])
    w = list(WRONG[t[0]])
    if t[0] == 'list' and t[1][0] in ('int', 'bigint', 'float', 'byte', 'bool'):
        w.append('["w"]')
        # a literal with right- and wrong-typed elements, in both orders
        w.append('[%s, "w"]' % {'int': '1', 'bigint': 'B1', 'float': '1.5', 'byte': '0b1', 'bool': 'true'}[t[1][0]])
        w.append('["w", %s]' % {'int': '1', 'bigint': 'B1', 'float': '1.5', 'byte': '0b1', 'bool': 'true'}[t[1][0]])
    if t[0] == 'list' and t[1][0] == 'str':
        w.append('[1]')
        w.append('["a", 1]')
        w.append('[1, "a"]')
    return w


class TG:
    def __init__(self, rng, want_sites=True):
        self.r = rng
        self.p = Prog()
        self.n = 0
        self.scopes = [{}]          # name -> type  (readable)
        self.local_start = [0]      # index into scopes: where the current function's own scopes begin
        self.classes = {}           # name -> dict(fields={name: type}, methods={name: (args, ret)}, ctor=[types])
        self.funcs = {}             # name -> fn type (module-level helpers, readable everywhere)
        self.features = set()
        self.ctx = ["module"]
        self.in_loop = 0
        self.alias_vars = set()      # avoidance rule `negate_alias_typed` (compiler panics: C16 finding)
        self.protected = set()       # loop counters / fuel variables are never written by generated statements

    # ------------------------------------------------------------------ helpers
    def fresh(self, p):
        self.n += 1
        return "%s%d" % (p, self.n)

    def vars_of(self, t, writable=False):
        out = []
        scs = self.scopes[self.local_start[-1]:] if writable else self.scopes
        for sc in scs:
            for n, ty in sc.items():
                if ty == t and not (writable and n in self.protected):
                    out.append(n)
        return out

    def declare(self, name, t):
        self.scopes[-1][name] = t

    def lit(self, t):
        r = self.r
        k = t[0]
        if k == 'int':
            return str(r.choice([0, 1, 2, 3, 5, 7, 10, 42, 100]))
        if k == 'bigint':
            return "B" + str(r.choice([0, 1, 2, 9, 100, 4294967296, 99999999999]))
        if k == 'float':
            return r.choice(["0.5", "1.5", "2.25", "10.0", "3.75"])
        if k == 'byte':
            return r.choice(["0b1", "0b101", "0b0", "0b1111"])
        if k == 'bool':
            return r.choice(["true", "false"])
        if k == 'str':
            return '"%s"' % r.choice(["a", "bc", "hello", "x y", "12", ""])
        if k == 'opt':
            return r.choice(["nil", self.lit(t[1])]) if t[1][0] in ('int', 'str', 'float', 'bool', 'bigint', 'byte') else "nil"
        raise ValueError(t)

    # ------------------------------------------------------------------ expressions
    def E(self, t, d=0):
        """Source text of an expression whose intended static type is t."""
        r = self.r
        k = t[0]
        vs = self.vars_of(t)
        if d >= 3 or (vs and r.random() < 0.35):
            if vs:
                return r.choice(vs)
            if k in ('int', 'bigint', 'float', 'byte', 'bool', 'str', 'opt'):
                return self.lit(t)
        c = r.random()
        if k in ('bool', 'str', 'list', 'opt') and r.random() < 0.12:
            # a field of that type read through an object (a pointer inside the interpreter)
            os_ = [(n, ty) for sc in self.scopes for n, ty in sc.items() if ty[0] == 'class']
            if os_:
                n, ty = r.choice(os_)
                fs_ = [f for f, ft in self.classes[ty[1]]["fields"].items() if ft == t]
                if fs_:
                    self.features.add("field_read_" + k)
                    return "%s.%s" % (n, r.choice(fs_))
        if k == 'int':
            if c < 0.25:
                return self.lit(t)
            if c < 0.55:
                op = r.choice(['+', '-', '*'])
                return "(%s %s %s)" % (self.E(INT, d + 1), op, self.E(INT, d + 1))
            if c < 0.62:
                return "(%s %s %s)" % (self.E(INT, d + 1), r.choice(['/', '%']), r.choice(["2", "3", "7"]))
            if c < 0.68:
                self.features.add("str.len")
                return "%s.len()" % self.atom(STR, d)
            if c < 0.73:
                lv = self.vars_of(LIST(INT)) + self.vars_of(LIST(STR))
                if lv:
                    self.features.add("list.len")
                    return "%s.len()" % r.choice(lv)
            if c < 0.80:
                fs = [n for n, ft in self.funcs.items() if ft[2] == INT]
                if fs:
                    return self.call(r.choice(fs), d)
            if c < 0.85:
                os_ = [(n, ty) for sc in self.scopes for n, ty in sc.items() if ty[0] == 'class']
                if os_:
                    n, ty = r.choice(os_)
                    fi = [f for f, ft in self.classes[ty[1]]["fields"].items() if ft == INT]
                    if fi:
                        self.features.add("field_read")
                        return "%s.%s" % (n, r.choice(fi))
            if c < 0.90:
                ov = self.vars_of(OPT(INT))
                if ov:
                    self.features.add("or")
                    return "((%s) or %s)" % (r.choice(ov), self.lit(INT))
            if c < 0.94:
                self.features.add("to_int")
                return "%s.to_int()" % self.atom(r.choice([FLT, BYT]), d)
            if c < 0.97:
                a = self.atom(INT, d)
                if a not in self.alias_vars:
                    return "-%s" % a
            return self.lit(t)
        if k == 'bigint':
            if c < 0.4:
                return self.lit(t)
            if c < 0.7:
                return "(%s %s %s)" % (self.E(BIG, d + 1), r.choice(['+', '-', '*']), self.E(r.choice([BIG, INT, BYT]), d + 1))
            if c < 0.8:
                self.features.add("to_bigint")
                return "%s.to_bigint()" % self.atom(INT, d)
            if c < 0.9:
                self.features.add("pow")
                return "%s.pow(%s)" % (self.atom(INT, d), r.choice(["0", "1", "2", "3"]))
            return "(%s + %s)" % (self.E(INT, d + 1), self.E(BIG, d + 1))
        if k == 'float':
            if c < 0.35:
                return self.lit(t)
            if c < 0.7:
                other = r.choice([FLT, INT, BYT, BIG])
                a, b = self.E(FLT, d + 1), self.E(other, d + 1)
                if r.random() < 0.5:
                    a, b = b, a
                return "(%s %s %s)" % (a, r.choice(['+', '-', '*']), b)
            if c < 0.8:
                self.features.add("to_float")
                return "%s.to_float()" % self.atom(r.choice([INT, BYT]), d)
            if c < 0.9:
                self.features.add("sqrt/abs")
                return "%s.%s()" % (self.atom(FLT, d), r.choice(["abs", "floor", "ceil", "round"]))
            return "(%s / %s)" % (self.E(FLT, d + 1), r.choice(["2", "0.5", "4.0"]))
        if k == 'byte':
            if c < 0.5:
                return self.lit(t)
            if c < 0.8:
                self.features.add("byte_bitop")
                return "(%s %s %s)" % (self.E(BYT, d + 1), r.choice(['&', '|', 'xor']), self.E(BYT, d + 1))
            self.features.add("to_byte")
            return "%s.to_byte()" % r.choice(["7", "200", "0"])
        if k == 'bool':
            if c < 0.15:
                return self.lit(t)
            if c < 0.5:
                a = r.choice([INT, INT, FLT, BIG, BYT])
                b = r.choice([a, a, INT, FLT])
                return "(%s %s %s)" % (self.E(a, d + 1), r.choice(['<', '<=', '>', '>=', '==', '!=']), self.E(b, d + 1))
            if c < 0.6:
                return "(%s %s %s)" % (self.E(STR, d + 1), r.choice(['==', '!=']), self.E(STR, d + 1))
            if c < 0.7:
                return "(%s %s %s)" % (self.E(BOOL, d + 1), r.choice(['&&', '||']), self.E(BOOL, d + 1))
            if c < 0.76:
                return "!%s" % self.atom(BOOL, d)
            if c < 0.82:
                self.features.add("contains")
                return "%s.contains(%s)" % (self.atom(STR, d), self.lit(STR))
            if c < 0.90:
                ov = [n for sc in self.scopes for n, ty in sc.items() if ty[0] == 'opt']
                if ov:
                    self.features.add("nil_test")
                    return "(%s %s nil)" % (r.choice(ov), r.choice(['==', '!=']))
            if c < 0.95:
                mv = [(n, ty) for sc in self.scopes for n, ty in sc.items() if ty[0] == 'map']
                if mv:
                    n, ty = r.choice(mv)
                    self.features.add("contains_key")
                    return "%s.contains_key(%s)" % (n, self.lit(ty[1]))
            return self.lit(t)
        if k == 'str':
            if c < 0.3:
                return self.lit(t)
            if c < 0.55:
                other = r.choice([STR, STR, INT, FLT, BOOL, BYT, BIG])
                return "(%s + %s)" % (self.E(STR, d + 1), self.E(other, d + 1))
            if c < 0.62:
                self.features.add("str_mul")
                return "(%s * %s)" % (self.atom(STR, d), r.choice(["0", "1", "2", "3"]))
            if c < 0.72:
                self.features.add("to_str")
                return "%s.to_str()" % self.atom(r.choice([INT, FLT, BIG, BYT]), d)
            if c < 0.80:
                self.features.add("str_methods")
                return "%s.%s" % (self.atom(STR, d), r.choice(["reverse()", 'replace("a", "b")', 'insert("z", 0)']))
            if c < 0.88:
                fs = [n for n, ft in self.funcs.items() if ft[2] == STR]
                if fs:
                    return self.call(r.choice(fs), d)
            return self.lit(t)
        if k == 'list':
            if c < 0.25 and vs:
                self.features.add("list.clone")
                return "%s.clone()" % r.choice(vs)
            if t[1] == STR and c < 0.5:
                self.features.add("chars")
                return "%s.chars()" % self.atom(STR, d)
            if t[1] == INT and c < 0.6 and vs:
                cb = [n for n, ft in self.funcs.items() if ft == FN([INT], INT)]
                if cb:
                    self.features.add("list.map")
                    return "%s.map(%s)" % (r.choice(vs), r.choice(cb))
            if t[1] == INT and c < 0.8 and vs:
                cb = [n for n, ft in self.funcs.items() if ft == FN([INT], BOOL)]
                if cb:
                    self.features.add("list.filter")
                    return "%s.filter(%s)" % (r.choice(vs), r.choice(cb))
            if vs:
                return r.choice(vs)
            return "[%s]" % self.E(t[1], 3)
        if k == 'opt':
            inner = t[1]
            if c < 0.2:
                return "nil"
            if c < 0.45:
                return self.E(inner, d + 1)
            if inner == INT and c < 0.65:
                self.features.add("parse_int")
                return '%s.parse_int()' % r.choice(['"12"', '"x"', '"-5"', self.atom(STR, d)])
            if inner == INT and c < 0.8:
                lv = self.vars_of(LIST(INT))
                if lv:
                    self.features.add("index_of")
                    return "%s.index_of(%s)" % (r.choice(lv), self.E(INT, d + 1))
            if c < 0.95:
                mv = [(n, ty) for sc in self.scopes for n, ty in sc.items() if ty[0] == 'map' and ty[2] == inner]
                if mv:
                    n, ty = r.choice(mv)
                    self.features.add("map_lookup")
                    return "%s[%s]" % (n, self.lit(ty[1]))
            if vs:
                return r.choice(vs)
            return "nil" if inner[0] not in ('int', 'str', 'float', 'bool') else self.lit(inner)
        if k == 'class':
            cl = self.classes[t[1]]
            if vs and c < 0.5:
                return r.choice(vs)
            self.features.add("construct")
            return "%s(%s)" % (t[1], ", ".join(self.E(a, d + 1) for a in cl["ctor"]))
        if k == 'fn':
            fs = [n for n, ft in self.funcs.items() if ft == t]
            if fs:
                return r.choice(fs)
            if vs:
                return r.choice(vs)
            raise KeyError("no function of type " + tname(t))
        if k == 'map':
            if vs:
                if c < 0.3:
                    self.features.add("map.clone")
                    return "%s.clone()" % r.choice(vs)
                return r.choice(vs)
            return "map[%s, %s] { %s: %s }" % (tname(t[1]), tname(t[2]), self.E(t[1], 3), self.E(t[2], 3))
        raise ValueError(t)

    def atom(self, t, d):
        """An expression that can take one postfix (method call): a variable or a literal in parentheses."""
        vs = self.vars_of(t)
        if vs:
            return self.r.choice(vs)
        return "(%s)" % self.lit(t)

    def call(self, fname, d, sites=None):
        ft = self.funcs[fname]
        args = []
        for a in ft[1]:
            args.append(self.E(a, d + 1))
        return "%s(%s)" % (fname, ", ".join(args))

    # ------------------------------------------------------------------ preamble
    def preamble(self):
        p, r = self.p, self.r
        p.add(0, 'print "@@RUN@@"')
        p.add(0, "zint = 7")
        p.add(0, "zopt_i: int? = 5")
        p.add(0, "zopt_s: str? = \"o\"")
        p.add(0, "zopt_b: bool? = true")
        # classes
        for ci in range(r.choice([1, 2])):
            cn = self.fresh("K")
            fi, fs, fl, fo = self.fresh("fi"), self.fresh("fs"), self.fresh("fl"), self.fresh("fo")
            fb = self.fresh("fb")
            a1, a2 = self.fresh("a"), self.fresh("a")
            mget, madd, mname, mself = self.fresh("mg"), self.fresh("ma"), self.fresh("mn"), self.fresh("ms")
            x1 = self.fresh("x")
            p.add(0, "class %s {" % cn)
            p.add(1, "%s: int" % fi)
            p.add(1, "%s: str" % fs)
            p.add(1, "%s: [int...]" % fl)
            p.add(1, "%s: int?" % fo)
            p.add(1, "%s: bool" % fb)
            p.add(1, "constructor(self, %s: int, %s: str) {" % (a1, a2))
            p.add(2, "self.%s = %s > 2" % (fb, a1))
            p.add(2, "self.%s = %s" % (fi, a1))
            p.add(2, "self.%s = %s" % (fs, a2))
            p.add(2, "self.%s = [%s, 2]" % (fl, a1))
            p.add(2, "self.%s = nil" % fo)
            p.add(1, "}")
            p.add(1, "fn %s(self) -> int {" % mget)
            p.add(2, "return self.%s" % fi)
            p.add(1, "}")
            p.add(1, "fn %s(self, %s: int) -> int {" % (madd, x1))
            p.add(2, "self.%s += %s" % (fi, x1))
            p.add(2, "return self.%s() + 1" % mget)
            p.add(1, "}")
            p.add(1, "fn %s(self) -> str {" % mname)
            p.add(2, "return self.%s + \"!\"" % fs)
            p.add(1, "}")
            p.add(1, "fn %s(self) -> Self {" % mself)
            p.add(2, "return self")
            p.add(1, "}")
            p.add(0, "}")
            self.classes[cn] = {"fields": {fi: INT, fs: STR, fl: LIST(INT), fo: OPT(INT), fb: BOOL},
                                "methods": {mget: ((), INT), madd: ((INT,), INT), mname: ((), STR), mself: ((), CLS(cn))},
                                "ctor": [INT, STR]}
        # helper functions
        defs = [
            ("hi", [INT], INT, "return {0} + 1"),
            ("hs", [STR, INT], STR, "return {0} + {1}"),
            ("hb", [INT], BOOL, "return {0} > 1"),
            ("hl", [LIST(INT)], INT, "return {0}.len()"),
            ("ho", [INT], OPT(INT), None),
            ("hf", [FLT], FLT, "return {0} * 2"),
            ("hg", [BIG, BYT], BIG, "return {0} + {1}"),
        ]
        for base, args, ret, body in defs:
            fn = self.fresh(base)
            ps = [self.fresh("q") for _ in args]
            p.add(0, "%s = fn(%s) -> %s {" % (fn, ", ".join("%s: %s" % (n, tname(t)) for n, t in zip(ps, args)), tname(ret)))
            if body is None:
                p.add(1, "if %s > 2 {" % ps[0])
                p.add(2, "return %s" % ps[0])
                p.add(1, "}")
                p.add(1, "return nil")
            else:
                p.add(1, body.format(*ps))
            p.add(0, "}")
            self.funcs[fn] = FN(args, ret)
        for cn in self.classes:
            fn = self.fresh("hk")
            q = self.fresh("q")
            mg = [m for m, (a, rt) in self.classes[cn]["methods"].items() if rt == INT and not a][0]
            p.add(0, "%s = fn(%s: %s) -> int {" % (fn, q, cn))
            p.add(1, "return %s.%s()" % (q, mg))
            p.add(0, "}")
            self.funcs[fn] = FN([CLS(cn)], INT)
        # alias
        self.alias = {}
        if r.random() < 0.7:
            an = self.fresh("Al")
            target = r.choice([INT, STR, STR, BOOL])
            p.add(0, "type %s %s" % (an, tname(target)))
            self.alias[an] = target

    def pool(self, indent, types=None):
        """Declare typed variables with annotated initializers (sites of kind init)."""
        r = self.r
        types = types or (SCALARS + [LIST(INT), LIST(STR), OPT(INT), OPT(STR), MAP(STR, INT), MAP(INT, STR)] +
                          [CLS(c) for c in self.classes])
        for t in types:
            for _ in range(r.choice([1, 1, 2])):
                self.decl(indent, t)

    def decl(self, indent, t, annotated=True):
        r = self.r
        v = self.fresh({'int': 'vi', 'bigint': 'vg', 'float': 'vf', 'byte': 'vy', 'bool': 'vb', 'str': 'vs', 'list': 'vl',
                        'opt': 'vo', 'map': 'vm', 'class': 'vk', 'fn': 'vn'}[t[0]])
        if t[0] == 'list':
            init = "[%s]" % ", ".join(self.E(t[1], 2) for _ in range(r.randint(1, 3)))
        elif t[0] == 'map':
            init = "map[%s, %s] { %s }" % (tname(t[1]), tname(t[2]), ", ".join(
                "%s: %s" % (self.lit(t[1]), self.lit(t[2])) for _ in range(r.randint(1, 2))))
        else:
            init = self.E(t, 1)
        ann = tname(t)
        if self.alias and r.random() < 0.15:
            for an, target in self.alias.items():
                if target == t:
                    ann = an
                    self.alias_vars.add(v)
                    self.features.add("alias_annotation")
        if annotated or t[0] in ('list', 'opt'):
            self.p.add(indent, "%s: %s = " % (v, ann), Site("init", t, init, self.ctx[-1]))
        else:
            self.p.add(indent, "%s = " % v, Site("init_untyped", t, init, self.ctx[-1]))
        self.declare(v, t)
        return v

    # ------------------------------------------------------------------ statements
    def pair(self, indent, t=None):
        r = self.r
        t = t or r.choice(SCALARS + [LIST(INT), LIST(STR), OPT(INT), OPT(STR)] + [MAP(STR, INT)])
        try:
            e = self.E(t, 0)
        except KeyError:
            return
        self.p.add(indent, "print \"@T \" + typeof (%s)" % e)
        self.p.add(indent, "print %s" % e)

    def stmt(self, indent, fn_ret=None):
        r = self.r
        c = r.random()
        ctx = self.ctx[-1]
        if c < 0.30:
            return self.pair(indent)
        if c < 0.40:
            t = r.choice(SCALARS + [LIST(INT), OPT(INT), OPT(STR)] + [CLS(k) for k in self.classes])
            return self.decl(indent, t, annotated=r.random() < 0.7)
        if c < 0.52:
            # re-assignment of a variable of the current function
            cands = [(n, ty) for sc in self.scopes[self.local_start[-1]:] for n, ty in sc.items()
                     if ty[0] in ('int', 'bigint', 'float', 'byte', 'bool', 'str', 'opt', 'list', 'class')
                     and n not in self.protected]
            if cands:
                n, ty = r.choice(cands)
                self.p.add(indent, "%s = " % n, Site("reassign", ty, self.E(ty, 0), ctx))
                self.p.add(indent, "print \"@T \" + typeof (%s)" % n)
                self.p.add(indent, "print %s" % n)
                return
        if c < 0.62:
            fnn = r.choice(list(self.funcs))
            ft = self.funcs[fnn]
            parts = [Site("callee", ft, fnn, ctx), "("]
            for i, a in enumerate(ft[1]):
                if i:
                    parts.append(", ")
                parts.append(Site("arg", a, self.E(a, 1), ctx))
            parts.append(Site("argcount", None, "", ctx, extra=len(ft[1])))
            parts.append(")")
            rv = self.fresh("rv")
            self.p.add(indent, "%s = " % rv, *parts)
            self.declare(rv, ft[2])
            self.p.add(indent, "print \"@T \" + typeof (%s)" % rv)
            self.p.add(indent, "print %s" % rv)
            return
        if c < 0.70:
            # operator statement with operand sites
            op = r.choice(['-', '*', '/', '%', '+', '<', '&'])
            t = r.choice([INT, INT, FLT, BIG]) if op != '&' else INT
            right = self.E(t, 1) if op not in '/%' else r.choice(["2", "3"])
            rv = self.fresh("rv")
            self.p.add(indent, "%s = " % rv, Site("operand", t, self.E(t, 1), ctx, extra=op), " %s " % op,
                       Site("operand", t, right, ctx, extra=op))
            self.declare(rv, BOOL if op == '<' else t)
            self.p.add(indent, "print \"@T \" + typeof (%s)" % rv)
            self.p.add(indent, "print %s" % rv)
            return
        if c < 0.76:
            kind = r.choice(["if", "assert", "while"])
            cond = Site("cond", BOOL, self.E(BOOL, 0), ctx, extra=kind)
            if kind == "assert":
                # keep executions alive: assert a tautology built around the generated condition
                self.p.add(indent, "assert ", Site("cond", BOOL, "(%s || true)" % cond.text, ctx, extra=kind))
                return
            if kind == "if":
                self.p.add(indent, "if ", cond, " {")
                self.scopes.append({})
                self.pair(indent + 1)
                self.scopes.pop()
                if r.random() < 0.5:
                    self.p.add(indent, "} else if ", Site("cond", BOOL, self.E(BOOL, 0), ctx, extra="elseif"), " {")
                    self.scopes.append({})
                    self.pair(indent + 1)
                    self.scopes.pop()
                if r.random() < 0.5:
                    self.p.add(indent, "} else {")
                    self.scopes.append({})
                    self.pair(indent + 1)
                    self.scopes.pop()
                self.p.add(indent, "}")
                return
            w = self.fresh("w")
            self.protected.add(w)
            self.p.add(indent, "%s = 0" % w)
            self.declare(w, INT)
            self.p.add(indent, "while ", Site("cond", BOOL, "%s < 2" % w, ctx, extra="while"), " {")
            self.scopes.append({})
            self.p.add(indent + 1, "%s += 1" % w)
            self.pair(indent + 1)
            self.scopes.pop()
            self.p.add(indent, "}")
            return
        if c < 0.82:
            lv = self.vars_of(LIST(INT), writable=True) or self.vars_of(LIST(INT))
            if lv:
                l = r.choice(lv)
                form = r.choice(["read", "write", "opassign", "push"])
                if form == "read":
                    rv = self.fresh("rv")
                    self.p.add(indent, "%s = " % rv, Site("indexee", LIST(INT), l, ctx), "[", Site("index", INT, "0", ctx), "]")
                    self.declare(rv, INT)
                    self.p.add(indent, "print \"@T \" + typeof (%s)" % rv)
                    self.p.add(indent, "print %s" % rv)
                elif form == "write":
                    self.p.add(indent, "%s[0] = " % l, Site("index_assign", INT, self.E(INT, 1), ctx))
                elif form == "opassign":
                    self.p.add(indent, "%s[0] += " % l, Site("opassign", INT, self.E(INT, 1), ctx))
                else:
                    self.p.add(indent, "%s.push(" % l, Site("arg", INT, self.E(INT, 1), ctx), ")")
                self.p.add(indent, "print %s" % l)
                return
        if c < 0.88:
            ks = [(n, ty) for sc in self.scopes for n, ty in sc.items() if ty[0] == 'class']
            if ks:
                n, ty = r.choice(ks)
                cl = self.classes[ty[1]]
                form = r.choice(["field", "method", "assign", "opassign"])
                if form == "field":
                    f = r.choice(list(cl["fields"]))
                    rv = self.fresh("rv")
                    self.p.add(indent, "%s = %s." % (rv, n), Site("field", cl["fields"][f], f, ctx))
                    self.declare(rv, cl["fields"][f])
                    self.p.add(indent, "print \"@T \" + typeof (%s)" % rv)
                    self.p.add(indent, "print %s" % rv)
                elif form == "method":
                    m = r.choice([m for m, (a, rt) in cl["methods"].items() if rt[0] != 'class'])
                    a, rt = cl["methods"][m]
                    rv = self.fresh("rv")
                    parts = ["%s = %s." % (rv, n), Site("method", rt, m, ctx), "("]
                    for i, at in enumerate(a):
                        if i:
                            parts.append(", ")
                        parts.append(Site("arg", at, self.E(at, 1), ctx))
                    parts.append(Site("argcount", None, "", ctx, extra=len(a)))
                    parts.append(")")
                    self.p.add(indent, *parts)
                    self.declare(rv, rt)
                    self.p.add(indent, "print \"@T \" + typeof (%s)" % rv)
                    self.p.add(indent, "print %s" % rv)
                elif form == "assign":
                    f = r.choice([f for f, ft in cl["fields"].items() if ft in (INT, STR)])
                    self.p.add(indent, "%s.%s = " % (n, f), Site("field_assign", cl["fields"][f], self.E(cl["fields"][f], 1), ctx))
                else:
                    f = [f for f, ft in cl["fields"].items() if ft == INT][0]
                    self.p.add(indent, "%s.%s += " % (n, f), Site("opassign", INT, self.E(INT, 1), ctx))
                return
        if c < 0.93:
            mv = [(n, ty) for sc in self.scopes for n, ty in sc.items() if ty[0] == 'map']
            if mv:
                n, ty = r.choice(mv)
                self.p.add(indent, n, "[", Site("mapkey", ty[1], self.lit(ty[1]), ctx), "] = ",
                           Site("mapval", ty[2], self.E(ty[2], 1), ctx))
                rv = self.fresh("rv")
                self.p.add(indent, "%s = %s[%s]" % (rv, n, self.lit(ty[1])))
                self.declare(rv, OPT(ty[2]))
                self.p.add(indent, "print \"@T \" + typeof (%s)" % rv)
                self.p.add(indent, "print %s" % rv)
                return
        if c < 0.97:
            iv = self.vars_of(INT, writable=True)
            if iv:
                self.p.add(indent, "%s %s " % (r.choice(iv), r.choice(['+=', '-=', '*='])), Site("opassign", INT, self.E(INT, 1), ctx))
                return
        return self.pair(indent)

    # ------------------------------------------------------------------ contexts
    def context_block(self, indent, kind):
        """Emit a group of statements inside the given syntactic context, and make it execute."""
        r, p = self.r, self.p
        n = r.randint(2, 5)
        if kind == "module":
            for _ in range(n):
                self.stmt(indent)
            return
        if kind in ("function", "closure"):
            fn = self.fresh("fx")
            a = self.fresh("pa")
            rt = r.choice([INT, STR, BOOL, FLT, OPT(INT)])
            p.add(indent, "%s = fn(%s: int) -> %s {" % (fn, a, tname(rt)))
            self.ctx.append(kind)
            self.scopes.append({a: INT})
            self.local_start.append(len(self.scopes) - 1)
            if kind == "closure":
                # reads captured module-level state through E(); also a captured write
                pass
            self.pool(indent + 1, [INT, STR, r.choice([FLT, BIG, BYT, BOOL]), LIST(INT)])
            for _ in range(n):
                self.stmt(indent + 1, rt)
            p.add(indent + 1, "return ", Site("return", rt, self.E(rt, 0), kind))
            self.local_start.pop()
            self.scopes.pop()
            self.ctx.pop()
            p.add(indent, "}")
            rv = self.fresh("rv")
            p.add(indent, "%s = %s(" % (rv, fn), Site("arg", INT, self.E(INT, 1), self.ctx[-1]), Site("argcount", None, "", self.ctx[-1], extra=1), ")")
            self.declare(rv, rt)
            p.add(indent, "print \"@T \" + typeof (%s)" % rv)
            p.add(indent, "print %s" % rv)
            return
        if kind == "factory":
            # an ESCAPING closure: the inner function is returned and called after its defining activation is
            # gone, so every variable it uses must have been captured (exercises the capture analysis of each
            # construct the statements are built from)
            mk = self.fresh("mk")
            a, b = self.fresh("pa"), self.fresh("pb")
            rt = r.choice([INT, STR, BOOL, FLT])
            p.add(indent, "%s = fn(%s: int) -> (fn(int) -> %s) {" % (mk, a, tname(rt)))
            self.ctx.append("factory")
            self.scopes.append({a: INT})
            self.local_start.append(len(self.scopes) - 1)
            self.pool(indent + 1, [INT, STR, r.choice([FLT, BIG, BYT, BOOL]), LIST(INT), OPT(INT), MAP(STR, INT)] +
                      [CLS(c) for c in list(self.classes)[:1]])
            p.add(indent + 1, "return fn(%s: int) -> %s {" % (b, tname(rt)))
            self.ctx.append("escaped_closure")
            self.scopes.append({b: INT})
            self.local_start.append(len(self.scopes) - 1)
            self.pool(indent + 2, [INT])
            for _ in range(n + 2):
                self.stmt(indent + 2, rt)
            p.add(indent + 2, "return ", Site("return", rt, self.E(rt, 0), "escaped_closure"))
            self.local_start.pop()
            self.scopes.pop()
            self.ctx.pop()
            p.add(indent + 1, "}")
            self.local_start.pop()
            self.scopes.pop()
            self.ctx.pop()
            p.add(indent, "}")
            c = self.fresh("cl")
            p.add(indent, "%s = %s(" % (c, mk), Site("arg", INT, self.E(INT, 1), self.ctx[-1]), ")")
            for _ in range(2):
                rv = self.fresh("rv")
                p.add(indent, "%s = %s(" % (rv, c), Site("arg", INT, self.E(INT, 1), self.ctx[-1]), ")")
                self.declare(rv, rt)
                p.add(indent, "print \"@T \" + typeof (%s)" % rv)
                p.add(indent, "print %s" % rv)
            return
        if kind in ("method", "constructor"):
            cn = self.fresh("C")
            f1 = self.fresh("cf")
            m = self.fresh("cm")
            a = self.fresh("pa")
            p.add(indent, "class %s {" % cn)
            p.add(indent + 1, "%s: int" % f1)
            p.add(indent + 1, "constructor(self, %s: int) {" % a)
            p.add(indent + 2, "self.%s = %s" % (f1, a))
            if kind == "constructor":
                self.ctx.append(kind)
                self.scopes.append({a: INT})
                self.local_start.append(len(self.scopes) - 1)
                self.pool(indent + 2, [INT, STR])
                for _ in range(n):
                    self.stmt(indent + 2)
                self.local_start.pop()
                self.scopes.pop()
                self.ctx.pop()
            p.add(indent + 1, "}")
            rt = r.choice([INT, STR, BOOL])
            p.add(indent + 1, "fn %s(self, %s: int) -> %s {" % (m, a, tname(rt)))
            self.ctx.append("method")
            self.scopes.append({a: INT})
            self.local_start.append(len(self.scopes) - 1)
            if kind == "method":
                self.pool(indent + 2, [INT, STR, LIST(INT)])
                for _ in range(n):
                    self.stmt(indent + 2, rt)
            p.add(indent + 2, "return ", Site("return", rt, self.E(rt, 0), "method"))
            self.local_start.pop()
            self.scopes.pop()
            self.ctx.pop()
            p.add(indent + 1, "}")
            p.add(indent, "}")
            o = self.fresh("ob")
            p.add(indent, "%s = %s(" % (o, cn), Site("arg", INT, self.E(INT, 1), self.ctx[-1]), Site("argcount", None, "", self.ctx[-1], extra=1), ")")
            rv = self.fresh("rv")
            p.add(indent, "%s = %s.%s(" % (rv, o, m), Site("arg", INT, self.E(INT, 1), self.ctx[-1]), ")")
            self.declare(rv, rt)
            p.add(indent, "print \"@T \" + typeof (%s)" % rv)
            p.add(indent, "print %s" % rv)
            return
        if kind == "loop":
            if r.random() < 0.5:
                i = self.fresh("i")
                self.protected.add(i)
                p.add(indent, "from ", Site("bound", INT, r.choice(["0", "1"]), "loop_header"), " to ",
                      Site("bound", INT, r.choice(["2", "3"]), "loop_header"), ", %s {" % i)
                self.scopes.append({i: INT})
            else:
                w = self.fresh("w")
                self.protected.add(w)
                p.add(indent, "%s = 0" % w)
                self.declare(w, INT)
                p.add(indent, "while ", Site("cond", BOOL, "%s < 2" % w, "loop_header", extra="while"), " {")
                self.scopes.append({})
                p.add(indent + 1, "%s += 1" % w)
            self.ctx.append("loop")
            for _ in range(n):
                self.stmt(indent + 1)
            self.ctx.pop()
            self.scopes.pop()
            p.add(indent, "}")
            return
        if kind == "branch":
            p.add(indent, "if 2 < 1 {")
            p.add(indent + 1, 'print "never"')
            p.add(indent, "} else if ", Site("cond", BOOL, "1 < 2", "branch", extra="elseif"), " {")
            self.ctx.append("branch")
            self.scopes.append({})
            for _ in range(n):
                self.stmt(indent + 1)
            self.scopes.pop()
            self.ctx.pop()
            p.add(indent, "}")
            return
        raise ValueError(kind)

    def program(self, contexts=None):
        self.preamble()
        self.pool(0)
        kinds = contexts or ["module", "function", "closure", "method", "constructor", "loop", "branch", "factory", "factory"]
        for _ in range(self.r.randint(3, 6)):
            self.context_block(0, self.r.choice(kinds))
        self.p.add(0, 'print "@@END@@"')
        return self.p


def gen(seed, contexts=None):
    g = TG(random.Random(seed))
    prog = g.program(contexts)
    text, sites = prog.render()
    return text, sites, g


# ----------------------------------------------------------------------------- static type text vs kind tree

def parse_type(s, aliases=None, classes=()):
    """Static type text (as printed by `typeof`) -> type tuple, or None when not understood."""
    s = s.strip()
    aliases = aliases or {}
    if s.endswith("?"):
        inner = parse_type(s[:-1], aliases, classes)
        return ('opt', inner) if inner else None
    if s in ('int', 'bigint', 'float', 'byte', 'bool', 'str'):
        return (s,)
    if s == 'nil':
        return ('nil',)
    if s in aliases:
        return aliases[s]
    if s.startswith("map[") and s.endswith("]"):
        parts = split_top(s[4:-1])
        if len(parts) == 2:
            k, v = parse_type(parts[0], aliases, classes), parse_type(parts[1], aliases, classes)
            if k and v:
                return ('map', k, v)
        return None
    if s.startswith("fn("):
        return ('fn',)
    if s.startswith("[") and s.endswith("...]"):
        inner = parse_type(s[1:-4], aliases, classes)
        return ('list', inner) if inner else None
    if s.startswith("[") and s.endswith("]"):
        parts = split_top(s[1:-1])
        if parts and parts[-1].endswith("..."):
            return None
        ts = [parse_type(x, aliases, classes) for x in parts] if s != "[]" else []
        if all(ts):
            return ('fixed', tuple(ts))
        return None
    if s.startswith("(") and s.endswith(")"):
        return parse_type(s[1:-1], aliases, classes)
    if s in classes or (s[:1].isupper() and s.isidentifier()):
        return ('class', s)
    return None


def split_top(s):
    parts, depth, cur = [], 0, ""
    for ch in s:
        if ch in "([":
            depth += 1
        elif ch in ")]":
            depth -= 1
        if ch == "," and depth == 0:
            parts.append(cur.strip())
            cur = ""
        else:
            cur += ch
    if cur.strip():
        parts.append(cur.strip())
    return parts


def parse_kind(s):
    """Kind tree text of the H-KIND hook -> nested tuple."""
    s = s.strip()
    if s.startswith("Vector[") and s.endswith("]"):
        inner = s[7:-1]
        return ('Vector', tuple(parse_kind(x) for x in split_top(inner))) if inner else ('Vector', ())
    if s.startswith("Map{") and s.endswith("}"):
        inner = s[4:-1]
        pairs = []
        for x in split_top_braces(inner):
            k, _, v = x.partition(":")
            pairs.append((k, v))
        return ('Map', tuple(pairs))
    if s.startswith("Object(") and s.endswith(")"):
        return ('Object', s[7:-1])
    return (s,)


def split_top_braces(s):
    parts, depth, cur = [], 0, ""
    for ch in s:
        if ch in "([{":
            depth += 1
        elif ch in ")]}":
            depth -= 1
        if ch == "," and depth == 0:
            parts.append(cur)
            cur = ""
        else:
            cur += ch
    if cur:
        parts.append(cur)
    return parts


SCALAR_KIND = {'int': 'Int', 'bigint': 'BigInt', 'float': 'Float', 'byte': 'Byte', 'bool': 'Bool', 'str': 'Str'}


def conforms(t, kind):
    """Does a run-time value of kind tree `kind` have static type t?  nil conforms to everything (the property
    speaks about values other than nil); None = not decidable."""
    if kind == ('Nil',):
        return True
    k = t[0]
    if k in SCALAR_KIND:
        return kind == (SCALAR_KIND[k],)
    if k == 'opt':
        return conforms(t[1], kind)
    if k == 'nil':
        return kind == ('Nil',)
    if k == 'list':
        if kind[0] != 'Vector':
            return False
        res = [conforms(t[1], e) for e in kind[1]]
        return None if None in res else all(res)
    if k == 'fixed':
        if kind[0] != 'Vector' or len(kind[1]) != len(t[1]):
            return False
        res = [conforms(a, e) for a, e in zip(t[1], kind[1])]
        return None if None in res else all(res)
    if k == 'map':
        if kind[0] != 'Map':
            return False
        for ks, vs in kind[1]:
            a, b = conforms(t[1], parse_kind(ks)), conforms(t[2], parse_kind(vs))
            if a is False or b is False:
                return False
        return True
    if k == 'fn':
        return kind in (('Function',), ('BuiltIn',))
    if k == 'class':
        if t[1] == 'Self':
            return kind[0] == 'Object'
        return kind == ('Object', t[1])
    return None
