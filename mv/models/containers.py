"""Mathematical model of MScript lists and maps (property C13).

A list is a Python ``list``, a map a Python ``dict``; both are *shared by reference* exactly like the
language's containers, so an alias is simply a second Python reference to the same object and identity is
``is``.  Element values: ``int`` (i32), ``str``, ``None`` (= ``nil``), ``bool`` (results of callbacks only) and
nested ``list``.

What the model fixes (= what the C13 statement fixes):
  * every operation's result and the contents of every container afterwards;
  * ``clone`` is a *shallow* copy with a fresh identity;
  * an out-of-range index / removal raises ``Failure`` (the program must stop, no value is produced);
  * ``keys`` / ``values`` / ``pairs`` are multisets (use ``multiset`` to compare).
What it deliberately leaves open:
  * ``join``: the receiver becomes receiver ++ argument and that sequence is the result.  Whether the result
    aliases the receiver and what is left in the argument is not fixed: the argument is *consumed* -- the model
    poisons it (``CONSUMED`` marker) so that any later observation of it by a generator is a harness error,
    never a verdict.
  * arithmetic outside i32 (``Unmodelled``): generators must stay inside.

``MUTATION`` (environment variable ``MV_C13_MUTATE``) deliberately breaks the model in one of a few realistic
ways; it exists only to validate that the C13 engine fires (DESIGN section 5) and is off by default.
"""
import os

I32_MIN, I32_MAX = -2 ** 31, 2 ** 31 - 1

MUTATION = os.environ.get("MV_C13_MUTATE", "")
MUTATIONS = ("swap_remove", "clone_alias", "filter_next_index", "map_skip_empty_check", "index_of_last",
             "reverse_noop_on_pair", "replace_returns_new", "map_clone_alias", "remove_allows_len",
             "join_prepends", "clear_keeps_alias")


class Failure(Exception):
    """The operation is out of range: the program must stop with a failure of any class."""


class Unmodelled(Exception):
    """The generator left the modelled fragment (i32 overflow, use of a consumed list, ...)."""


class _Consumed(object):
    def __repr__(self):
        return "<CONSUMED>"


CONSUMED = _Consumed()


def _live(l):
    if l and l[0] is CONSUMED:
        raise Unmodelled("use of a list consumed by join")
    return l


def i32(n):
    if not (I32_MIN <= n <= I32_MAX):
        raise Unmodelled("i32 overflow")
    return n


# ----------------------------------------------------------------------------- sequences

def check_index(l, i):
    """Valid indices are 0 <= i < len; everything else (negative ones included) is out of range."""
    _live(l)
    if not isinstance(i, int) or isinstance(i, bool):
        raise Unmodelled("non-int index")
    if i < 0 or i >= len(l):
        raise Failure("index %d out of range (len %d)" % (i, len(l)))
    return i


def length(l):
    return len(_live(l))


def push(l, v):
    _live(l).append(v)


def get(l, i):
    return l[check_index(l, i)]


def set_(l, i, v):
    l[check_index(l, i)] = v


def apply_op(op, a, b):
    """`a op= b` on element values (ints: + - *; strings: + with the text of b)."""
    if isinstance(a, str):
        if op != "+":
            raise Unmodelled("str op")
        return a + to_text(b)
    if isinstance(a, bool) or not isinstance(a, int) or isinstance(b, bool) or not isinstance(b, int):
        raise Unmodelled("operand kinds")
    if op == "+":
        return i32(a + b)
    if op == "-":
        return i32(a - b)
    if op == "*":
        return i32(a * b)
    raise Unmodelled("operator " + op)


def op_assign(l, i, op, v):
    i = check_index(l, i)
    l[i] = apply_op(op, l[i], v)
    return l[i]


def remove(l, i):
    _live(l)
    if MUTATION == "remove_allows_len" and i == len(l) and l:
        i = len(l) - 1
    i = check_index(l, i)
    if MUTATION == "swap_remove":
        l[i], l[-1] = l[-1], l[i]
        return l.pop()
    return l.pop(i)


def reverse(l):
    _live(l)
    if MUTATION == "reverse_noop_on_pair" and len(l) == 2:
        return
    l.reverse()


def clear(l):
    _live(l)
    if MUTATION == "clear_keeps_alias":
        return
    del l[:]


def clone(l):
    _live(l)
    if MUTATION == "clone_alias":
        return l
    return list(l)


def join(l, arg):
    """Receiver becomes receiver ++ argument; returns the resulting sequence (a *copy* for the caller to print:
    aliasing of the result is open).  The argument is consumed."""
    _live(l)
    _live(arg)
    if l is arg:
        raise Unmodelled("self-join: the statement does not say what a consumed receiver is")
    if MUTATION == "join_prepends":
        l[:0] = arg
    else:
        l.extend(arg)
    del arg[:]
    arg.append(CONSUMED)
    return list(l)


def map_(l, f):
    """f is called once per element, in index order; the results form a new list."""
    _live(l)
    if MUTATION == "map_skip_empty_check" and not l:
        raise Failure("mutated model: map on the empty list")
    return [f(x) for x in list(l)]


def filter_(l, f):
    _live(l)
    out = []
    for i, x in enumerate(list(l)):
        if f(x):
            if MUTATION == "filter_next_index":
                out.append(l[min(i + 1, len(l) - 1)])
            else:
                out.append(x)
    return out


def equal(a, b):
    """Structural equality of element values (nested lists compared element-wise)."""
    if isinstance(a, list) and isinstance(b, list):
        _live(a)
        _live(b)
        return len(a) == len(b) and all(equal(x, y) for x, y in zip(a, b))
    if isinstance(a, list) or isinstance(b, list):
        return False
    if a is None or b is None:
        return a is None and b is None
    if isinstance(a, bool) != isinstance(b, bool):
        return False
    return type(a) == type(b) and a == b


def index_of(l, v):
    _live(l)
    hits = [i for i, x in enumerate(l) if equal(x, v)]
    if not hits:
        return None
    return hits[-1] if MUTATION == "index_of_last" else hits[0]


def live_map(l, f):
    """Traversal by *live index* (for the sub-catalogue whose callbacks mutate the traversed list; this reading
    is an observation aid, the statement does not fix it): while i < len(l): out.append(f(l[i])); i += 1."""
    out, i = [], 0
    while i < len(l):
        out.append(f(l[i]))
        i += 1
        if i > 64:
            raise Unmodelled("unbounded traversal")
    return out


# ----------------------------------------------------------------------------- finite maps

def m_get(m, k):
    return m.get(k)            # absent key -> nil


def m_set(m, k, v):
    m[k] = v


def m_replace(m, k, v):
    old = m.get(k)
    m[k] = v
    if MUTATION == "replace_returns_new":
        return v
    return old


def m_remove(m, k):
    return m.pop(k, None)


def m_contains(m, k):
    return k in m


def m_len(m):
    return len(m)


def m_keys(m):
    return list(m.keys())


def m_values(m):
    return list(m.values())


def m_pairs(m):
    return [[k, v] for k, v in m.items()]


def m_clear(m):
    m.clear()


def m_clone(m):
    if MUTATION == "map_clone_alias":
        return m
    return dict(m)


# ----------------------------------------------------------------------------- text

def to_text(v):
    """Text of a value as `print` shows it at top level / as `+` concatenates it into a string."""
    return render(v, 0)


def render(v, depth=0):
    if v is CONSUMED:
        raise Unmodelled("observation of a consumed list")
    if v is None:
        return "nil"
    if isinstance(v, bool):
        return "true" if v else "false"
    if isinstance(v, int):
        return str(v)
    if isinstance(v, str):
        return v if depth == 0 else '"%s"' % v
    if isinstance(v, list):
        return "[" + ", ".join(render(x, depth + 1) for x in v) + "]"
    raise Unmodelled("cannot render %r" % (v,))


def multiset(items):
    """Canonical form of a list compared as a multiset (keys / values / pairs)."""
    return sorted(render(x, 1) for x in items)


class ParseError(Exception):
    pass


def parse(text):
    """Parse what `print` shows for a list / int / nil / bool / quoted string (strings without quotes inside)."""
    v, pos = _parse(text, 0)
    if text[pos:].strip():
        raise ParseError("trailing text at %d in %r" % (pos, text))
    return v


def _parse(s, i):
    while i < len(s) and s[i] == " ":
        i += 1
    if i >= len(s):
        raise ParseError("empty")
    c = s[i]
    if c == "[":
        out = []
        i += 1
        while True:
            while i < len(s) and s[i] == " ":
                i += 1
            if i < len(s) and s[i] == "]":
                return out, i + 1
            v, i = _parse(s, i)
            out.append(v)
            while i < len(s) and s[i] == " ":
                i += 1
            if i < len(s) and s[i] == ",":
                i += 1
            elif i < len(s) and s[i] == "]":
                return out, i + 1
            else:
                raise ParseError("expected , or ] at %d in %r" % (i, s))
    if c == '"':
        j = s.find('"', i + 1)
        if j < 0:
            raise ParseError("unterminated string")
        return s[i + 1:j], j + 1
    j = i
    while j < len(s) and s[j] not in ",] ":
        j += 1
    tok = s[i:j]
    if tok == "nil":
        return None, j
    if tok == "true":
        return True, j
    if tok == "false":
        return False, j
    try:
        return int(tok), j
    except ValueError:
        raise ParseError("token %r" % tok)
