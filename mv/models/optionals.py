"""Value-level model of MScript optionals (C12) + a renderer for the small program IR it interprets.

An optional is `None` (nil) or the plain value it holds — a present optional IS its value, which is the
property's "a present optional compares equal to the plain value it holds".  The model interprets the same
IR that `render` turns into MScript text, so expectation and program cannot drift apart.

IR (tuples).  Expressions:
  ('lit', v) ('nil',) ('var', n) ('call', f, [args]) ('new', cls, [args]) ('index', e, i) ('field', e, f)
  ('mapget', e, key) ('listlit', [e]) ('maplit', ktype, vtype, [(key, e)])
  ('eq', a, b) ('ne', a, b) ('get', e, gid) ('or', e, fallback) ('unwrap', name, e)
  ('and', a, b) ('add', a, b) ('len', e) ('not', e)
Statements:
  ('raw', [lines]) ('decl', n, type|None, e) ('assign', n, e) ('print', e) ('expr', e)
  ('if', c, then, else|None) ('while', c, body) ('break',) ('block', body)
  ('fn', n, [(p, type)], rtype|None, body) ('return', e) ('callstmt', f, [args])
Scoping is lexical: one Scope per function activation whose parent is the scope the function was defined in
(closures capture by reference; a caller's locals are invisible to the callee; `a ?= e` stores into the
binding of `a` the function sees — its own variable or a captured one — and only otherwise makes a local)."""


class Obj:
    """Instance of a generated class: identity + fields."""
    __slots__ = ("cls", "fields")

    def __init__(self, cls, fields):
        self.cls, self.fields = cls, fields


class GetNil(Exception):
    def __init__(self, gid):
        self.gid = gid


class _Ret(Exception):
    def __init__(self, v):
        self.v = v


class _Brk(Exception):
    pass


class ModelError(Exception):
    pass


def fmt(v, inner=False):
    if v is None:
        return "nil"
    if v is True:
        return "true"
    if v is False:
        return "false"
    if isinstance(v, int):
        return str(v)
    if isinstance(v, float):
        s = repr(v)
        return s[:-2] if s.endswith(".0") else s
    if isinstance(v, str):
        return '"%s"' % v if inner else v
    if isinstance(v, list):
        return "[" + ", ".join(fmt(x, True) for x in v) + "]"
    raise ModelError("unprintable %r" % (v,))


# class name -> constructor parameter/field names (all generated classes store their arguments in fields)
CLASS_FIELDS = {"K": ["id"], "Bx": ["v"]}


class Scope:
    """Variables of one function activation (or of the module); `parent` is the scope the function was DEFINED in
    (lexical scoping: a caller's locals are never visible to the callee)."""

    def __init__(self, parent=None):
        self.vars = {}
        self.parent = parent

    def find(self, name):
        s = self
        while s is not None:
            if name in s.vars:
                return s
            s = s.parent
        return None


class Model:
    def __init__(self, or_evaluates_fallback=False, max_steps=20000):
        self.scope = Scope()
        self.fns = {}
        self.out = []
        self.steps = 0
        self.max_steps = max_steps
        self.events = {}
        # deliberate breakage switches (oracle validation only): True/'or' = `or` evaluates its fallback although the
        # value is present; 'unwrap_flag' = `?=` yields the opposite flag; 'eq_present' = a present optional differs
        # from the value it holds; 'get_passes_nil' = `get nil` yields nil instead of stopping
        self.breakage = "or" if or_evaluates_fallback is True else (or_evaluates_fallback or None)
        self.break_or = self.breakage == "or"

    def ev(self, k):
        self.events[k] = self.events.get(k, 0) + 1

    # ---- expressions
    def eval(self, e):
        self.steps += 1
        if self.steps > self.max_steps:
            raise ModelError("step bound")
        t = e[0]
        if t == "lit":
            return e[1]
        if t == "nil":
            return None
        if t == "var":
            return self.get(e[1])
        if t == "call":
            return self.call(e[1], [self.eval(a) for a in e[2]])
        if t == "new":
            args = [self.eval(a) for a in e[2]]
            return Obj(e[1], dict(zip(CLASS_FIELDS[e[1]], args)))
        if t == "index":
            return self.eval(e[1])[e[2]]
        if t == "field":
            return self.eval(e[1]).fields[e[2]]
        if t == "mapget":
            return self.eval(e[1])[e[2]]
        if t == "listlit":
            return [self.eval(x) for x in e[1]]
        if t == "maplit":
            return {k: self.eval(x) for k, x in e[3]}
        if t in ("eq", "ne"):
            a = self.eval(e[1])
            b = self.eval(e[2])
            r = self.equal(a, b)
            if self.breakage == "eq_present" and a is not None and b is not None and e[1][0] != "lit":
                r = not r
            self.ev("eq:" + ("nil" if a is None or b is None else "present"))
            return r if t == "eq" else not r
        if t == "get":
            v = self.eval(e[1])
            if v is None:
                self.ev("get:nil")
                if self.breakage == "get_passes_nil":
                    return None
                raise GetNil(e[2])
            self.ev("get:present")
            return v
        if t == "or":
            v = self.eval(e[1])
            if v is not None:
                self.ev("or:present")
                if self.break_or:
                    self.eval(e[2])
                return v
            self.ev("or:nil")
            return self.eval(e[2])
        if t == "unwrap":
            v = self.eval(e[2])
            # `a ?= e` writes through to an existing binding (own variable or captured one), else makes a local
            (self.scope.find(e[1]) or self.scope).vars[e[1]] = v
            self.ev("unwrap:" + ("nil" if v is None else "present"))
            return (v is None) if self.breakage == "unwrap_flag" else (v is not None)
        if t == "and":
            a = self.eval(e[1])
            if not a:
                return False
            return bool(self.eval(e[2]))
        if t == "add":
            return self.eval(e[1]) + self.eval(e[2])
        if t == "len":
            return len(self.eval(e[1]))
        if t == "not":
            return not self.eval(e[1])
        raise ModelError("expr %r" % (t,))

    @staticmethod
    def equal(a, b):
        if a is None or b is None:
            return a is None and b is None
        if isinstance(a, Obj) or isinstance(b, Obj):
            return a is b
        if type(a) is not type(b):
            raise ModelError("mixed-type equality %r %r" % (a, b))
        return a == b

    def get(self, name):
        s = self.scope.find(name)
        if s is None:
            raise ModelError("unbound name %r" % (name,))
        return s.vars[name]

    def call(self, name, args):
        clo = self.get(name) if self.scope.find(name) is not None else self.fns[name]
        _tag, _n, params, body, defined_in = clo
        saved = self.scope
        self.scope = Scope(defined_in)
        for (p, _t), a in zip(params, args):
            self.scope.vars[p] = a
        try:
            self.run(body)
        except _Ret as r:
            return r.v
        finally:
            self.scope = saved
        return None

    # ---- statements
    def run(self, stmts):
        for s in stmts:
            self.steps += 1
            if self.steps > self.max_steps:
                raise ModelError("step bound")
            t = s[0]
            if t == "raw":
                continue
            if t == "decl":
                self.scope.vars[s[1]] = self.eval(s[3])          # a declaration always makes a local
            elif t == "assign":
                self.scope.vars[s[1]] = self.eval(s[2])          # plain `x = e`: own variable (C07)
            elif t == "print":
                self.out.append(fmt(self.eval(s[1])))
            elif t == "expr":
                self.eval(s[1])
            elif t == "if":
                if self.eval(s[1]):
                    self.run(s[2])
                elif s[3] is not None:
                    self.run(s[3])
            elif t == "while":
                try:
                    while self.eval(s[1]):
                        self.run(s[2])
                except _Brk:
                    pass
            elif t == "break":
                raise _Brk()
            elif t == "block":
                self.run(s[1])
            elif t == "fn":
                clo = ("closure", s[1], s[2], s[4], self.scope)
                self.fns[s[1]] = clo
                self.scope.vars[s[1]] = clo
            elif t == "return":
                raise _Ret(self.eval(s[1]))
            elif t == "callstmt":
                self.call(s[1], [self.eval(a) for a in s[2]])
            else:
                raise ModelError("stmt %r" % (t,))

    def execute(self, prog):
        """-> (lines, ('ok',) | ('getnil', gid))"""
        try:
            self.run(prog)
        except GetNil as g:
            return self.out, ("getnil", g.gid)
        return self.out, ("ok",)


# ----------------------------------------------------------------------------- renderer
M0, M1, M2 = "\x01", "\x02", "\x03"       # \x01<gid>\x02 get-expression \x03

ATOMS = ("lit", "nil", "var")
POSTFIX = ("call", "new", "index", "field", "mapget", "len")


def lit_text(v):
    if v is True:
        return "true"
    if v is False:
        return "false"
    if isinstance(v, int):
        return str(v)
    if isinstance(v, float):
        return repr(v)
    if isinstance(v, str):
        return '"%s"' % v
    raise ModelError("no literal for %r" % (v,))


def rx(e, top=False):
    """Expression text.  top=True: statement-level (no enclosing parentheses needed)."""
    t = e[0]
    if t == "lit":
        return lit_text(e[1])
    if t == "nil":
        return "nil"
    if t == "var":
        return e[1]
    if t in ("call", "new"):
        return "%s(%s)" % (e[1], ", ".join(rx(a, True) for a in e[2]))
    if t == "index":
        return "%s[%d]" % (base(e[1]), e[2])
    if t == "field":
        return "%s.%s" % (base(e[1]), e[2])
    if t == "mapget":
        return '%s["%s"]' % (base(e[1]), e[2])
    if t == "len":
        return "%s.len()" % base(e[1])
    if t == "listlit":
        return "[" + ", ".join(rx(x, True) for x in e[1]) + "]"
    if t == "maplit":
        return "map[%s, %s] { %s }" % (e[1], e[2], ", ".join('"%s": %s' % (k, rx(x, True)) for k, x in e[3]))
    if t in ("eq", "ne", "and", "add"):
        sym = {"eq": "==", "ne": "!=", "and": "&&", "add": "+"}[t]
        s = "%s %s %s" % (opnd(e[1]), sym, opnd(e[2]))
    elif t == "get":
        s = "%s%s%sget %s%s" % (M0, e[2], M1, opnd(e[1]), M2)
    elif t == "or":
        s = "(%s) or %s" % (rx(e[1], True), opnd(e[2]))
    elif t == "unwrap":
        s = "%s ?= %s" % (e[1], opnd(e[2]))
    elif t == "not":
        s = "!%s" % opnd(e[1])
    else:
        raise ModelError("render %r" % (t,))
    return s if top else "(" + s + ")"


def opnd(e):
    """Operand of a binary/prefix operator: atoms and single-postfix atoms bare, everything else in parentheses."""
    return rx(e, False)


def base(e):
    """Receiver of a postfix (one postfix per atom): a name stays bare, anything else is parenthesised."""
    if e[0] == "var":
        return e[1]
    if e[0] in ATOMS:
        return rx(e)
    s = rx(e, False)
    return s if s.startswith("(") else "(" + s + ")"


def rs(stmts, ind, out):
    p = "  " * ind
    for s in stmts:
        t = s[0]
        if t == "raw":
            out.extend(p + l for l in s[1])
        elif t == "decl":
            out.append(p + ("%s: %s = %s" % (s[1], s[2], rx(s[3], True)) if s[2] else "%s = %s" % (s[1], rx(s[3], True))))
        elif t == "assign":
            out.append(p + "%s = %s" % (s[1], rx(s[2], True)))
        elif t == "print":
            out.append(p + "print " + rx(s[1], True))
        elif t == "expr":
            out.append(p + rx(s[1], True))
        elif t == "if":
            out.append(p + "if %s {" % rx(s[1], True))
            rs(s[2], ind + 1, out)
            if s[3] is not None:
                out.append(p + "} else {")
                rs(s[3], ind + 1, out)
            out.append(p + "}")
        elif t == "while":
            out.append(p + "while %s {" % rx(s[1], True))
            rs(s[2], ind + 1, out)
            out.append(p + "}")
        elif t == "break":
            out.append(p + "break")
        elif t == "block":
            out.append(p + "if true {")
            rs(s[1], ind + 1, out)
            out.append(p + "}")
        elif t == "fn":
            params = ", ".join("%s: %s" % pt for pt in s[2])
            out.append(p + "%s = fn(%s)%s {" % (s[1], params, " -> " + s[3] if s[3] else ""))
            rs(s[4], ind + 1, out)
            out.append(p + "}")
        elif t == "return":
            out.append(p + "return " + rx(s[1], True))
        elif t == "callstmt":
            out.append(p + "%s(%s)" % (s[1], ", ".join(rx(a, True) for a in s[2])))
        else:
            raise ModelError("render stmt %r" % (t,))


def render(prog):
    """-> (source text, {gid: (line, first_col, last_col)}) with 1-based line/column of each `get` expression
    (from the `g` of the keyword to the last character of its operand)."""
    lines = []
    rs(prog, 0, lines)
    spans, clean = {}, []
    for ln, line in enumerate(lines, 1):
        buf, open_ = [], []
        i = 0
        while i < len(line):
            c = line[i]
            if c == M0:
                j = line.index(M1, i)
                open_.append((line[i + 1:j], len(buf) + 1))
                i = j + 1
            elif c == M2:
                gid, start = open_.pop()
                spans[int(gid)] = (ln, start, len(buf))
                i += 1
            else:
                buf.append(c)
                i += 1
        clean.append("".join(buf))
    return "\n".join(clean) + "\n", spans
