"""C08 model and workload: objects have per-instance state, reference identity and bound methods.

The object model is the interpreter of mv/models/closures.py: an instance is a Python object (`Obj`) whose
identity is the reference identity, its fields are cells, assignment / argument passing / return / container
storage share the instance, a method runs against the instance it was called on, `a is b` <=> same instance,
list equality compares objects by identity.

This file generates the programs: up to 3 classes (fields of int, str, list, optional, `Self?` and class type,
constructor with parameters, methods with parameters and results, methods calling sibling methods, methods
returning `Self`, module-level variables captured by methods) and histories of up to 15 steps over up to 5 object
variables; after every step the fields of every object variable are printed (never an object itself)."""
import random

from .closures import ind, run_model, parse, Discard, first_deviation, split_steps   # noqa: F401  (re-exported)

TYPE_TXT = {"int": "int", "str": "str", "list": "[int...]", "opt": "int?", "bool": "bool", "map": "map[str, int]"}
MAP_KEYS = ("k1", "k2")


class ClassSpec:
    def __init__(self, name):
        self.name = name
        self.fields = []       # (name, kind)  kind: int str list opt self cls:<K> clsopt:<K> objs:<K>
        self.ctor = []         # (param, field, kind) constructor parameters
        self.methods = {}      # name -> dict(params=[(name, kind)], ret=kind|None, tag=...)
        self.lines = []

    def field(self, kind):
        for n, k in self.fields:
            if k == kind:
                return n
        return None

    def fields_of(self, pred):
        return [(n, k) for n, k in self.fields if pred(k)]


class G08:
    def __init__(self, rng, avoid=()):
        self.r = rng
        self.n = 0
        self.avoid = set(avoid)
        self.classes = []
        self.decl = []
        self.vars = {}           # object variable -> class name
        self.counters = []       # module-level int variables written by constructors / methods
        self.lists = {}          # class name -> (list variable, known length)
        self.maps = {}           # class name -> (map variable, [keys])
        self.funcs = {}          # class name -> dict of helper function names
        self.features = set()
        self.max_vars = 5
        self.selfish = set()     # variables last bound from a method returning Self (see notes: `v.f = nil` is then rejected)

    def fresh(self, p):
        self.n += 1
        return "%s%d" % (p, self.n)

    def cls(self, name):
        for c in self.classes:
            if c.name == name:
                return c
        raise KeyError(name)

    # ------------------------------------------------------------------ classes
    def gen_class(self, idx):
        r = self.r
        c = ClassSpec(self.fresh("K"))
        p = c.name.lower()
        kinds = ["int"]
        pool = ["int", "str", "list", "list", "opt", "self", "bool", "map"]
        if self.classes:
            pool += ["cls", "clsopt", "objs", "cls", "cls"]
        for k in r.sample(pool, r.randint(1, min(5, len(pool)))):
            if k not in kinds or k == "int":
                kinds.append(k)
        for k in kinds:
            fname = self.fresh(p + "f")
            if k in ("cls", "clsopt", "objs"):
                k = "%s:%s" % (k, r.choice(self.classes).name)
            c.fields.append((fname, k))
        # constructor parameters: every non-optional class field must come from a parameter
        init = []
        for fname, k in c.fields:
            base = k.split(":")[0]
            takes = base == "cls" or (base in ("int", "str") and r.random() < 0.7)
            if base == "int" and not c.ctor:
                takes = True
            if takes:
                pn = self.fresh("a")
                c.ctor.append((pn, fname, k))
                if base == "int" and r.random() < 0.3:
                    init.append("self.%s = %s + %d" % (fname, pn, r.randint(1, 9)))
                else:
                    init.append("self.%s = %s" % (fname, pn))
            elif base == "int":
                init.append("self.%s = %d" % (fname, r.randint(0, 9)))
            elif base == "str":
                init.append('self.%s = "%s"' % (fname, r.choice(["a", "b", "xy", ""])))
            elif base == "bool":
                init.append("self.%s = %s" % (fname, r.choice(["true", "false"])))
            elif base == "map":
                init.append("self.%s = map[str, int] {}" % fname)
            elif base == "list":
                ip = [p_ for p_, _, kk in c.ctor if kk == "int"]
                if ip and r.random() < 0.35:
                    init.append("self.%s = [%s]" % (fname, ip[0]))
                else:
                    init.append("self.%s = []" % fname)
            elif base in ("opt", "self", "clsopt"):
                init.append("self.%s = nil" % fname)
            elif base == "objs":
                init.append("self.%s = []" % fname)
        r.shuffle(init)
        # module-level counter captured by the constructor / methods
        counter = None
        if r.random() < 0.6:
            if not self.counters or r.random() < 0.4:
                counter = self.fresh("gc")
                self.decl.append("%s = 0" % counter)
                self.counters.append(counter)
            else:
                counter = r.choice(self.counters)
            init.append("modify %s = %s + 1" % (counter, counter))
            self.features.add("ctor_modifies_module_var")
        ptxt = "".join(", %s: %s" % (pn, self.type_txt(k)) for pn, _, k in c.ctor)
        body = ["%s: %s" % (fn_, self.type_txt(k, field=True)) for fn_, k in c.fields]
        body += ["constructor(self%s) {" % ptxt] + ind(init) + ["}"]
        body += self.gen_methods(c, counter)
        c.lines = ["class %s {" % c.name] + ind(body) + ["}"]
        self.classes.append(c)
        self.decl += c.lines
        self.gen_helpers(c)

    def type_txt(self, k, field=False):
        base = k.split(":")[0]
        if base in TYPE_TXT:
            return TYPE_TXT[base]
        if base == "self":
            return "Self?"
        cn = k.split(":")[1]
        if base == "cls":
            return cn
        if base == "clsopt":
            return cn + "?"
        return "[%s...]" % cn

    def gen_methods(self, c, counter):
        r = self.r
        out = []
        ints = [n for n, k in c.fields if k == "int"]
        fi = ints[0]

        def add(name, params, ret, body, tag):
            c.methods[name] = {"params": params, "ret": ret, "tag": tag}
            ptxt = "".join(", %s: %s" % (pn, pt if pt not in TYPE_TXT else TYPE_TXT[pt]) for pn, pt in params)
            rt = ""
            if ret:
                rt = " -> " + (ret if ret not in TYPE_TXT else TYPE_TXT[ret])
            out.extend(["fn %s(self%s)%s {" % (name, ptxt, rt)] + ind(body) + ["}"])
            self.features.add("method:" + tag)

        p = c.name.lower()
        m_get = self.fresh(p + "get")
        add(m_get, [], "int", ["return self.%s" % fi], "getter")
        m_add = self.fresh(p + "add")
        d = self.fresh("d")
        style = r.randrange(3)
        body = [["self.%s += %s" % (fi, d)], ["self.%s = self.%s + %s" % (fi, fi, d)],
                ["t%s = self.%s" % (d, fi), "self.%s = t%s + %s" % (fi, d, d)]][style]
        add(m_add, [(d, "int")], "int", body + ["return self.%s" % fi], "add")
        c.m_get, c.m_add = m_get, m_add
        if r.random() < 0.7:
            d = self.fresh("d")
            m = self.fresh(p + "twice")
            body = ["self.%s(%s)" % (m_add, d), "return self.%s(%s) + self.%s()" % (m_add, d, m_get)]
            add(m, [(d, "int")], "int", body, "sibling_call")
        if r.random() < 0.7:
            m = self.fresh(p + "me")
            add(m, [], "Self", ["return self"], "return_self")
        if r.random() < 0.6:
            d = self.fresh("d")
            m = self.fresh(p + "bump")
            add(m, [(d, "int")], "Self", ["self.%s += %s" % (fi, d), "return self"], "chain")
        if r.random() < 0.6:
            m = self.fresh(p + "clone")
            args = []
            for pn, fname, k in c.ctor:
                args.append("self.%s" % fname)
            add(m, [], "Self", ["return Self(%s)" % ", ".join(args)], "clone")
        if r.random() < 0.5:
            o = self.fresh("o")
            m = self.fresh(p + "pick")
            add(m, [(o, "Self")], "Self", ["if %s.%s > self.%s {" % (o, fi, fi), "  return %s" % o, "}", "return self"], "pick")
        if r.random() < 0.6:
            o = self.fresh("o")
            m = self.fresh(p + "same")
            add(m, [(o, "Self")], "bool", ["return self is %s" % o], "is_in_method")
        if r.random() < 0.5:
            o = self.fresh("o")
            t = self.fresh("t")
            m = self.fresh(p + "swap")
            add(m, [(o, "Self")], None, ["%s = self.%s" % (t, fi), "self.%s = %s.%s" % (fi, o, fi), "%s.%s = %s" % (o, fi, t)],
                "two_objects")
        if r.random() < 0.8:
            # pure expressions applied DIRECTLY to field reads: must not change the object
            m = self.fresh(p + "neg")
            add(m, [], "int", ["return -self.%s" % fi], "pure_unary_on_field")
            m = self.fresh(p + "mix")
            other = ints[-1]
            add(m, [], "int", ["return -self.%s + self.%s * 2 - (-self.%s) + (self.%s %% 5)" % (fi, other, fi, other)], "pure_ops_on_fields")
        for fname, k in c.fields:
            base = k.split(":")[0]
            if base == "bool":
                m = self.fresh(p + "notb")
                add(m, [], "bool", ["return !self.%s" % fname], "pure_unary_on_field")
                m = self.fresh(p + "both")
                add(m, [], "bool", ["return !self.%s || self.%s > 3 && !(self.%s == 0)" % (fname, fi, fi)], "pure_ops_on_fields")
                if r.random() < 0.6:
                    m = self.fresh(p + "flip")
                    add(m, [], "bool", ["self.%s = !self.%s" % (fname, fname), "return self.%s" % fname], "bool_flip")
            if base == "list":
                m = self.fresh(p + "fneg")
                add(m, [], "int", ["if self.%s.len() == 0 {" % fname, "  return 0", "}", "return -(self.%s)[0]" % fname],
                    "pure_unary_on_index")
                o = self.fresh("o")
                m = self.fresh(p + "adopt")
                add(m, [(o, "Self")], None, ["self.%s = %s.%s" % (fname, o, fname)], "adopt_list")
            if base == "map":
                o = self.fresh("o")
                m = self.fresh(p + "adoptm")
                add(m, [(o, "Self")], None, ["self.%s = %s.%s" % (fname, o, fname)], "adopt_map")
            if base == "str" and r.random() < 0.7:
                s = self.fresh("s")
                m = self.fresh(p + "cat")
                add(m, [(s, "str")], "str", ["self.%s = self.%s + %s" % (fname, fname, s), "return self.%s" % fname], "str_field")
            elif base == "list" and r.random() < 0.8:
                v = self.fresh("v")
                m = self.fresh(p + "push")
                add(m, [(v, "int")], "int", ["self.%s.push(%s)" % (fname, v), "return self.%s.len()" % fname], "list_push")
            elif base == "opt" and r.random() < 0.8:
                v = self.fresh("v")
                m = self.fresh(p + "seto")
                add(m, [(v, "int")], None, ["self.%s = %s" % (fname, v)], "opt_set")
                m = self.fresh(p + "clro")
                add(m, [], None, ["self.%s = nil" % fname], "opt_clear")
            elif base == "self":
                o = self.fresh("o")
                m = self.fresh(p + "link")
                add(m, [(o, "Self")], None, ["self.%s = %s" % (fname, o)], "link")
                c.m_link = m
                m = self.fresh(p + "nexti")
                add(m, [], "int", ["if self.%s == nil {" % fname, "  return -1", "}", "return self.%s.%s" % (fname, fi)], "next_read")
                if r.random() < 0.7:
                    d = self.fresh("d")
                    m = self.fresh(p + "poke")
                    add(m, [(d, "int")], None, ["if self.%s != nil {" % fname,
                                                "  self.%s.%s = self.%s.%s + %s" % (fname, fi, fname, fi, d), "}"], "next_write")
            elif base in ("cls", "clsopt"):
                kc = self.cls(k.split(":")[1])
                if base == "cls":
                    d = self.fresh("d")
                    m = self.fresh(p + "kadd")
                    add(m, [(d, "int")], "int", ["return self.%s.%s(%s)" % (fname, kc.m_add, d)], "nested_method")
                    m = self.fresh(p + "kget")
                    add(m, [], kc.name, ["return self.%s" % fname], "return_field_object")
                kp = self.fresh("k")
                m = self.fresh(p + "setk")
                add(m, [(kp, kc.name)], None, ["self.%s = %s" % (fname, kp)], "set_object_field")
                if base == "cls":
                    kp, old = self.fresh("k"), self.fresh("old")
                    m = self.fresh(p + "swapk")
                    add(m, [(kp, kc.name)], kc.name, ["%s = self.%s" % (old, fname), "self.%s = %s" % (fname, kp), "return %s" % old],
                        "swap_object_field")
                    c.swaps = getattr(c, "swaps", []) + [(fname, m, kc.name)]
                    if not getattr(c, "m_weigh", None) or True:
                        x, y = self.fresh("x"), self.fresh("y")
                        mw = self.fresh(p + "weigh")
                        add(mw, [(x, kc.name), (y, kc.name)], "int",
                            ["return %s.%s() * 100 + %s.%s()" % (x, kc.m_get, y, kc.m_get)], "two_object_args")
                        c.weighs = getattr(c, "weighs", {})
                        c.weighs[kc.name] = mw
            elif base == "objs":
                kc = self.cls(k.split(":")[1])
                kp = self.fresh("k")
                m = self.fresh(p + "addk")
                add(m, [(kp, kc.name)], "int", ["self.%s.push(%s)" % (fname, kp), "return self.%s.len()" % fname], "objs_push")
        if counter and r.random() < 0.8:
            m = self.fresh(p + "cnt")
            add(m, [], "int", ["return %s" % counter], "reads_module_var")
            d = self.fresh("d")
            m = self.fresh(p + "tally")
            add(m, [(d, "int")], "int", ["modify %s = %s + %s + self.%s" % (counter, counter, d, fi), "return %s" % counter],
                "modifies_module_var")
        return out

    def gen_helpers(self, c):
        """Module-level functions taking / returning objects of class c, a list and a map of them."""
        r = self.r
        h = {}
        cn = c.name
        fi = [n for n, k in c.fields if k == "int"][0]
        p, q, b, d = self.fresh("p"), self.fresh("q"), self.fresh("b"), self.fresh("d")
        h["ident"] = self.fresh("ident")
        self.decl += ["%s = fn(%s: %s) -> %s {" % (h["ident"], p, cn, cn), "  return %s" % p, "}"]
        p2 = self.fresh("p")
        h["bump"] = self.fresh("bump")
        self.decl += ["%s = fn(%s: %s, %s: int) {" % (h["bump"], p2, cn, d), "  %s.%s = %s.%s + %s" % (p2, fi, p2, fi, d), "}"]
        p3 = self.fresh("p")
        h["pick"] = self.fresh("pick")
        self.decl += ["%s = fn(%s: %s, %s: %s, %s: bool) -> %s {" % (h["pick"], p3, cn, q, cn, b, cn), "  if %s {" % b,
                      "    return %s" % p3, "  }", "  return %s" % q, "}"]
        p4 = self.fresh("p")
        d4 = self.fresh("d")
        h["viam"] = self.fresh("viam")
        self.decl += ["%s = fn(%s: %s, %s: int) -> int {" % (h["viam"], p4, cn, d4), "  return %s.%s(%s)" % (p4, c.m_add, d4), "}"]
        self.funcs[cn] = h
        ls = self.fresh("ls")
        self.decl.append("%s: [%s...] = []" % (ls, cn))
        self.lists[cn] = [ls, 0]
        mp = self.fresh("mp")
        self.decl.append("%s = map[str, %s] {}" % (mp, cn))
        self.maps[cn] = [mp, []]

    # ------------------------------------------------------------------ expressions producing objects
    def ctor_args(self, c, depth=0):
        r = self.r
        args = []
        for pn, fname, k in c.ctor:
            base = k.split(":")[0]
            if base == "int":
                args.append(str(r.randint(0, 20)))
            elif base == "str":
                args.append('"%s"' % r.choice(["a", "b", "xy", "q", ""]))
            else:
                kc = self.cls(k.split(":")[1])
                have = [v for v, cn in self.vars.items() if cn == kc.name]
                if have and r.random() < 0.6:
                    args.append(r.choice(have))
                else:
                    args.append("%s(%s)" % (kc.name, self.ctor_args(kc, depth + 1)))
        return ", ".join(args)

    def mark(self, v, selfish):
        if selfish:
            self.selfish.add(v)
        else:
            self.selfish.discard(v)

    def vars_of(self, cn):
        return [v for v, c in self.vars.items() if c == cn]

    def target_var(self, cn):
        """A variable to (re)bind with an object of class cn: a new one while there is room, else an existing one."""
        have = self.vars_of(cn)
        if len(self.vars) < self.max_vars and (not have or self.r.random() < 0.6):
            v = self.fresh("o")
            self.vars[v] = cn
            return v
        if have:
            return self.r.choice(have)
        return None

    # ------------------------------------------------------------------ observation
    def observe(self):
        lines = []
        for g in self.counters:
            lines.append("print %s" % g)
        for v, cn in self.vars.items():
            c = self.cls(cn)
            for fname, k in c.fields:
                base = k.split(":")[0]
                if base in ("int", "str", "list", "opt", "bool"):
                    lines.append("print %s.%s" % (v, fname))
                elif base == "map":
                    for key in MAP_KEYS:
                        lines.append('print (%s.%s)["%s"]' % (v, fname, key))
                elif base == "self":
                    lines += ["if %s.%s == nil {" % (v, fname), '  print "-"', "} else {",
                              "  print %s.%s.%s" % (v, fname, c.m_get.join(["", "()"])), "}"]
                elif base == "cls":
                    kc = self.cls(k.split(":")[1])
                    lines.append("print %s.%s.%s()" % (v, fname, kc.m_get))
                elif base == "clsopt":
                    kc = self.cls(k.split(":")[1])
                    lines += ["if %s.%s == nil {" % (v, fname), '  print "-"', "} else {",
                              "  print %s.%s.%s()" % (v, fname, kc.m_get), "}"]
                else:
                    lines.append("print %s.%s.len()" % (v, fname))
        return lines

    # ------------------------------------------------------------------ steps
    def step(self):
        r = self.r
        for _ in range(40):
            before = dict(self.vars)
            out = self.try_step(r.random())
            if out:
                return out
            self.vars = before          # a variable reserved by an abandoned step was never assigned
        v = r.choice(list(self.vars))
        return "method_call", ["print %s.%s()" % (v, self.cls(self.vars[v]).m_get)]

    def try_step(self, c):
        r = self.r
        if not self.vars or c < 0.07:
            cl = r.choice(self.classes)
            v = self.target_var(cl.name)
            if v is None:
                return None
            self.selfish.discard(v)
            return "construct", ["%s = %s(%s)" % (v, cl.name, self.ctor_args(cl))]
        v = r.choice(list(self.vars))
        cn = self.vars[v]
        cl = self.cls(cn)
        same = self.vars_of(cn)
        h = self.funcs[cn]
        fi = [n for n, k in cl.fields if k == "int"][0]
        if c < 0.17:
            t = self.target_var(cn)
            if t is None or t == v:
                return None
            self.mark(t, v in self.selfish)
            return "alias", ["%s = %s" % (t, v)]
        if c < 0.24:
            return "pass_to_function", ["%s(%s, %d)" % (h["bump"], v, r.randint(1, 9))] if r.random() < 0.5 else \
                ["print %s(%s, %d)" % (h["viam"], v, r.randint(1, 9))]
        if c < 0.32:
            t = self.target_var(cn)
            if t is None:
                return None
            k = r.randrange(4)
            if k == 0:
                self.mark(t, False)
                return "return_from_function", ["%s = %s(%s)" % (t, h["ident"], v)]
            if k == 1:
                self.mark(t, False)
                return "return_from_function", ["%s = %s(%s, %s, %s)" % (t, h["pick"], v, r.choice(same), r.choice(["true", "false"]))]
            ms = [m for m, d in cl.methods.items() if d["tag"] in ("return_self", "clone")]
            if ms:
                m = r.choice(ms)
                self.mark(t, True)
                return "return_from_method", ["%s = %s.%s()" % (t, v, m)]
            return None
        if c < 0.42:
            ls = self.lists[cn]
            mp = self.maps[cn]
            k = r.randrange(4)
            if ls[1] > 0 and r.random() < 0.4:
                k = 1
            elif mp[1] and r.random() < 0.4:
                k = 3
            if k == 0:
                ls[1] += 1
                return "store_in_list", ["%s.push(%s)" % (ls[0], v)]
            if k == 1 and ls[1] > 0:
                t = self.target_var(cn)
                if t is None:
                    return None
                self.mark(t, False)
                return "read_from_list", ["%s = %s[%d]" % (t, ls[0], r.randrange(ls[1]))]
            if k == 2:
                key = r.choice(["k1", "k2", "k3"])
                if key not in mp[1]:
                    mp[1].append(key)
                return "store_in_map", ['%s["%s"] = %s' % (mp[0], key, v)]
            if k == 3 and mp[1]:
                t = self.target_var(cn)
                if t is None:
                    return None
                self.mark(t, False)
                return "read_from_map", ['%s = get %s["%s"]' % (t, mp[0], r.choice(mp[1]))]
            return None
        if c < 0.58:
            out = self.special_step(v, cl, same)
            if out:
                return out
            return None
        if c < 0.72:
            return self.field_write(v, cl, same)
        if c < 0.88:
            return self.method_call(v, cl, same)
        if c < 0.95:
            w = r.choice(same)
            k = r.randrange(4)
            if k <= 1:
                return "is_test", ["print %s is %s" % (v, w)]
            if k == 2:
                x, y = r.choice(same), r.choice(same)
                e1, e2 = self.fresh("e"), self.fresh("e")
                return "eq_lists", ["%s: [%s...] = [%s, %s]" % (e1, cn, v, x), "%s: [%s...] = [%s, %s]" % (e2, cn, w, y),
                                    "print %s == %s" % (e1, e2)]
            sf = cl.field("self")
            if sf:
                return "is_test", ["if %s.%s != nil {" % (v, sf), "  print %s.%s is %s" % (v, sf, w), "}"]
            return None
        # identity of nested objects
        for fname, k in cl.fields:
            base = k.split(":")[0]
            if base == "cls":
                others = [x for x in same if x != v]
                if others:
                    return "is_test", ["print %s.%s is %s.%s" % (v, fname, r.choice(others), fname)]
        return None

    def field_write(self, v, cl, same):
        r = self.r
        fname, k = r.choice(cl.fields)
        base = k.split(":")[0]
        if base == "int":
            f = r.randrange(3)
            if f == 0:
                return "field_write", ["%s.%s = %d" % (v, fname, r.randint(0, 50))]
            if f == 1:
                return "field_opassign", ["%s.%s %s %d" % (v, fname, r.choice(["+=", "-=", "*="]), r.randint(1, 3))]
            return "field_write", ["%s.%s = %s.%s + %d" % (v, fname, r.choice(same), fname, r.randint(1, 5))]
        if base == "str":
            if r.random() < 0.5:
                return "field_write", ['%s.%s = "%s"' % (v, fname, r.choice(["n", "mm", ""]))]
            return "field_opassign", ['%s.%s += "%s"' % (v, fname, r.choice(["+", "z"]))]
        if base == "list":
            f = r.randrange(3)
            if f == 0:
                return "field_list_push", ["%s.%s.push(%d)" % (v, fname, r.randint(0, 9))]
            if f == 1:
                t = self.fresh("t")
                return "field_list_alias_write", ["%s = %s.%s" % (t, v, fname), "%s.push(%d)" % (t, r.randint(0, 9))]
            return "field_write", ["%s.%s = [%d]" % (v, fname, r.randint(0, 9))]
        if base == "opt":
            return "field_write", ["%s.%s = %s" % (v, fname, r.choice(["nil", str(r.randint(0, 9))]))]
        if base == "bool":
            return "field_write", ["%s.%s = %s" % (v, fname, r.choice(["true", "false", "!%s.%s" % (v, fname)]))]
        if base == "map":
            t = self.fresh("t")
            return "field_map_alias_write", ["%s = %s.%s" % (t, v, fname), '%s["%s"] = %d' % (t, r.choice(MAP_KEYS), r.randint(0, 9))]
        if base == "self":
            f = r.randrange(4)
            if f == 0 and v in self.selfish:
                f = 1
            if f == 0:
                return "field_write", ["%s.%s = nil" % (v, fname)]
            if f == 1:
                return "field_link", ["%s.%s = %s" % (v, fname, r.choice(same))]
            fi = [n for n, kk in cl.fields if kk == "int"][0]
            if f == 2:
                return "nested_field_write", ["if %s.%s != nil {" % (v, fname), "  %s.%s.%s = %d" % (v, fname, fi, r.randint(0, 50)), "}"]
            return "nested_field_write", ["if %s.%s != nil {" % (v, fname), "  %s.%s.%s += %d" % (v, fname, fi, r.randint(1, 5)), "}"]
        kc = self.cls(k.split(":")[1])
        ki = [n for n, kk in kc.fields if kk == "int"][0]
        have = self.vars_of(kc.name)
        if base == "cls":
            f = r.randrange(3)
            if f == 0:
                return "nested_field_write", ["%s.%s.%s = %d" % (v, fname, ki, r.randint(0, 50))]
            if f == 1:
                return "nested_field_write", ["%s.%s.%s += %d" % (v, fname, ki, r.randint(1, 5))]
            src = r.choice(have) if have and r.random() < 0.6 else "%s(%s)" % (kc.name, self.ctor_args(kc))
            return "field_write", ["%s.%s = %s" % (v, fname, src)]
        if base == "clsopt":
            f = r.randrange(3)
            if f == 0:
                return "field_write", ["%s.%s = nil" % (v, fname)]
            if f == 1:
                src = r.choice(have) if have and r.random() < 0.6 else "%s(%s)" % (kc.name, self.ctor_args(kc))
                return "field_write", ["%s.%s = %s" % (v, fname, src)]
            return "nested_field_write", ["if %s.%s != nil {" % (v, fname), "  %s.%s.%s = %d" % (v, fname, ki, r.randint(0, 50)), "}"]
        # objs
        src = r.choice(have) if have and r.random() < 0.7 else "%s(%s)" % (kc.name, self.ctor_args(kc))
        return "field_list_push", ["%s.%s.push(%s)" % (v, fname, src)]

    def special_step(self, v, cl, same):
        """Steps aimed at reference-typed fields, pure expressions on field reads and read-then-reassign inside one
        expression."""
        r = self.r
        lists = [n for n, kk in cl.fields if kk == "list"]
        maps = [n for n, kk in cl.fields if kk == "map"]
        ints = [n for n, kk in cl.fields if kk == "int"]
        bools = [n for n, kk in cl.fields if kk == "bool"]
        w = r.choice(same)
        opts = [4]
        if lists:
            opts += [0, 0, 1, 1, 2, 5]
        if maps:
            opts += [3, 3]
        if getattr(cl, "swaps", []):
            opts += [6, 6, 6, 6]
        k = r.choice(opts)
        if k == 0 and lists:
            f = r.choice(lists)
            # share the list of another object (often equal contents: both empty / both [a])
            return "field_list_share", ["%s.%s = %s.%s" % (v, f, w, f)]
        if k == 1 and lists:
            f = r.choice(lists)
            nl, it, el = self.fresh("nl"), self.fresh("it"), self.fresh("el")
            # a DIFFERENT list with the SAME contents replaces the field's list, then the new list is mutated
            return "field_list_equal_copy", ["%s: [int...] = []" % nl, "from 0 to %s.%s.len(), %s {" % (v, f, it),
                                             "  %s = (%s.%s)[%s]" % (el, v, f, it), "  %s.push(%s)" % (nl, el), "}",
                                             "%s.%s = %s" % (v, f, nl), "%s.push(%d)" % (nl, r.randint(0, 9)),
                                             "print %s.%s is %s" % (v, f, nl)]
        if k == 2 and lists:
            f = r.choice(lists)
            return "is_on_list_fields", ["if %s.%s.len() > 0 && %s.%s.len() > 0 {" % (v, f, w, f), "  print %s.%s is %s.%s" % (v, f, w, f),
                                         "}"]
        if k == 3 and maps:
            f = r.choice(maps)
            c2 = r.randrange(3)
            if c2 == 0:
                return "field_map_share", ["%s.%s = %s.%s" % (v, f, w, f), "print %s.%s is %s.%s" % (v, f, w, f)]
            if c2 == 1:
                nm = self.fresh("nm")
                return "field_map_equal_copy", ['if (%s.%s)["k1"] == nil && (%s.%s)["k2"] == nil {' % (v, f, v, f),
                                                "  %s = map[str, int] {}" % nm, "  %s.%s = %s" % (v, f, nm),
                                                '  %s["k1"] = %d' % (nm, r.randint(0, 9)), "}"]
            return "is_on_map_fields", ["print %s.%s is %s.%s" % (v, f, w, f)]
        if k == 4:
            fi = r.choice(ints)
            exprs = ["-%s.%s" % (v, fi), "-%s.%s + %s.%s * 2" % (v, fi, w, fi), "(-%s.%s) - (-%s.%s)" % (v, fi, w, fi),
                     "%s.%s %% 7 + %s.%s" % (v, fi, v, fi)]
            if bools:
                fb = r.choice(bools)
                exprs += ["!%s.%s" % (v, fb), "!%s.%s || %s.%s > 2" % (v, fb, v, fi), "!(%s.%s && !%s.%s)" % (v, fb, w, fb)]
            e = r.choice(exprs)
            if r.random() < 0.5:
                x = self.fresh("x")
                return "pure_expr_on_fields", ["%s = %s" % (x, e), "print %s" % x]
            return "pure_expr_on_fields", ["print " + e]
        if k == 5 and lists:
            f = r.choice(lists)
            x = self.fresh("x")
            return "pure_expr_on_index", ["if %s.%s.len() > 0 {" % (v, f), "  %s = -(%s.%s)[0]" % (x, v, f), "  print %s" % x,
                                          "  print -(%s.%s)[0] + (%s.%s)[0] * 2" % (v, f, v, f), "}"]
        swaps = getattr(cl, "swaps", [])
        if k >= 6 and swaps:
            fname, msw, kcn = r.choice(swaps)
            kc = self.cls(kcn)
            have = self.vars_of(kcn)
            other = r.choice(have) if have and r.random() < 0.7 else "%s(%s)" % (kcn, self.ctor_args(kc))
            mw = cl.weighs[kcn]
            c2 = r.randrange(5)
            # the field is read first and re-assigned LATER IN THE SAME EXPRESSION: values are those at evaluation time
            if c2 == 0:
                return "read_then_swap:args", ["print %s.%s(%s.%s, %s.%s(%s))" % (v, mw, v, fname, v, msw, other)]
            if c2 == 1:
                return "read_then_swap:is", ["print %s.%s is %s.%s(%s)" % (v, fname, v, msw, other)]
            if c2 == 2:
                return "read_then_swap:receiver", ["%s.%s.%s(%s.%s(%s).%s())" % (v, fname, kc.m_add, v, msw, other, kc.m_get)]
            if c2 == 3:
                return "read_then_swap:operand", ["print %s.%s.%s() * 10 + %s.%s(%s).%s()" % (v, fname, kc.m_get, v, msw, other, kc.m_get)]
            return "read_then_swap:args", ["print %s.%s(%s.%s(%s), %s.%s)" % (v, mw, v, msw, other, v, fname)]
        return None

    def method_call(self, v, cl, same):
        r = self.r
        m, d = r.choice(sorted(cl.methods.items()))
        args = []
        for pn, pt in d["params"]:
            if pt == "int":
                args.append(str(r.randint(0, 9)))
            elif pt == "str":
                args.append('"%s"' % r.choice(["u", "vw", ""]))
            elif pt == "Self":
                args.append(r.choice(same))
            else:
                kc = self.cls(pt)
                have = self.vars_of(pt)
                args.append(r.choice(have) if have and r.random() < 0.7 else "%s(%s)" % (kc.name, self.ctor_args(kc)))
        call = "%s.%s(%s)" % (v, m, ", ".join(args))
        ret = d["ret"]
        kind = "method_call:" + d["tag"]
        if ret is None:
            return kind, [call]
        if ret in ("int", "str", "bool"):
            return kind, ["print " + call]
        if ret == "Self":
            if d["tag"] == "chain" and r.random() < 0.6:
                return kind, ["print %s.%s(%d).%s()" % (call, m, r.randint(0, 9), cl.m_get)]
            # a `-> Self` call that may hand back ANOTHER object (clone, pick), continued by a mutating `-> Self`
            # call: the second call's receiver is the first call's result, not the first receiver
            chains = sorted(mm for mm, dd in cl.methods.items() if dd["tag"] == "chain")
            if chains and r.random() < 0.6:
                self.features.add("chain_after:" + d["tag"])
                return kind + ":then_chain", ["print %s.%s(%d).%s()" % (call, r.choice(chains), r.randint(1, 9), cl.m_get)]
            return kind, ["print %s.%s()" % (call, cl.m_get)]
        kc = self.cls(ret)
        return kind, ["print %s.%s()" % (call, kc.m_get)]

    # ------------------------------------------------------------------ whole case
    def case(self, max_steps=15):
        r = self.r
        for i in range(r.choice([1, 2, 2, 3])):
            self.gen_class(i)
        src = list(self.decl)
        # two initial objects
        for _ in range(2):
            kind, lines = self.try_step(0.0)
            src += lines
        src.append('print "@0 init"')
        src += self.observe()
        kinds = ["init"]
        for i in range(1, r.randint(5, max_steps) + 1):
            kind, lines = self.step()
            kinds.append(kind)
            src.append('print "@%d %s"' % (i, kind))
            src += lines
            src += self.observe()
        return "\n".join(src) + "\n", kinds


def gen_history(seed, avoid=(), max_steps=15):
    g = G08(random.Random(seed), avoid)
    src, kinds = g.case(max_steps)
    return src, kinds, sorted(g.features)
