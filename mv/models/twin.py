"""Differential twins for C04 / C18.

Pipeline A:  mscript run x.ms -q
Pipeline B:  C04: compile x.ms --quick ; execute x.mmm
             C18: compile x.ms --output-format raw-text --quick ; mv x.mmm x.transpiled.mmm ;
                  transpile x.transpiled.mmm ; execute x.mmm
Both with H-DUMP.  Compared: stdout text, success/failure (+ failure class), and per (file, function) the
opcode sequence and the argument lists (make_function: first argument equal, rest as a multiset).

Also here: the exhaustive string workload (enumeration, rendering, batching, bisection down to one literal,
attribution of every failing string to its minimal failing subsequence), the small multi-module project
generator, and the opcode-table check of the transpiler."""
import itertools
import os
import zlib
import re
import shutil

from .. import core, tracecheck

MAKE_STR = 7
MAKE_FUNCTION = 12

# Harness self-test only (docs/notes_C04_C18.md, "oracle validation"): post-process pipeline B's observation.
BREAK = os.environ.get("MV_TWIN_BREAK", "")


# ----------------------------------------------------------------------------- pipelines

class Side:
    """What one pipeline showed."""
    __slots__ = ("stage", "res", "steps", "dump", "dump_text", "rejected", "artefacts")

    def __init__(self):
        self.stage, self.res, self.steps, self.dump, self.dump_text = "", None, [], None, None
        self.rejected, self.artefacts = False, {}

    def brief(self):
        return {"failed_stage" if self.res.cls != "ok" else "last_stage": self.stage,
                "steps": [s.brief() for s in self.steps], "artefacts": self.artefacts}


def _read(path, binary=False):
    try:
        if binary:
            with open(path, "rb") as f:
                return f.read()
        with open(path, encoding="utf-8", errors="replace", newline="") as f:
            return f.read()
    except OSError:
        return None


def parse_dump(text):
    """{(normalised file, fn): [(opcode, [args])]}; the last definition wins (as the loader does)."""
    fns, cur, omap = {}, None, {}
    for line in text.split("\n"):
        if not line:
            continue
        if line[0] == "O":
            tracecheck.o_record(line, omap)
        elif line[0] == "F":
            strs = tracecheck._STR.findall(line)
            if len(strs) < 2:
                cur = None
                continue
            cur = []
            fns[(os.path.normpath(tracecheck._unq(strs[0])), tracecheck._unq(strs[1]))] = cur
        elif line[0] == "i" and cur is not None:
            parts = line.split(" ", 2)
            try:
                opcode = int(parts[1])
            except (IndexError, ValueError):
                continue
            opcode = omap.get(opcode, opcode)
            args = [tracecheck._unq(a) for a in tracecheck._STR.findall(parts[2])] if len(parts) > 2 else []
            cur.append((opcode, args))
    return fns


def _is_compile_reject(r):
    # strict on purpose: a `run` that dies while LOADING an imported module's bytecode file also exits 1 without a
    # run-time report, and that is exactly what C04 / C18 look for — only a failure that carries compiler diagnostics
    # puts a program outside the domain (two compile failures compare equal anyway)
    return core.compile_rejected(r) and core.has_compile_diagnostics(r.out + r.err)


def _step(side, stage, argv, d, cpu, dump=False):
    env = {"MSCRIPT_VERIF_DUMP": os.path.join(d, "_dump.log")} if dump else None
    r = core.run(argv, d, env=env, cpu=cpu)
    side.stage, side.res = stage, r
    side.steps.append(r)
    return r


def _finish(side, d):
    side.dump_text = _read(os.path.join(d, "_dump.log"))
    side.dump = parse_dump(side.dump_text) if side.dump_text is not None else None
    return side


SPELL = [False]      # switched on by work_program for C04 only (byte-exact history layouts keep the plain spelling)


def spelled(entry, text):
    """The entry file is named on the command line as `x.ms` or (for every third program text) as `./x.ms`;
    both pipelines of one program use the same spelling."""
    if not SPELL[0] or text is None or "/" in entry:
        return entry
    if isinstance(text, str):
        text = text.encode("utf-8", "replace")
    return "./" + entry if zlib.crc32(text) % 3 == 0 else entry


def pipeline_a(files, entry, cpu=10):
    d = core.case_dir("A")
    try:
        core.write_files(d, files)
        entry = spelled(entry, files.get(entry))
        s = Side()
        r = _step(s, "run", core.ms("run", entry, "-q"), d, cpu, dump=True)
        s.rejected = r.cls != "ok" and _is_compile_reject(r)
        return _finish(s, d)
    finally:
        core.rm(d)


def b04_in(d, entry, cpu=10, keep_artefacts=False, inspect=None):
    """Pipeline B of C04 in directory d as it is (histories run several of these in one directory)."""
    s = Side()
    entry = spelled(entry, _read(os.path.join(d, entry), binary=True))
    r = _step(s, "compile", core.ms("compile", entry, "--quick"), d, cpu)
    if r.cls != "ok":
        s.rejected = _is_compile_reject(r)
        return s
    mmm = entry[:-3] + ".mmm"
    if keep_artefacts or inspect:
        b = _read(os.path.join(d, mmm), binary=True)
        if keep_artefacts:
            s.artefacts["binary_file"] = _show_bytes(b)
        if inspect and b is not None:
            s.artefacts.update(inspect(b))
    _rm_dump(d)
    _step(s, "execute", core.ms("execute", mmm), d, cpu, dump=True)
    return _finish(s, d)


def b18_in(d, entry, cpu=10, keep_artefacts=False, inspect=None, mode="move"):
    """Pipeline B of C18 in directory d as it is.  mode: move   - the listing x.mmm is renamed to x.transpiled.mmm
                                                       copy   - it is copied: the (longer) listing is still at x.mmm
                                                                when `transpile` writes x.mmm
                                                       srcout - sources + compile in d/src, listing moved to
                                                                d/out/x.transpiled.mmm, transpile + execute in d/out
                                                                (a binary of an earlier round stays in d/out)"""
    s = Side()
    src = os.path.join(d, "src") if mode == "srcout" else d
    outd = os.path.join(d, "out") if mode == "srcout" else d
    os.makedirs(outd, exist_ok=True)
    r = _step(s, "compile_raw_text", core.ms("compile", entry, "--output-format", "raw-text", "--quick"), src, cpu)
    if r.cls != "ok":
        s.rejected = _is_compile_reject(r)
        return s
    stem = entry[:-3]
    try:
        if mode == "copy":
            shutil.copyfile(os.path.join(src, stem + ".mmm"), os.path.join(outd, stem + ".transpiled.mmm"))
        else:
            os.makedirs(os.path.dirname(os.path.join(outd, stem)), exist_ok=True)
            os.replace(os.path.join(src, stem + ".mmm"), os.path.join(outd, stem + ".transpiled.mmm"))
    except OSError as ex:
        raise core.Inconclusive("raw-text output missing: %s" % ex)
    if keep_artefacts:
        s.artefacts["text_form"] = _read(os.path.join(outd, stem + ".transpiled.mmm"))
    r = _step(s, "transpile", core.ms("transpile", stem + ".transpiled.mmm"), outd, cpu)
    if keep_artefacts or inspect:
        b = _read(os.path.join(outd, stem + ".mmm"), binary=True)
        if keep_artefacts:
            s.artefacts["binary_file"] = _show_bytes(b)
        if inspect and b is not None:
            s.artefacts.update(inspect(b))
    if r.cls != "ok":
        return s
    _rm_dump(outd)
    _step(s, "execute", core.ms("execute", stem + ".mmm"), outd, cpu, dump=True)
    return _finish(s, outd)


def _rm_dump(d):
    try:
        os.unlink(os.path.join(d, "_dump.log"))
    except OSError:
        pass


B_IN = {"C04": b04_in, "C18": b18_in}


def _fresh_b(prop):
    def run_b(files, entry, cpu=10, keep_artefacts=False, inspect=None):
        d = core.case_dir("B")
        try:
            core.write_files(d, files)
            return B_IN[prop](d, entry, cpu, keep_artefacts, inspect)
        finally:
            core.rm(d)
    return run_b


pipeline_b04 = _fresh_b("C04")
pipeline_b18 = _fresh_b("C18")


def _show_bytes(b):
    if b is None:
        return None
    return b[:3000].decode("latin-1").encode("unicode_escape").decode("ascii")


PIPE_B = {"C04": pipeline_b04, "C18": pipeline_b18}


# ----------------------------------------------------------------------------- comparison

def _fail_class(r):
    c = core.classify_failure(r)
    return (r.cls, c[0], c[1] if c[0] in ("defined", "panic_defined") else "")


def _canon_instr(ins):
    op, args = ins
    if op == MAKE_FUNCTION and args:
        return (op, [args[0]] + sorted(args[1:]))
    return (op, list(args))


def one_line(text, cap=400):
    """Single printable line (loader panics quote raw record bytes, NUL included)."""
    t = " ".join(str(text).split())[:cap]
    return "".join(c if (c.isprintable() or c == " ") else "\\x%02x" % ord(c) if ord(c) < 256 else "\\u%04x" % ord(c)
                   for c in t)


def compare_dumps(da, db):
    """First difference as text, or None."""
    ka, kb = set(da), set(db)
    if ka != kb:
        return "functions loaded differ: only under run %s, only in pipeline B %s" % (
            sorted("%s#%s" % k for k in ka - kb)[:4], sorted("%s#%s" % k for k in kb - ka)[:4])
    for k in sorted(ka):
        fa, fb = da[k], db[k]
        for i in range(max(len(fa), len(fb))):
            ia = _canon_instr(fa[i]) if i < len(fa) else None
            ib = _canon_instr(fb[i]) if i < len(fb) else None
            if ia != ib:
                def show(x):
                    if x is None:
                        return "<no instruction>"
                    return "%s [%s]" % (tracecheck.opname(x[0]),
                                        ", ".join(_short(y) for y in x[1]))
                return "%s#%s instruction %d: run has %s, pipeline B has %s" % (k[0], k[1], i, show(ia), show(ib))
    return None


def _apply_break(b):
    """Self-test: distort what pipeline B showed (never touches /repo)."""
    if not BREAK or b.res is None:
        return
    if BREAK == "lose_arg" and b.dump:
        for k in sorted(b.dump, reverse=True):
            code = b.dump[k]
            for i in range(len(code) - 1, -1, -1):
                if len(code[i][1]) >= 2:
                    code[i] = (code[i][0], code[i][1][:-1])
                    return
    elif BREAK == "trim_arg" and b.dump:
        for code in b.dump.values():
            for i, (op, args) in enumerate(code):
                code[i] = (op, [a.strip() for a in args])
    elif BREAK == "swap_opcode" and b.dump:
        for k in sorted(b.dump):
            code = b.dump[k]
            for i, (op, args) in enumerate(code):
                if op == 18:
                    code[i] = (19, args)
                    return
    elif BREAK == "stdout_cr":
        b.res.out = b.res.out.replace("\r", "")
    elif BREAK == "stdout_lastline":
        ls = b.res.out.split("\n")
        if len(ls) > 2:
            b.res.out = "\n".join(ls[:-2] + [""])
    elif BREAK == "exit_ok" and b.res.cls != "ok":
        b.res.cls = "ok"


def compare(prop, files, entry, cpu=10, a=None, keep_artefacts=False, inspect=None):
    """-> (status, deviations, A, B); status: compared | rejected | inconclusive:<why>.
    deviations: [(kind in exit|stdout|dump, detail)] in that order of precedence."""
    if a is None:
        a = pipeline_a(files, entry, cpu)
    b = PIPE_B[prop](files, entry, cpu, keep_artefacts, inspect)
    status, devs = judge(a, b)
    return status, devs, a, b


PROGRAM_STAGES = ("execute", "run")     # stages whose stdout is the program's output


def _short(text, cap=120):
    r = repr(text)
    return r if len(r) <= cap else r[:cap // 2] + "…(%d chars)…" % len(text) + r[-cap // 2:]


def judge(a, b):
    """Oracle proper: what `run` (a) showed against what pipeline B (b) showed."""
    _apply_break(b)
    for s in (a, b):
        if s.res.cls in ("cpu_timeout", "wall_timeout", "spawn_error"):
            return "inconclusive:%s in stage %s" % (s.res.cls, s.stage), []
    if a.rejected and b.rejected:
        return "rejected", []
    devs = []
    if a.rejected != b.rejected:
        devs.append(("exit", "the compiler rejects the program in one pipeline only (run: %s, pipeline B: %s)"
                     % ("rejected" if a.rejected else "accepted", "rejected" if b.rejected else "accepted")))
        return "compared", devs
    ok_a, ok_b = a.res.cls == "ok", b.res.cls == "ok"
    if ok_a != ok_b:
        bad = b if ok_a else a
        devs.append(("exit", "run %s, pipeline B %s at stage `%s`: %s" % (
            "succeeds" if ok_a else "fails", "succeeds" if ok_b else "fails", b.stage,
            one_line(core.classify_failure(bad.res)[1] or core.classify_failure(bad.res)[0], 240))))
    elif not ok_a:
        ca, cb = _fail_class(a.res), _fail_class(b.res)
        if ca != cb or b.stage not in PROGRAM_STAGES:
            devs.append(("exit", "both fail, differently: run %s, pipeline B (stage `%s`) %s" % (ca, b.stage, cb)))
    b_out = b.res.out if b.stage in PROGRAM_STAGES else ""  # output of the *program*, not of compile/transpile
    if a.res.out != b_out:
        la, lb = a.res.lines(), (b.res.lines() if b.stage in PROGRAM_STAGES else [])
        i = 0
        while i < min(len(la), len(lb)) and la[i] == lb[i]:
            i += 1
        devs.append(("stdout", "stdout differs at line %d: run %s, pipeline B %s" % (
            i + 1, _short(la[i]) if i < len(la) else "<end of output>", _short(lb[i]) if i < len(lb) else "<end of output>")))
    if a.dump is None:
        return "inconclusive:H-DUMP silent under run", []
    if b.dump is None:
        if ok_b:
            return "inconclusive:H-DUMP silent under execute", []
        if not devs:
            devs.append(("dump", "pipeline B loaded no function"))
    else:
        d = compare_dumps(a.dump, b.dump)
        if d:
            devs.append(("dump", d))
    return "compared", devs


_ADDR = re.compile(r"0x[0-9a-fA-F]+")


def canon_out(text):
    """Nondeterministic programs only: object addresses masked, each line's characters sorted and the lines taken
    as a multiset (hash-ordered map iteration reorders both)."""
    return sorted("".join(sorted(_ADDR.sub("0xADDR", l))) for l in text.split("\n"))


def stdout_is_nondeterministic(files, entry, first_out, cpu=10, tries=4):
    """Re-run pipeline A: does its own stdout vary (hash-ordered maps, addresses, clocks)?"""
    for _ in range(tries):
        a = pipeline_a(files, entry, cpu)
        if a.res.out != first_out:
            return True
    return False


# ----------------------------------------------------------------------------- program worker

def work_program(item):
    """item = (prop, name, files, entry, single_module_only, avoid_kinds)."""
    prop, name, files, entry, single_only, avoid = item
    # (corpus programs keep the plain spelling: `examples/crashes/main.ms` imports ITSELF, and which of its two
    #  copies — entry `./main.ms`, import `main.ms` — is listed last is not the same in the two pipelines)
    SPELL[0] = prop == "C04" and not str(name).startswith(("example:", "test:"))
    try:
        return _work_program(item)
    finally:
        SPELL[0] = False


def _work_program(item):
    prop, name, files, entry, single_only, avoid = item
    res = {"name": name, "status": None, "devs": [], "n_instr": 0, "n_fn": 0, "n_files": 0, "witness": None,
           "str_args": 0, "notes": []}
    a = pipeline_a(files, entry, cpu=5)
    if a.res.cls in ("cpu_timeout", "wall_timeout") or a.res.cpu > 0.5:
        res["status"] = "skipped_long_running"
        return res
    if a.rejected:
        res["status"] = "rejected"
        return res
    if a.dump is None:
        # nothing was ever loaded: the compiler itself crashed (C16's subject) or the hook is silent
        if a.res.cls != "ok" and prop == "C04":
            # ... unless only `run` dies there: the same source through `compile` + `execute` may be fine
            b = PIPE_B[prop](files, entry, 5, False, None)
            if b.stage == "execute" and b.res.cls == "ok" and not b.rejected:
                res["status"] = "compared"
                res["exit"] = a.res.cls
                res["devs"] = [("exit", "`run` dies before anything is loaded (%s: %s), `compile` + `execute` of the same "
                                "source succeed" % (a.res.cls, _short((a.res.err or "").strip().split("\n")[-1] if a.res.err else "")))]
                res["witness"] = {"files": files, "entry": entry, "run": a.res.brief(), "pipeline_B": b.res.brief()}
                return res
        res["status"] = ("compiler_crash" if a.res.cls != "ok" else "inconclusive:H-DUMP silent under run")
        return res
    nfiles = len({k[0] for k in a.dump})
    if single_only and nfiles > 1:
        res["status"] = "skipped_multi_module"
        return res
    if avoid:
        hit = sorted({char_kind(ch) for code in a.dump.values() for _, args in code for arg in args
                      for ch in arg} & set(avoid))
        if hit:
            res["status"] = "avoided_known_string_class"
            res["notes"] = hit
            return res
    status, devs, a, b = compare(prop, files, entry, cpu=5, a=a)
    res["status"] = status
    res["n_fn"] = len(a.dump)
    res["n_files"] = nfiles
    res["n_instr"] = sum(len(c) for c in a.dump.values())
    res["str_args"] = sum(1 for c in a.dump.values() for op, args in c if op == MAKE_STR)
    res["exit"] = a.res.cls
    res["repeated_labels"] = len(repeated_labels(a.dump_text))
    if status != "compared":
        return res
    if devs and devs[0][0] == "stdout":          # (with an exit deviation the stdout difference is its consequence)
        if stdout_is_nondeterministic(files, entry, a.res.out, cpu=5):
            devs = [d for d in devs if d[0] != "stdout"]
            b_out = b.res.out if b.stage in PROGRAM_STAGES else ""
            if canon_out(a.res.out) == canon_out(b_out):
                res["notes"].append("stdout of `run` itself varies between executions: compared modulo addresses "
                                    "and order (multiset of lines, characters within a line sorted)")
            else:
                res["notes"].append("stdout of `run` itself varies between executions and differs from pipeline B "
                                    "beyond addresses/order: stdout undecided")
                res["undecided_stdout"] = True
    if devs:
        special = sorted({char_kind(ch) for code in a.dump.values() for _, args in code for arg in args
                          for ch in arg} - {"plain"})
        devs = [(k, d + " [characters present in this program's instruction arguments: %s]" % ", ".join(special))
                for k, d in devs]
        res["devs"] = devs
        _, _, a2, b2 = compare(prop, files, entry, cpu=5, keep_artefacts=True)
        res["witness"] = {"files": files, "entry": entry, "pipeline": prop, "deviations": devs,
                          "run": a2.brief(), "pipeline_b": b2.brief()}
    return res


# ----------------------------------------------------------------------------- strings

SIGMA = ['"', "\\", " ", "\t", "\n", "\r", "n", "r", "t", "é"]
KIND_OF = {'"': "quote", "\\": "backslash", " ": "space", "\t": "tab", "\n": "lf", "\r": "cr",
           "n": "plain", "r": "plain", "t": "plain", "é": "nonascii"}
PRIORITY = ["backslash", "lf", "cr", "tab", "unicode_space", "quote", "space", "nonascii", "plain"]
# Rust's char::is_whitespace (what split_string_v2 treats as a separator) minus the members of SIGMA
UNICODE_SPACE = set("\x0b\x0c\x85\xa0\u1680\u2028\u2029\u202f\u205f\u3000") | {chr(c) for c in range(0x2000, 0x200b)}
# deterministic extras outside SIGMA (same three roles): other white space the argument tokenizer treats as a separator
EXTRA_VALUES = ["\xa0", "a\xa0b", "\u2003x", "\u3000", "\x0c", "a\x0bb", "\x85", "\u2028", " \xa0", "\u200b",
                # characters that a listing format could give a meaning (comment markers, separators, record
                # markers of the binary format), alone and behind escaped quotes / backslashes
                ";", "a;b", "\";", "a\";b", "\"\";", "\"a\";\"b", "\\;", "\\\";", "#", "\"#x", "a#\"b", "//", "\"//x", "--", "/*x*/",
                "'", "\"'", ",", "\"x\",y", ":", "{", "}", "$", "%", "e", "f x", "-", "-1", "0", "\";\";", "; \"", ";;\"\""]
ESC = {'"': '\\"', "\\": "\\\\", "\n": "\\n", "\r": "\\r", "\t": "\\t"}
ROLES = ("print", "mapkey", "assert")
END = "@@end"


def char_kind(ch):
    return KIND_OF.get(ch) or ("unicode_space" if ch in UNICODE_SPACE else "nonascii" if ord(ch) > 127 else "plain")


def all_values(maxlen):
    for n in range(maxlen + 1):
        for tup in itertools.product(SIGMA, repeat=n):
            yield "".join(tup)


def representable(v):
    """grammar.pest: string = "\"" ~ ("\\\"" | !"\"" ~ ANY)* ~ "\"" — an escaped backslash directly before the
    closing quote is read as an escaped quote, so no literal has a value ending in a backslash."""
    return not v.endswith("\\")


def has_raw_form(v):
    return any(c in v for c in "\t\n\r")


def render(v, raw):
    return '"' + "".join(c if (raw and c in "\t\n\r") else ESC.get(c, c) for c in v) + '"'


def kinds(v):
    ks = {char_kind(c) for c in v}
    return [k for k in PRIORITY if k in ks]


def klass(v):
    ks = kinds(v)
    return "contains_" + ks[0] if ks else "empty"


def nontrivial(v):
    return any(char_kind(c) != "plain" for c in v)


def string_program(role, probes):
    """probes: [(vid, value, raw)].  -> (source, expected make_str arguments of __module__ in order)."""
    out, exp = [], []
    for i, (vid, v, raw) in enumerate(probes):
        lit = render(v, raw)
        if role == "print":
            out.append("print %s" % lit)
            exp.append(v)
        elif role == "mapkey":
            out.append("m_%d = map[str, int] { %s: %d }" % (i, lit, i))
            out.append("print m_%d" % i)
            out.append("print m_%d[%s]" % (i, lit))
            exp += [v, v]
        elif role == "assert":
            out.append("s_%d = %s" % (i, lit))
            out.append("assert s_%d == %s" % (i, lit))
            exp += [v, v]
        else:
            raise ValueError(role)
    out.append('print "%s"' % END)
    exp.append(END)
    return "\n".join(out) + "\n", exp


def _decide(prop, role, probes, out):
    src, exp = string_program(role, probes)
    files = {"main.ms": src}
    status, devs, a, b = compare(prop, files, "main.ms", cpu=10)
    out["programs"] += 1
    single = len(probes) == 1
    problem = None
    if status.startswith("inconclusive"):
        problem = ("inconclusive", status)
    elif status == "rejected":
        problem = ("rejected", "")
    else:
        got = [args[0] if args else None for op, args in (a.dump or {}).get(("main.mmm", "__module__"), [])
               if op == MAKE_STR]
        if got != exp:
            problem = ("mismatch", "compiler decoded the literals as %r, intended %r" % (got[:6], exp[:6]))
        elif devs:
            problem = ("fail", devs)
    if problem is None:
        out["passed"] += len(probes)
        return
    if not single:
        # 200 -> 8 x 25 -> singles: ~1.05 programs per literal when most literals deviate, ~34 per lone deviation
        n = 1 if len(probes) <= 25 else (len(probes) + 7) // 8
        for i in range(0, len(probes), n):
            _decide(prop, role, probes[i:i + n], out)
        return
    vid, v, raw = probes[0]
    if problem[0] == "fail":
        out["fails"].append({"vid": vid, "value": v, "raw": raw, "role": role, "dev": problem[1][0][0],
                             "detail": problem[1][0][1][:300], "all": [k for k, _ in problem[1]]})
    else:
        out[problem[0]].append({"vid": vid, "value": v, "raw": raw, "role": role, "detail": problem[1]})


def work_strings(item):
    prop, role, probes = item
    out = {"role": role, "programs": 0, "passed": 0, "fails": [], "rejected": [], "mismatch": [], "inconclusive": [],
           "n": len(probes)}
    _decide(prop, role, probes, out)
    return out


def string_items(prop, values, batch=200):
    """values: [(vid, value)] -> pmap items, one role per item, `batch` probes each."""
    probes = []
    for vid, v in values:
        probes.append((vid, v, False))
        if has_raw_form(v):
            probes.append((vid, v, True))
    items = []
    for role in ROLES:
        for i in range(0, len(probes), batch):
            items.append((prop, role, probes[i:i + batch]))
    return items, len(probes)


def subsequences(v):
    """Proper subsequences of v, shortest first, then in alphabet order (deterministic)."""
    seen, out = set(), []
    for n in range(0, len(v)):
        for idx in itertools.combinations(range(len(v)), n):
            s = "".join(v[i] for i in idx)
            if s not in seen:
                seen.add(s)
                out.append(s)
    out.sort(key=lambda s: (len(s), [SIGMA.index(c) if c in SIGMA else 100 + ord(c) for c in s]))
    return out


def attribute(fails):
    """Every failing (role, value) is attributed to its minimal failing subsequence in the same role (all strings
    of length <= 3 are always enumerated, so the minimum is exact).  -> {signature_tail: group}."""
    failed = {}
    for f in fails:
        failed.setdefault((f["role"], f["value"]), f)
    groups = {}
    for (role, v), f in sorted(failed.items(), key=lambda kv: (kv[0][0], len(kv[0][1]), kv[1]["vid"])):
        root = f
        for s in subsequences(v):
            if (role, s) in failed:
                root = failed[(role, s)]
                break
        key = "%s:%s:%s" % (role, klass(root["value"]), root["dev"])
        g = groups.setdefault(key, {"root": root, "count": 0, "examples": [], "roots": []})
        g["count"] += 1
        if root is f and len(g["roots"]) < 12:
            g["roots"].append(v)
        if len(g["examples"]) < 6:
            g["examples"].append(v)
    return groups


def string_witness(prop, f):
    """Re-run the single literal with artefacts kept: the replayable witness."""
    src, exp = string_program(f["role"], [(f["vid"], f["value"], f["raw"])])
    files = {"main.ms": src}
    status, devs, a, b = compare(prop, files, "main.ms", cpu=10, keep_artefacts=True)
    return {"files": files, "entry": "main.ms", "pipeline": prop, "role": f["role"], "value": f["value"],
            "value_codepoints": [ord(c) for c in f["value"]], "rendering": "raw" if f["raw"] else "escaped",
            "literal": render(f["value"], f["raw"]), "kinds": kinds(f["value"]),
            "deviations": devs, "run": a.brief(), "pipeline_b": b.brief()}


# ----------------------------------------------------------------------------- project generator (C04)

LAYOUTS = {"flat": ["", "", ""], "sub": ["lib/", "lib/", "lib/"], "nested": ["lib/", "lib/deep/", "lib/deep/x/"]}


def gen_project(n_modules, layout, forms, rng):
    """main.ms + (n_modules - 1) library modules; imports only point downwards in the directory tree (`..` does
    not parse).  forms: 'ns' (import m), 'names' (import a, b from m), 'mixed'.  Every binding name is unique."""
    k = n_modules - 1
    dirs = LAYOUTS[layout][:k]
    mods = []
    for i in range(k):
        mods.append({"i": i + 1, "name": "m%d" % (i + 1), "path": dirs[i] + "m%d.ms" % (i + 1), "dir": dirs[i],
                     "c": rng.randrange(2, 9)})
    files = {}

    def use(imp_dir, m, form, tag, dot):
        rel = os.path.relpath(m["path"][:-3], imp_dir or ".")
        if dot:
            rel = "./" + rel
        i, lines = m["i"], []
        if form == "ns":
            lines.append("import %s" % rel)
            q = m["name"] + "."
        else:
            lines.append("import K%d, f%d, C%d, S%d from %s" % (i, i, i, i, rel))
            q = ""
        lines.append("print %sK%d" % (q, i))
        lines.append("print %sf%d(%d)" % (q, i, rng.randrange(1, 20)))
        lines.append("o%s = %sC%d(%d)" % (tag, q, i, rng.randrange(1, 20)))
        lines.append("print o%s.val%d()" % (tag, i))
        lines.append("print \"%s sees \" + %sS%d" % (tag, q, i))
        return lines

    def pick(j):
        return forms if forms != "mixed" else ("ns", "names")[j % 2]

    for idx, m in enumerate(mods):
        i = m["i"]
        body = []
        # a module may import the modules after it that live in its own directory or below it
        later = [x for x in mods[idx + 1:] if x["dir"].startswith(m["dir"])]
        for j, x in enumerate(later[:2]):
            body += use(m["dir"], x, pick(i + j), "%d_%d" % (i, x["i"]), dot=False)
        body += ["export K%d: int = %d" % (i, 10 * i + m["c"]),
                 "export S%d: str = \"module %d, c=%d\"" % (i, i, m["c"]),
                 "export f%d: fn(int) -> int = fn(a%d: int) -> int {" % (i, i),
                 "\treturn a%d * %d + K%d" % (i, m["c"], i),
                 "}",
                 "export class C%d {" % i,
                 "\tv%d: int" % i,
                 "\tconstructor(self, x%d: int) {" % i,
                 "\t\tself.v%d = x%d" % (i, i),
                 "\t}",
                 "\tfn val%d(self) -> int {" % i,
                 "\t\treturn self.v%d + %d" % (i, m["c"]),
                 "\t}",
                 "}",
                 "print \"init m%d\"" % i]
        files[m["path"]] = "\n".join(body) + "\n"
    main = ["print \"main start\""]
    for j, m in enumerate(mods):
        # one `./` spelling only (a module reached under two spellings is loaded as two instances: C11's subject)
        main += use("", m, pick(j), "0_%d" % m["i"], dot=(layout == "nested" and m["i"] == 1 and n_modules == 2))
    main.append("print \"main end\"")
    files["main.ms"] = "\n".join(main) + "\n"
    return files


def project_cases(rng, n_random):
    """[(shape name, files)]: all 27 (modules x layout x forms) shapes, then `n_random` more draws."""
    cases = []
    for n in (2, 3, 4):
        for layout in ("flat", "sub", "nested"):
            for forms in ("ns", "names", "mixed"):
                cases.append(("project/%dmod/%s/%s" % (n, layout, forms), gen_project(n, layout, forms, rng)))
    # an IMPORTED module (the only kind `run` reads back through the file loader's code path) whose instruction
    # arguments are long runs of 2-, 3- and 4-byte characters behind 0-3 ASCII bytes: every fixed byte offset falls
    # inside a character for some of them
    for width, ch in ((2, "é"), (3, "日"), (4, "😀")):
        lines = []
        for pad in range(0, 4):
            lines.append('export s%d_%d: str = "%s"' % (width, pad, "a" * pad + ch * 40))
        lines.append('export all%d: fn() -> int = fn() -> int {\n  return %s\n}' % (
            width, " + ".join("s%d_%d.len()" % (width, pad) for pad in range(4))))
        main = "import lib\n" + "".join("print lib.s%d_%d\n" % (width, pad) for pad in range(4)) + "print lib.all%d()\n" % width
        cases.append(("project/long_nonascii_arguments/utf8x%d" % width, {"main.ms": main, "lib.ms": "\n".join(lines) + "\n"}))
        main2 = "import %s from lib\n" % ", ".join("s%d_%d" % (width, pad) for pad in range(4)) + \
                "".join("print s%d_%d\n" % (width, pad) for pad in range(4))
        cases.append(("project/long_nonascii_arguments/utf8x%d/names" % width, {"main.ms": main2, "lib.ms": "\n".join(lines) + "\n"}))
    for _ in range(n_random):
        n, layout, forms = rng.choice((2, 3, 4)), rng.choice(sorted(LAYOUTS)), rng.choice(("ns", "names", "mixed"))
        cases.append(("project/%dmod/%s/%s" % (n, layout, forms), gen_project(n, layout, forms, rng)))
    return cases


# ----------------------------------------------------------------------------- opcode table (C18)

_CONST = re.compile(r"^\s+([A-Z][A-Z0-9_]*)\s+(\d+)\s*$", re.M)


def opcode_table():
    """[(opcode byte, name)] — the table of the binary under test itself (the `O` records of its hook output): the
    byte the LOADER maps to each instruction name is the byte the transpiler has to write for that name."""
    return sorted((b, n) for n, b in tracecheck.real_table().items())


ARG_FORMS = [("none", [], ""), ("quoted", ["x1", "y2"], ' "x1" "y2"'), ("bare", ["x1", "2"], " x1 2"),
             ("quoted_space", ["p q", "z"], ' "p q" "z"')]
# argument-list shapes the string workload cannot reach (it only produces single-argument make_str): carried by
# one neutral instruction, `breakpoint`
ARG_LIST_FORMS = [("empty_then_word", ["", "x"], ' "" "x"'), ("word_then_empty", ["x", ""], ' "x" ""'),
                  ("two_empty", ["", ""], ' "" ""'), ("single_empty", [""], ' ""'),
                  ("three_mixed", ["a", "b c", "d"], ' "a" "b c" "d"'), ("nonascii", ["é", "ü ö"], ' "é" "ü ö"'),
                  ("many", [str(i) for i in range(12)], "".join(' "%d"' % i for i in range(12)))]
DEPRECATED = ("nop", "char", "endif")       # bytecode_dev_transpiler::is_instruction_deprecated


def work_opcode(item):
    index, name, form, args, text_args = item
    d = core.case_dir("op")
    try:
        core.write_files(d, {"t.transpiled.mmm": "function __module__\n\t%s%s\nend\n" % (name, text_args)})
        r = core.run(core.ms("transpile", "t.transpiled.mmm"), d, cpu=10)
        res = {"name": name, "index": index, "form": form, "problem": None, "detail": "", "refused": False}
        if r.cls in ("cpu_timeout", "wall_timeout", "spawn_error"):
            res["problem"], res["detail"] = "inconclusive", r.cls
            return res
        if r.cls != "ok":
            if name in DEPRECATED and "deprecated" in r.err:
                res["refused"] = True
                return res
            res["problem"], res["detail"] = "refused", (r.err.strip() or r.out.strip())[-300:]
            return res
        b = _read(os.path.join(d, "t.mmm"), binary=True) or b""
        head = b"f __module__\0"
        res["binary"] = _show_bytes(b)
        # The byte layout of a .mmm file is the business of writer and loader together (a header record, another
        # framing are legitimate as long as both agree): what is decided here is what the LOADER of the same build
        # reads back — the instruction with this name and exactly these arguments.  The raw bytes are kept for the
        # witness only.
        if b.startswith(head) and b.endswith(b"e\0") and len(b) >= len(head) + 4 and b[len(head)] != index:
            res["raw_byte_note"] = "instruction `%s` (opcode %d in the loader's table) was written as byte %d" % (name, index, b[len(head)])
        r2 = core.run(core.ms("execute", "t.mmm"), d, env={"MSCRIPT_VERIF_DUMP": os.path.join(d, "_dump.log")}, cpu=10)
        text = _read(os.path.join(d, "_dump.log"))
        loaded = parse_dump(text).get(("t.mmm", "__module__")) if text else None
        if BREAK == "lose_arg" and loaded and loaded[0][1]:
            loaded = [(loaded[0][0], loaded[0][1][:-1])]
        cindex = tracecheck.canon_op(name)       # parse_dump reports canonical opcode indexes (mapped through the names)
        if loaded is None:
            res["problem"], res["detail"] = "load_failed", (r2.err.strip())[-300:]
        elif loaded != [(cindex, args)]:
            res["problem"] = "args_changed" if loaded and loaded[0][0] == cindex else "wrong_opcode_loaded"
            res["detail"] = "text form `%s%s` was loaded as %r, expected %r%s" % (
                name, text_args, [(tracecheck.opname(o), a) for o, a in loaded], [(name, args)],
                (" — " + res["raw_byte_note"]) if res.get("raw_byte_note") else "")
        return res
    finally:
        core.rm(d)


# ----------------------------------------------------------------------------- replay

def read_files(root):
    files = {}
    for dirpath, _, names in os.walk(root):
        for n in names:
            p = os.path.join(dirpath, n)
            with open(p, encoding="utf-8", newline="") as f:      # newline="": keep raw CR / LF of the witness
                files[os.path.relpath(p, root)] = f.read()
    return files


# ----------------------------------------------------------------------------- aggregation (engine side)

def known_kinds(ctx, prop):
    """Avoidance rule: character classes of string findings listed in known_findings.json for this property."""
    ks = set()
    for sig in ctx.known:
        parts = sig.split(":")
        if len(parts) >= 5 and parts[0] == prop and parts[1] == "string" and parts[3].startswith("contains_"):
            ks.add(parts[3][len("contains_"):])
    return sorted(ks)


def collect_programs(prop, out, items, sig_of):
    """Runs work_program over items; fills `out`; returns coverage counters.  sig_of(name) -> signature middle."""
    cov = {}
    results = core.pmap(work_program, items, chunksize=2)
    for (status, res), item in zip(results, items):
        name = item[1]
        group = name.split(":", 1)[0].split("/", 1)[0]
        if status != "ok":
            out.inconclusive.append("%s: %s" % (name, str(res)[-400:]))
            continue
        st = res["status"]
        key = "%s.%s" % (group, st.split(":", 1)[0])
        cov[key] = cov.get(key, 0) + 1
        if st.startswith("inconclusive"):
            out.inconclusive.append("%s: %s" % (name, st))
            continue
        if st != "compared":
            continue
        out.evaluations += 1
        cov[group + ".instructions_compared"] = cov.get(group + ".instructions_compared", 0) + res["n_instr"]
        cov[group + ".functions_compared"] = cov.get(group + ".functions_compared", 0) + res["n_fn"]
        cov[group + ".string_arguments_compared"] = cov.get(group + ".string_arguments_compared", 0) + res["str_args"]
        if res["n_files"] > 1:
            cov[group + ".multi_module"] = cov.get(group + ".multi_module", 0) + 1
        if res.get("repeated_labels"):
            cov[group + ".programs_with_repeated_labels"] = cov.get(group + ".programs_with_repeated_labels", 0) + 1
        if res.get("exit") != "ok":
            cov[group + ".failing_at_run_time_in_both"] = cov.get(group + ".failing_at_run_time_in_both", 0) + (
                0 if res["devs"] else 1)
        if res["notes"]:
            cov[group + ".stdout_nondeterministic"] = cov.get(group + ".stdout_nondeterministic", 0) + 1
        if res.get("undecided_stdout"):
            out.inconclusive.append("%s: %s" % (name, res["notes"][-1]))
        if res["n_instr"] >= 5:
            out.distinct.add(core.h(item[2]))
        if res["devs"]:
            dev, detail = res["devs"][0]
            out.violations.append(core.Violation("%s:%s:%s" % (prop, sig_of(name), dev),
                                                 "%s: %s" % (name, detail), res["witness"]))
    return cov


def collect_strings(prop, ctx, out, n_sample4=400, batch=200):
    values = list(enumerate(all_values(4)))
    rep = [(i, v) for i, v in values if representable(v)]
    unrep = [(i, v) for i, v in values if not representable(v)]
    if ctx.quick:
        short = [(i, v) for i, v in rep if len(v) <= 3]
        long_ = [(i, v) for i, v in rep if len(v) == 4]
        chosen = short + sorted(ctx.rng("len4").sample(long_, n_sample4))
        unrep = [(i, v) for i, v in unrep if len(v) <= 3]
    else:
        chosen = rep
    chosen = chosen + [(len(values) + i, v) for i, v in enumerate(EXTRA_VALUES)]
    items, n_probes = string_items(prop, chosen, batch)
    # values ending in a backslash: no literal denotes them (see representable); their would-be literals are
    # submitted as well, in batches of their own — the compiler must reject every one of them
    items_u, n_probes_u = string_items(prop, unrep, 16)
    items = items + items_u
    results = core.pmap(work_strings, items, chunksize=1)
    fails, rejected, mismatch = [], [], []
    programs = passed = 0
    per_role = {}
    for (status, res), item in zip(results, items):
        if status != "ok":
            out.inconclusive.append("string batch %s[%d]: %s" % (item[1], len(item[2]), str(res)[-400:]))
            continue
        programs += res["programs"]
        passed += res["passed"]
        fails += res["fails"]
        rejected += res["rejected"]
        mismatch += res["mismatch"]
        r = per_role.setdefault(res["role"], {"probes": 0, "agree": 0, "deviate": 0})
        r["probes"] += res["n"]
        r["agree"] += res["passed"]
        r["deviate"] += len(res["fails"])
        for x in res["inconclusive"]:
            out.inconclusive.append("string %r as %s: %s" % (x["value"], x["role"], x["detail"]))
    # one evaluation = one (value, rendering, role) case decided by comparing real executions of both pipelines
    # (up to 200 cases share one pair of executions; the number of executed pairs is reported separately)
    out.evaluations += passed + len(fails)
    for role in ROLES:
        for i, v in chosen:
            if nontrivial(v):
                out.distinct.add(core.h(["string", role, v]))
    expected_rejected = {v for _, v in unrep}
    for x in rejected:
        if x["value"] not in expected_rejected:
            out.inconclusive.append("generator: the compiler rejects literal %s (%s)" % (render(x["value"], x["raw"]), x["role"]))
    accepted_unrep = sorted({f["value"] for f in fails if f["value"] in expected_rejected})
    rejected_expected = sum(1 for x in rejected if x["value"] in expected_rejected)
    for x in mismatch:
        out.inconclusive.append("generator: literal %r as %s: %s" % (render(x["value"], x["raw"]), x["role"], x["detail"]))
    groups = attribute(fails)
    for key, g in sorted(groups.items()):
        root = g["root"]
        w = string_witness(prop, root)
        w["strings_attributed_to_this_root_cause"] = g["count"]
        w["minimal_failing_strings"] = g["roots"]
        w["other_examples"] = g["examples"]
        what = ("string literal %s (value %r) as %s: %s — %d deviating (role, string) pairs are attributed to this "
                "class (their minimal failing subsequence has it)" % (
                    render(root["value"], root["raw"]), root["value"], root["role"], root["detail"], g["count"]))
        out.violations.append(core.Violation("%s:string:%s" % (prop, key), what, w))
    by_kind = {k: {"probes": 0, "deviating": 0} for k in PRIORITY + ["empty"]}
    for _, _, probes in items[:len(items) - len(items_u)]:
        for _, v, _ in probes:
            for k in (kinds(v) or ["empty"]):
                by_kind[k]["probes"] += 1
    for f in fails:
        for k in (kinds(f["value"]) or ["empty"]):
            by_kind[k]["deviating"] += 1
    no_bs = sum(1 for f in fails if "\\" not in f["value"])
    pure = {k: {"probes": 0, "deviating": 0} for k in PRIORITY}
    for _, _, probes in items[:len(items) - len(items_u)]:
        for _, v, _ in probes:
            ks = [k for k in kinds(v) if k != "plain"] or ["plain"]
            if len(ks) == 1 and v:
                pure[ks[0]]["probes"] += 1
    for f in fails:
        ks = [k for k in kinds(f["value"]) if k != "plain"] or ["plain"]
        if len(ks) == 1 and f["value"] not in expected_rejected:
            pure[ks[0]]["deviating"] += 1
    cov = {"string_values_enumerated": len(values), "string_values_without_a_literal(end in backslash)":
           len(values) - len(rep), "string_values_probed": len(chosen), "string_extra_values_outside_alphabet": EXTRA_VALUES, "string_probes(value x rendering)": n_probes,
           "string_probes_x_roles": n_probes * len(ROLES), "string_programs_executed(pipeline pairs)": programs,
           "string_probes_agreeing": passed, "string_probes_deviating": len(fails),
           "string_literals_rejected_by_compiler": len(rejected),
           "string_literals_rejected_as_expected(value ends in backslash; probes x roles)": rejected_expected,
           "string_literals_expected_rejected_submitted(probes x roles)": n_probes_u * len(ROLES),
           "string_values_ending_in_backslash_accepted_by_compiler": accepted_unrep,
           "string_literals_rejected_examples": [render(x["value"], x["raw"]) for x in rejected[:3]],
           "string_per_role": per_role, "string_probes_by_kind_of_character_present(all roles)": by_kind,
           "string_probes_whose_only_special_kind_is(n/r/t ignored; all roles)": pure,
           "string_probes_deviating_without_backslash": no_bs,
           "string_space_enumerated_completely(len<=4)": not ctx.quick,
           "string_len4_sample": 0 if not ctx.quick else n_sample4}
    return cov, chosen


def collect_opcodes(prop, out):
    table = opcode_table()
    items = [(i, n, form, args, text) for i, n in table for form, args, text in ARG_FORMS]
    n_table = len(items)
    carrier = "breakpoint" if "breakpoint" in tracecheck.real_table() else table[-1][1]
    bp = tracecheck.real_table()[carrier]
    items += [(bp, carrier, "list:" + form, args, text) for form, args, text in ARG_LIST_FORMS]
    results = core.pmap(work_opcode, items, chunksize=4)
    refused, checked = set(), 0
    for (status, res), item in zip(results, items):
        if status != "ok":
            out.inconclusive.append("opcode %s: %s" % (item[1], str(res)[-300:]))
            continue
        if res["problem"] == "inconclusive":
            out.inconclusive.append("opcode %s: %s" % (item[1], res["detail"]))
            continue
        out.evaluations += 1
        if res["refused"]:
            refused.add(res["name"])
            continue
        checked += 1
        out.distinct.add(core.h(["opcode", res["name"], res["form"]]))
        if res["problem"]:
            sig = ("%s:args:%s:%s" % (prop, res["form"][5:], res["problem"]) if res["form"].startswith("list:") else
                   "%s:opcode:%s:%s:%s" % (prop, res["name"], res["form"], res["problem"]))
            out.violations.append(core.Violation(
                sig,
                "instruction `%s` with %s arguments: %s" % (res["name"], res["form"], res["detail"]),
                {"text_file": "function __module__\n\t%s%s\nend\n" % (item[1], item[4]), "opcode_item": list(item),
                 "expected_byte": item[0], "expected_args": item[3], "binary": res.get("binary"),
                 "problem": res["problem"], "detail": res["detail"]}))
    return {"opcode_names_in_table": len(table), "opcode_names_unknown_to_the_harness": sorted(set(n for _, n in table) - set(tracecheck.OPNAMES)),
            "opcode_cases_checked(name x argument form)": checked,
            "argument_list_forms_checked": [f for f, _, _ in ARG_LIST_FORMS],
            "opcode_names_refused_as_deprecated": sorted(refused), "opcode_table_enumerated_completely": True}


# ----------------------------------------------------------------------------- histories (stale output files)
#
# One directory, several compilations to the same .mmm paths: compile A, replace the source by B, compile again,
# execute — the result must be that of `run` B in a fresh directory.  Catches an output file that is not truncated /
# replaced (stale tail of the longer predecessor), for the entry module and for an imported module.

PAD = "@PAD@"


def _long(n, ch="a"):
    return "".join(chr(ord(ch) + (i % 23)) for i in range(n))


def _fns_family(tag, n_fns, first_len, msg, call_only_first=False):
    out = []
    for i in range(n_fns):
        out += ["h%s_%d = fn(w%s_%d: str) -> str {" % (tag, i, tag, i),
                "\treturn \"%s \" + w%s_%d" % (_long(first_len if i == 0 else 24, "b"), tag, i), "}"]
    for i in range(n_fns):
        if call_only_first:          # a stale copy of this module body still links against a successor with one helper
            out.append("print h%s_0(\"%s%d\")" % (tag, tag, i))
            continue
        out.append("print h%s_%d(\"%s%d\")" % (tag, i, tag, i))
    out.append("print \"%s\"" % msg)
    return "\n".join(out) + "\n"


def _cls_family(tag, msg):
    return ("class K%s {\n\tv%s: int\n\tconstructor(self, x%s: int) {\n\t\tself.v%s = x%s\n\t}\n"
            "\tfn val%s(self) -> int {\n\t\treturn self.v%s + 1\n\t}\n\tfn txt%s(self) -> str {\n"
            "\t\treturn \"%s\"\n\t}\n}\no%s = K%s(41)\nprint o%s.val%s()\nprint o%s.txt%s()\nprint \"%s\"\n"
            % (tag, tag, tag, tag, tag, tag, tag, tag, _long(150, "c"), tag, tag, tag, tag, tag, tag, msg))


HIST_SHORT = ("hb_0 = fn(wb_0: str) -> str {\n\treturn \"Bye, \" + wb_0\n}\nprint hb_0(\"short\")\nprint \"B " + PAD + "\"\n")
HIST_LIB_A = ("hidden_a = fn(q_a: int) -> int {\n\treturn q_a + 1\n}\nhidden_b = fn(q_b: str) -> str {\n\treturn \"%s\" + q_b\n}\n"
              "export KL: int = hidden_a(9)\nexport fl: fn(int) -> int = fn(a_l: int) -> int {\n\treturn a_l * 3 + KL\n}\n"
              "print hidden_b(\" lib A\")\nprint \"lib A init %s\"\n" % (_long(140, "d"), _long(60, "e")))
HIST_LIB_B = ("export KL: int = 10\nexport fl: fn(int) -> int = fn(a_l: int) -> int {\n\treturn a_l * 3 + KL\n}\n"
              "print \"lib B " + PAD + "\"\n")
HIST_MAIN = "import lib_h\nprint lib_h.KL\nprint lib_h.fl(4)\nprint \"main done\"\n"


def mmm_layout(b):
    """(size, offsets where a function starts, offsets where any other record starts)"""
    fstarts, rstarts, pos, in_fn = [], [], 0, False
    while pos < len(b):
        end = b.find(b"\0", pos)
        if end < 0:
            break
        rec = b[pos:end + 1]
        if not in_fn and rec[:2] == b"f ":
            fstarts.append(pos)
            in_fn = True
        else:
            rstarts.append(pos)
            if in_fn and rec[:1] == b"e":
                in_fn = False
        pos = end + 1
    return len(b), fstarts, rstarts


def measure(files, entry, target, prop="C04"):
    """Bytes of <target> as pipeline B of `prop` produces it in a fresh directory (entry file: through the whole
    flow, so for C18 it is the transpiler's output; an imported module: written by `compile`)."""
    if target == entry[:-3] + ".mmm":
        side = PIPE_B[prop](files, entry, 10, False, lambda b: {"_raw": b})
        b = side.artefacts.get("_raw")
        if b is None or side.stage != "execute":
            raise core.Inconclusive("history: cannot measure %s (stage %s)" % (target, side.stage))
        return b
    d = core.case_dir("M")
    try:
        core.write_files(d, files)
        r = core.run(core.ms("compile", entry, "--quick"), d, cpu=10)
        b = _read(os.path.join(d, target), binary=True)
        if r.cls != "ok" or b is None:
            raise core.Inconclusive("history: cannot measure %s (%s): %s" % (target, r.cls, one_line(r.out + r.err, 200)))
        return b
    finally:
        core.rm(d)


def history_catalogue():
    """[(kind, family, relation, spec)] — deterministic."""
    cases = []
    rel_entry = ["much_shorter", "shorter_1", "shorter_9", "same", "longer_1", "record_boundary"] + \
                ["fn_boundary_%d" % k for k in range(1, 6)]
    fams = {"fns": _fns_family("a", 4, 120, "version A " + _long(70, "f")),
            "fns_call0": _fns_family("a", 3, 60, "version A " + _long(30, "f"), call_only_first=True), "cls": _cls_family("a", "version A " + _long(40, "g"))}
    for fam, a_src in sorted(fams.items()):
        for rel in rel_entry:
            cases.append(("entry", fam, rel, {"a": {"main.ms": a_src}, "b": {"main.ms": HIST_SHORT}, "target": "main.mmm",
                                              "order": "AB"}))
        cases.append(("entry", fam, "reverse_longer_over_shorter", {"a": {"main.ms": a_src}, "b": {"main.ms": HIST_SHORT},
                                                                     "target": "main.mmm", "order": "BA"}))
        a2 = a_src.replace("version A ", "v A' ")
        for rel in ("much_shorter", "fn_boundary_2", "shorter_1"):
            cases.append(("entry3", fam, rel, {"a": {"main.ms": a_src}, "b": {"main.ms": HIST_SHORT}, "a2": {"main.ms": a2},
                                               "target": "main.mmm", "order": "ABA"}))
        # C18 only: an x.mmm is already there when `transpile` writes it
        for rel in rel_entry:
            cases.append(("srcout", fam, rel, {"a": {"main.ms": a_src}, "b": {"main.ms": HIST_SHORT}, "target": "main.mmm",
                                               "order": "AB", "exec": "srcout"}))
        cases.append(("srcout", fam, "reverse_longer_over_shorter", {"a": {"main.ms": a_src}, "b": {"main.ms": HIST_SHORT},
                                                                      "target": "main.mmm", "order": "BA", "exec": "srcout"}))
        cases.append(("srcout3", fam, "much_shorter", {"a": {"main.ms": a_src}, "b": {"main.ms": HIST_SHORT}, "a2": {"main.ms": a2},
                                                       "target": "main.mmm", "order": "ABA", "exec": "srcout"}))
        for order in ("A", "AB", "BA"):
            cases.append(("copy", fam, "listing_left_in_place_" + order, {"a": {"main.ms": a_src}, "b": {"main.ms": HIST_SHORT},
                                                                           "target": "main.mmm", "order": order, "exec": "copy"}))
    lib = {"a": {"main.ms": HIST_MAIN, "lib_h.ms": HIST_LIB_A}, "b": {"main.ms": HIST_MAIN, "lib_h.ms": HIST_LIB_B},
           "target": "lib_h.mmm"}
    for via in ("module", "module_run"):
        for rel in ["much_shorter", "shorter_1", "same", "longer_1", "record_boundary"] + ["fn_boundary_%d" % k for k in range(1, 4)]:
            cases.append((via, "lib", rel, dict(lib, order="AB")))
        cases.append((via, "lib", "reverse_longer_over_shorter", dict(lib, order="BA")))
        cases.append((via, "lib", "much_shorter", dict(lib, order="ABA", a2={"main.ms": HIST_MAIN, "lib_h.ms":
                                                                               HIST_LIB_A.replace("lib A init ", "A' ")})))
    return cases


def _padded(files, n):
    return {k: v.replace(PAD, "p" * n) for k, v in files.items()}


def work_history(item):
    """item = (prop, kind, family, relation, spec).  Returns a small summary."""
    prop, kind, fam, rel, spec = item
    res = {"case": "%s/%s" % (kind, fam), "relation": rel, "status": "compared", "devs": [], "steps": 0, "witness": None,
           "sizes": None}
    entry = "main.ms"
    if "steps" in spec:                                   # random history: sources given
        steps = spec["steps"]
    else:
        a_files, target = spec["a"], spec["target"]
        a_bytes = measure(a_files, entry, target, prop)
        size_a, fstarts, rstarts = mmm_layout(a_bytes)
        s0 = len(measure(_padded(spec["b"], 0), entry, target, prop))
        want = None
        if rel in ("much_shorter", "reverse_longer_over_shorter") or rel.startswith("listing_left_in_place"):
            want = s0
        elif rel.startswith("shorter_"):
            want = size_a - int(rel.split("_")[1])
        elif rel == "same":
            want = size_a
        elif rel == "longer_1":
            want = size_a + 1
        elif rel.startswith("fn_boundary_"):
            k = int(rel.rsplit("_", 1)[1])
            cands = [o for o in fstarts if o >= s0]
            want = cands[k - 1] if len(cands) >= k else None
        elif rel == "record_boundary":
            cands = [o for o in rstarts if o >= s0 + 3]
            want = cands[len(cands) // 2] if cands else None
        if want is None or want < s0:
            res["status"] = "unreachable_relation"
            return res
        b_files = _padded(spec["b"], want - s0)
        got = len(measure(b_files, entry, target, prop))
        if got != want:
            raise core.Inconclusive("history: padded B is %d bytes, wanted %d" % (got, want))
        res["sizes"] = {"A": size_a, "B": got, "A_function_starts": fstarts}
        steps = {"A": [a_files], "AB": [a_files, b_files], "BA": [b_files, a_files],
                 "ABA": [a_files, b_files, spec.get("a2", a_files)]}[spec["order"]]
    d = core.case_dir("H")
    try:
        how = spec.get("exec") or ("run" if kind == "module_run" else "b")
        for i, files in enumerate(steps):
            core.write_files(os.path.join(d, "src") if how == "srcout" else d, files)
            if how == "run":
                _rm_dump(d)
                b = Side()
                r = _step(b, "run", core.ms("run", entry, "-q"), d, 10, dump=True)
                b.rejected = r.cls != "ok" and _is_compile_reject(r)
                _finish(b, d)
            elif how in ("copy", "srcout"):
                b = b18_in(d, entry, 10, keep_artefacts=True, mode=how)
            else:
                b = B_IN[prop](d, entry, 10, keep_artefacts=True)
            a = pipeline_a(files, entry, 10)
            status, devs = judge(a, b)
            res["steps"] += 1
            if status != "compared":
                res["status"] = status if status.startswith("inconclusive") else "rejected"
                return res
            if devs:
                what = ("after step %d of %d (%s the same directory, sources replaced in place)" % (
                    i + 1, len(steps), {"run": "`run` in", "copy": "pipeline B, listing copied instead of renamed, in",
                                        "srcout": "pipeline B with src/ and out/ under"}.get(how, "pipeline B in")))
                res["devs"] = [(k, "%s: %s" % (what, t)) for k, t in devs]
                res["witness"] = {"history": [dict(f) for f in steps[:i + 1]], "files": files, "entry": entry,
                                  "pipeline": prop, "kind": kind, "exec": how, "relation": rel, "sizes": res["sizes"], "deviations": res["devs"],
                                  "run_fresh": a.brief(), "pipeline_b_in_history_dir": b.brief()}
                return res
        return res
    finally:
        core.rm(d)


def collect_histories(prop, out, extra_items=()):
    items = [(prop, kind, fam, rel, spec) for kind, fam, rel, spec in history_catalogue()]
    if prop == "C18":          # raw-text is only produced for the entry; `run`-only histories belong to C04
        items = [it for it in items if it[1] != "module_run"]
    else:                      # copy / src+out layouts are about the transpiler's output file
        items = [it for it in items if not it[4].get("exec")]
    items += list(extra_items)
    results = core.pmap(work_history, items, chunksize=1)
    cov = {"history_cases": 0, "history_steps_compared": 0, "history_unreachable_relations": 0, "history_relations": set(),
           "history_rejected": 0}
    for (status, res), item in zip(results, items):
        name = "history:%s/%s:%s" % (item[1], item[2], item[3])
        if status != "ok":
            out.inconclusive.append("%s: %s" % (name, str(res)[-300:]))
            continue
        if res["status"] == "unreachable_relation":
            cov["history_unreachable_relations"] += 1
            continue
        if res["status"] == "rejected":
            cov["history_rejected"] += 1
            continue
        if res["status"].startswith("inconclusive"):
            out.inconclusive.append("%s: %s" % (name, res["status"]))
            continue
        cov["history_cases"] += 1
        cov["history_steps_compared"] += res["steps"]
        cov["history_relations"].add("%s:%s" % (item[1], item[3]))
        out.evaluations += res["steps"]
        out.distinct.add(core.h(["history", item[1], item[2], item[3], item[4].get("order"), item[4].get("steps")]))
        if res["devs"]:
            dev, detail = res["devs"][0]
            sig = ("%s:history:random:%s" % (prop, dev) if item[1] == "random" else
                   "%s:history:%s/%s:%s:%s" % (prop, item[1], item[2], item[3], dev))
            out.violations.append(core.Violation(sig, "%s %s" % (name, detail), res["witness"]))
    cov["history_relations"] = sorted(cov["history_relations"])
    return cov


def replay_history(prop, w):
    kind = w.get("kind", "entry")
    spec = {"steps": w["history"]}
    if w.get("exec") in ("copy", "srcout"):
        spec["exec"] = w["exec"]
    res = work_history((prop, kind, "replay", w.get("relation", ""), spec))
    return res


# ----------------------------------------------------------------------------- large files (block boundaries)
#
# Bytecode files of 9-140 KiB made almost entirely of 2-, 3- and 4-byte characters, in alignment variants (ASCII prefix
# of 0..3 bytes), so that some character's encoding straddles every multiple of 4096 of the file in some variant.

WIDE = {2: "éßΩñ", 3: "€日あ‰", 4: "😀𝄞🜁𐍈"}


def large_program(shape, width, kib, pad):
    chars = WIDE[width] if width else WIDE[2] + WIDE[3] + WIDE[4]
    target = kib * 1024
    pre = "x" * pad
    if shape == "one_string":
        n = target // (width or 3)
        body = "".join(chars[i % len(chars)] for i in range(n))
        return "print \"%s%s\"\nprint \"@@end\"\n" % (pre, body)
    if shape == "map_key":
        n = target // (width or 3)
        body = "".join(chars[(i * 7) % len(chars)] for i in range(n))
        return "mL = map[str, int] { \"%s%s\": 7 }\nprint mL\nprint \"@@end\"\n" % (pre, body)
    out, size, i = ["print \"%s\"" % pre], 0, 0
    while size < target:                                  # many_strings: realistic, ASCII record framing in between
        n = 40 + (i * 13) % 50
        s = "".join(chars[(i + j * (1 + i % 3)) % len(chars)] for j in range(n))
        out.append("print \"%s\"" % s if i % 5 else "t%d = \"%s\"\nprint t%d + \"|\"" % (i, s, i))
        size += len(s.encode()) + 12
        i += 1
    out.append("print \"@@end\"")
    return "\n".join(out) + "\n"


def _straddles(b):
    """Multiples of 4096 (< size) that fall strictly inside the UTF-8 encoding of a character."""
    return {"size": len(b), "straddled": [o for o in range(4096, len(b), 4096) if (b[o] & 0xC0) == 0x80]}


def large_items(prop, quick):
    items = []
    if quick:
        plan = [("one_string", w, 18, p) for w in (2, 3, 4) for p in range(w)] + \
               [("one_string", 3, 70, p) for p in range(3)] + \
               [("many_strings", 0, 20, p) for p in range(4)] + [("map_key", 0, 10, p) for p in range(4)]
    else:
        plan = [("one_string", w, k, p) for w in (2, 3, 4) for k in (9, 18, 33, 41, 70, 140) for p in range(4)] + \
               [(sh, 0, k, p) for sh in ("many_strings", "map_key", "one_string") for k in (10, 20, 40, 70) for p in range(8)]
    for shape, w, kib, pad in plan:
        items.append((prop, shape, w, kib, pad))
    return items


def work_large(item):
    prop, shape, w, kib, pad = item
    files = {"main.ms": large_program(shape, w, kib, pad)}
    status, devs, a, b = compare(prop, files, "main.ms", cpu=20, inspect=_straddles)
    res = {"status": status, "devs": devs, "size": b.artefacts.get("size"), "straddled": b.artefacts.get("straddled", []),
           "witness": None}
    if devs:
        res["witness"] = {"files": files, "entry": "main.ms", "pipeline": prop, "shape": shape, "char_width": w, "kib": kib,
                          "ascii_prefix": pad, "bytecode_size": res["size"],
                          "offsets_4096k_inside_a_character": res["straddled"], "deviations": devs,
                          "run": _trim(a.brief()), "pipeline_b": _trim(b.brief())}
    return res


def _trim(brief):
    for s in brief.get("steps", []):
        for k in ("out", "err"):
            if len(s.get(k, "")) > 600:
                s[k] = s[k][:300] + " …(%d chars)… " % len(s[k]) + s[k][-300:]
    return brief


def collect_large(prop, out, quick):
    items = large_items(prop, quick)
    results = core.pmap(work_large, items, chunksize=1)
    groups, n, biggest = {}, 0, 0
    for (status, res), item in zip(results, items):
        name = "large:%s/utf8x%s/%dKiB/pad%d" % (item[1], item[2] or "mixed", item[3], item[4])
        if status != "ok":
            out.inconclusive.append("%s: %s" % (name, str(res)[-300:]))
            continue
        if res["status"] != "compared":
            out.inconclusive.append("%s: %s" % (name, res["status"]))
            continue
        n += 1
        out.evaluations += 1
        biggest = max(biggest, res["size"] or 0)
        g = groups.setdefault((item[1], item[2], item[3]), {"size": 0, "straddled": set()})
        g["size"] = max(g["size"], res["size"] or 0)
        g["straddled"].update(res["straddled"])
        if res["straddled"]:
            out.distinct.add(core.h(["large", item[1:]]))
        if res["devs"]:
            dev, detail = res["devs"][0]
            out.violations.append(core.Violation("%s:large:%s/utf8x%s:%s" % (prop, item[1], item[2] or "mixed", dev),
                                                 "%s (bytecode %s bytes; offsets inside a character: %s): %s" % (
                                                     name, res["size"], res["straddled"][:6], detail), res["witness"]))
    covered, missing = set(), []
    for (shape, w, kib), g in sorted(groups.items()):
        covered.update(g["straddled"])
        if shape == "one_string":
            # keep clear of the ASCII head/tail of the file
            want = [o for o in range(8192, g["size"] - 64, 8192)]
            miss = [o for o in want if o not in g["straddled"]]
            if miss:
                missing.append("%s/utf8x%s/%dKiB: %s" % (shape, w, kib, miss))
    if missing:
        out.inconclusive.append("large files: no alignment variant puts a character across offsets " + "; ".join(missing))
    return {"large_programs_compared": n, "large_biggest_bytecode_bytes": biggest,
            "large_offsets_4096k_straddled_by_a_character_in_some_variant": sorted(covered),
            "large_groups(shape,width,KiB)": len(groups)}


# ----------------------------------------------------------------------------- repeated function labels
#
# Class labels are not scope-qualified (`Name`, `Name::$constructor`, `Name::<method>`): same-named local classes in
# different functions / blocks, or a class called `__fn0`, make the compiler emit one label several times in a module.
# `run`'s in-memory builder and the loader keep the LAST body per label; every pipeline has to carry all of them.

def _dup_class(name, tag, field, consts, extra_method):
    out = ["\tclass %s {" % name, "\t\t%s: int" % field,
           "\t\tconstructor(self, c%s: int) {" % tag, "\t\t\tself.%s = c%s + %d" % (field, tag, consts[0]), "\t\t}",
           "\t\tfn area(self) -> int {", "\t\t\treturn self.%s * %d + %d" % (field, consts[1], consts[2]), "\t\t}"]
    if extra_method:
        out += ["\t\tfn label(self) -> str {", "\t\t\treturn \"%s of %s #\" + self.%s" % (name, tag, field), "\t\t}"]
    return out + ["\t}"]


def duplabel_program(shape, n, use, rng):
    """shape: functions | blocks | fn_named_class;  n: number of same-named declarations;  use: which one(s) run."""
    name = rng.choice(["Shape", "Node", "Acc"])
    out = []
    if shape == "functions":
        for i in range(n):
            extra = rng.random() < 0.5
            out.append("mk%d = fn(p%d: int) -> int {" % (i, i))
            out += _dup_class(name, "f%d" % i, "v%d" % i, [rng.randrange(0, 9), rng.randrange(2, 9), 10 * (i + 1)], extra)
            out += ["\to%d = %s(p%d)" % (i, name, i)]
            if extra:
                out.append("\tprint o%d.label()" % i)
            out += ["\treturn o%d.area()" % i, "}"]
        for i in ({"last": [n - 1], "first": [0], "all": list(range(n)), "middle": [n // 2]}[use]):
            out.append("print \"mk%d -> \" + mk%d(%d)" % (i, i, rng.randrange(1, 9)))
    elif shape == "blocks":
        for i in range(n):
            out.append("if %s {" % ("true" if (use == "all" or (use == "last") == (i == n - 1)) else "false"))
            out += _dup_class(name, "b%d" % i, "w%d" % i, [i, rng.randrange(2, 9), 100 * (i + 1)], False)
            out += ["\tq%d = %s(%d)" % (i, name, rng.randrange(1, 9)), "\tprint q%d.area()" % i, "}"]
    else:                                   # a class whose label collides with a generated function label
        k = rng.randrange(0, 2)
        cls = ["class __fn%d {" % k, "\tz: int", "\tconstructor(self, cz: int) {", "\t\tself.z = cz", "\t}",
               "\tfn area(self) -> int {", "\t\treturn self.z * 7", "\t}", "}"]
        fns = ["g%d = fn(x%d: int) -> int {\n\treturn x%d + %d\n}" % (i, i, i, 11 * (i + 1)) for i in range(2)]
        out += (cls + fns) if use != "first" else (fns + cls)
        out += ["print g0(1)", "print g1(1)", "oz = __fn%d(3)" % k, "print oz.area()"]
    out.append("print \"@@end\"")
    return "\n".join(out) + "\n"


# ----------------------------------------------------------------------------- code that starts at instruction 0 (round 7)
# Parameterless functions (no `arg` prologue) whose FIRST statement is a loop / branch: a back edge, `break` or
# `continue` then lands on instruction #0 of the function.  `run` and `execute` do not run the same set-up around the
# interpreter (logger, thread), so anything computed from `target - 1` shows in one pipeline only.
def first_instruction_cases():
    out = []
    heads = [("while", "while rem > 0 {\n    acc.push(rem)\n    modify rem = rem - 1\n  }"),
             ("while_continue", "while rem > 0 {\n    modify rem = rem - 1\n    if rem == 1 {\n      continue\n    }\n    acc.push(rem)\n  }"),
             ("while_break", "while true {\n    modify rem = rem - 1\n    if rem < 1 {\n      break\n    }\n    acc.push(rem)\n  }"),
             ("from", "from 0 to rem {\n    acc.push(7)\n  }"),
             ("from_named", "from 0 to rem, iq {\n    acc.push(iq)\n  }"),
             ("if_else", "if rem > 2 {\n    acc.push(1)\n  } else {\n    acc.push(2)\n  }"),
             ("nested_while", "while rem > 0 {\n    while rem > 1 {\n      modify rem = rem - 1\n      acc.push(rem)\n    }\n    modify rem = rem - 1\n  }")]
    for hn, head in heads:
        for kind in ("closure", "method", "module_function"):
            if kind == "closure":
                src = ("mk = fn() -> fn() {\n  rem = 3\n  acc: [int...] = []\n  return fn() {\n  %s\n  print acc\n  print rem\n }\n}\ndrain = mk()\ndrain()\ndrain()\n" % head)
            elif kind == "method":
                src = ("rem = 3\nacc: [int...] = []\nclass Dq {\n  constructor(self) {\n  }\n  fn drain(self) {\n  %s\n  print acc\n  print rem\n  }\n}\ndq = Dq()\ndq.drain()\ndq.drain()\n" % head)
            else:
                src = ("rem = 3\nacc: [int...] = []\ndrain = fn() {\n  %s\n  print acc\n  print rem\n}\ndrain()\nrem = 2\ndrain()\n" % head)
            out.append(("first_instruction/%s/%s" % (hn, kind), {"main.ms": src}, "main.ms"))
    # the module itself starting with a loop
    out.append(("first_instruction/while/module", {"main.ms": "while false {\n  print 1\n}\nfrom 0 to 2 {\n  print 2\n}\n"}, "main.ms"))
    return out


# ----------------------------------------------------------------------------- escapes the language does not define (round 7)
# `\0`, `\a`, `\x41`, `\u{41}` … are compile errors on the pinned tree, in every pipeline (outside the domain, which is
# what these programs observe there).  A build that starts to accept one of them has to carry the character through
# every writer and reader like any other: the programs then compare the pipelines like all the rest.
FOREIGN_ESCAPES = ["\\0", "\\a", "\\b", "\\f", "\\v", "\\e", "\\x41", "\\u0041", "\\u{41}", "\\'", "\\/", "\\s", "\\$", "\\{"]


def foreign_escape_cases():
    out = []
    for e in FOREIGN_ESCAPES:
        tag = e[1:].replace("{", "(").replace("}", ")").replace("/", "slash").replace("'", "apostrophe").replace("$", "dollar")
        out.append(("foreign_escape/%s/print" % tag, {"main.ms": 'x = "a%sb"\nprint x\nprint x.len()\nprint "end"\n' % e}, "main.ms"))
        out.append(("foreign_escape/%s/key_and_assert" % tag, {"main.ms": 'm = map[str, int] {\n  "k%s": 1\n}\nprint m.len()\nassert "%s" == "%s"\nprint "end"\n' % (e, e, e)}, "main.ms"))
        out.append(("foreign_escape/%s/only" % tag, {"main.ms": 'print "%s"\nprint "%s%s".len()\n' % (e, e, e)}, "main.ms"))
    return out


def duplabel_cases(rng, n_random):
    cases = []
    for shape, ns, uses in (("functions", (2, 3), ("last", "first", "all", "middle")), ("blocks", (2, 3), ("last", "first", "all")),
                            ("fn_named_class", (2,), ("last", "first"))):
        for n in ns:
            for use in uses:
                cases.append(("duplabel/%s/%d/%s" % (shape, n, use), {"main.ms": duplabel_program(shape, n, use, rng)}, "main.ms"))
    for _ in range(n_random):
        shape = rng.choice(["functions", "functions", "functions", "blocks"])
        n, use = rng.choice((2, 3, 4)), rng.choice(["last", "last", "first", "all", "middle"] if shape == "functions" else ["last", "first"])
        cases.append(("duplabel/%s/%d/%s" % (shape, n, use), {"main.ms": duplabel_program(shape, n, use, rng)}, "main.ms"))
    return cases


def repeated_labels(dump_text):
    """Labels defined more than once in one file, from the raw H-DUMP text (parse_dump keeps only the last body)."""
    seen, rep = {}, set()
    for line in (dump_text or "").split("\n"):
        if line[:1] == "F":
            strs = tracecheck._STR.findall(line)
            if len(strs) >= 2:
                k = (strs[0], strs[1])
                if k in seen:
                    rep.add(tracecheck._unq(strs[1]))
                seen[k] = 1
    return sorted(rep)
