"""A reader for the PEG subset used by compiler/src/grammar.pest and a sentence generator over it.

Grammar subset: rules `name = [_ @ $ !]{ expr }`; sequence `~`, ordered choice `|`, postfix `* + ?`
(`{n}`, `{n,m}`), prefix predicates `! &`, groups, string literals (`^"…"` case-insensitive), character
ranges `'a'..'z'`, built-ins ANY SOI EOI NEWLINE ASCII_* WHITESPACE COMMENT, `//` comments.

Generation is a depth-bounded random walk that *ignores the ordered-choice semantics and all typing*:
a derived sentence is a sentence of the context-free reading of the grammar, so most sentences parse, a
good share reaches the type checker, and type-incorrect combinations abound.  Implicit WHITESPACE is
emitted between the elements of sequences/repetitions exactly where pest allows it (normal rules and
`!{}` rules outside an atomic context; atomicity cascades into called rules).

Coverage units: every rule (production) and every alternative of every `|` node."""
import re

# ----------------------------------------------------------------------------- grammar AST

STR, RANGE, REF, SEQ, CHOICE, REP, NOT, AND = "str", "range", "ref", "seq", "choice", "rep", "not", "and"


class Node:
    __slots__ = ("kind", "a", "b", "kids", "id", "rule")

    def __init__(self, kind, a=None, b=None, kids=None):
        self.kind, self.a, self.b, self.kids = kind, a, b, kids or []
        self.id = None      # index within the rule (pre-order)
        self.rule = None

    def __repr__(self):
        return "%s(%r,%r,%r)" % (self.kind, self.a, self.b, self.kids)


class Rule:
    __slots__ = ("name", "modifier", "expr", "nodes")

    def __init__(self, name, modifier, expr):
        self.name, self.modifier, self.expr = name, modifier, expr
        self.nodes = []


_TOKEN = re.compile(r"""
    (?P<ws>\s+|//[^\n]*|/\*.*?\*/)
  | (?P<ident>[A-Za-z_][A-Za-z0-9_]*)
  | (?P<string>\^?"(?:[^"\\]|\\.)*")
  | (?P<char>'(?:[^'\\]|\\.|\\u\{[0-9A-Fa-f]+\})')
  | (?P<dots>\.\.)
  | (?P<num>\d+)
  | (?P<punct>[={}()~|*+?!&@$_,])
""", re.X | re.S)


def _unescape(body):
    out, i = [], 0
    while i < len(body):
        c = body[i]
        if c != "\\":
            out.append(c)
            i += 1
            continue
        n = body[i + 1]
        if n == "u":
            j = body.index("}", i)
            out.append(chr(int(body[i + 3:j], 16)))
            i = j + 1
            continue
        if n == "x":
            out.append(chr(int(body[i + 2:i + 4], 16)))
            i += 4
            continue
        out.append({"n": "\n", "r": "\r", "t": "\t", "0": "\0", "\\": "\\", '"': '"', "'": "'"}.get(n, n))
        i += 2
    return "".join(out)


def tokenize(text):
    toks, i = [], 0
    while i < len(text):
        m = _TOKEN.match(text, i)
        if not m:
            raise ValueError("grammar: cannot tokenize at %d: %r" % (i, text[i:i + 30]))
        i = m.end()
        kind = m.lastgroup
        if kind == "ws":
            continue
        toks.append((kind, m.group(kind)))
    return toks


class _P:
    def __init__(self, toks):
        self.t, self.i = toks, 0

    def peek(self, k=0):
        return self.t[self.i + k] if self.i + k < len(self.t) else (None, None)

    def take(self, kind=None, val=None):
        tk = self.peek()
        if (kind and tk[0] != kind) or (val and tk[1] != val):
            raise ValueError("grammar: expected %s %s, found %r at token %d" % (kind, val, tk, self.i))
        self.i += 1
        return tk

    def rules(self):
        out = []
        while self.peek()[0] is not None:
            name = self.take("ident")[1]
            self.take("punct", "=")
            modifier = ""
            if self.peek()[1] in ("_", "@", "$", "!"):
                modifier = self.take()[1]
            self.take("punct", "{")
            expr = self.expr()
            self.take("punct", "}")
            out.append(Rule(name, modifier, expr))
        return out

    def expr(self):
        if self.peek()[1] == "|":
            self.take()
        alts = [self.seq()]
        while self.peek()[1] == "|":
            self.take()
            alts.append(self.seq())
        return alts[0] if len(alts) == 1 else Node(CHOICE, kids=alts)

    def seq(self):
        items = [self.term()]
        while self.peek()[1] == "~":
            self.take()
            items.append(self.term())
        return items[0] if len(items) == 1 else Node(SEQ, kids=items)

    def term(self):
        tk = self.peek()
        if tk[1] == "!" and tk[0] == "punct":
            self.take()
            return Node(NOT, kids=[self.term()])
        if tk[1] == "&":
            self.take()
            return Node(AND, kids=[self.term()])
        node = self.primary()
        while True:
            tk = self.peek()
            if tk[1] == "*":
                self.take()
                node = Node(REP, 0, None, [node])
            elif tk[1] == "+":
                self.take()
                node = Node(REP, 1, None, [node])
            elif tk[1] == "?":
                self.take()
                node = Node(REP, 0, 1, [node])
            elif tk[1] == "{" and self.peek(1)[0] == "num":
                self.take()
                lo = int(self.take("num")[1])
                hi = lo
                if self.peek()[1] == ",":
                    self.take()
                    hi = int(self.take("num")[1]) if self.peek()[0] == "num" else None
                self.take("punct", "}")
                node = Node(REP, lo, hi, [node])
            else:
                return node

    def primary(self):
        kind, val = self.peek()
        if val == "(":
            self.take()
            e = self.expr()
            self.take("punct", ")")
            return e
        if kind == "string":
            self.take()
            ci = val.startswith("^")
            return Node(STR, _unescape(val[2:-1] if ci else val[1:-1]), ci)
        if kind == "char":
            lo = _unescape(self.take()[1][1:-1])
            self.take("dots")
            hi = _unescape(self.take("char")[1][1:-1])
            return Node(RANGE, lo, hi)
        if kind == "ident" or val == "_":
            self.take()
            return Node(REF, val)
        raise ValueError("grammar: unexpected token %r at %d" % ((kind, val), self.i))


BUILTIN_CLASSES = {
    "ASCII_DIGIT": "0123456789",
    "ASCII_NONZERO_DIGIT": "123456789",
    "ASCII_BIN_DIGIT": "01",
    "ASCII_OCT_DIGIT": "01234567",
    "ASCII_HEX_DIGIT": "0123456789abcdefABCDEF",
    "ASCII_ALPHA_LOWER": "abcdefghijklmnopqrstuvwxyz",
    "ASCII_ALPHA_UPPER": "ABCDEFGHIJKLMNOPQRSTUVWXYZ",
    "ASCII_ALPHA": "abcdefghijklmnopqrstuvwxyzABCDEFGHIJKLMNOPQRSTUVWXYZ",
    "ASCII_ALPHANUMERIC": "abcdefghijklmnopqrstuvwxyzABCDEFGHIJKLMNOPQRSTUVWXYZ0123456789",
}
BUILTIN_EMPTY = ("SOI", "EOI")
ANY_ALPHABET = list("abcxyz012 _-+*/.,:;()[]{}<>=!?&|^%~@$'") + ["é", "✓", "中", "\t", "\\", '"', "#", "\n"]
ANY_WEIGHTS = [6] * 38 + [1, 1, 1, 1, 1, 1, 1, 1]


class Grammar:
    def __init__(self, text):
        self.rules = {}
        self.order = []
        for r in _P(tokenize(text)).rules():
            self.rules[r.name] = r
            self.order.append(r.name)
        for r in self.rules.values():
            self._number(r)
        self.undefined = sorted({n.a for r in self.rules.values() for n in r.nodes if n.kind == REF
                                 and n.a not in self.rules and n.a not in BUILTIN_CLASSES
                                 and n.a not in BUILTIN_EMPTY and n.a not in ("ANY", "NEWLINE")})
        self.alts = [(r.name, n.id, k) for r in self.rules.values() for n in r.nodes if n.kind == CHOICE
                     for k in range(len(n.kids))]
        self._cost = self._min_cost()

    def _number(self, rule):
        def walk(n):
            n.id = len(rule.nodes)
            n.rule = rule.name
            rule.nodes.append(n)
            for k in n.kids:
                walk(k)
        walk(rule.expr)

    # -- minimal derivation height, used to terminate when the depth budget is exhausted
    def _min_cost(self):
        inf = 10 ** 6
        cost = {name: inf for name in self.rules}

        def c(n):
            if n.kind in (STR, RANGE, NOT, AND):
                return 0
            if n.kind == REF:
                return 1 + cost[n.a] if n.a in cost else 0
            if n.kind == SEQ:
                return max(c(k) for k in n.kids)
            if n.kind == CHOICE:
                return min(c(k) for k in n.kids)
            if n.kind == REP:
                return 0 if n.a == 0 else c(n.kids[0])
            raise ValueError(n.kind)
        self._c = c
        changed = True
        while changed:
            changed = False
            for name, r in self.rules.items():
                v = min(c(r.expr), inf)
                if v < cost[name]:
                    cost[name] = v
                    changed = True
        return cost

    def node_cost(self, n):
        return self._c(n)

    # -- hop distance from every rule to the rule that owns a target alternative
    def distances_to(self, rule_name):
        refs = {name: {n.a for n in r.nodes if n.kind == REF and n.a in self.rules} for name, r in self.rules.items()}
        dist = {rule_name: 0}
        frontier = [rule_name]
        while frontier:
            nxt = []
            for tgt in frontier:
                for name, rs in refs.items():
                    if tgt in rs and name not in dist:
                        dist[name] = dist[tgt] + 1
                        nxt.append(name)
            frontier = nxt
        return dist


def contains(node, target):
    if node is target:
        return True
    return any(contains(k, target) for k in node.kids)


# ----------------------------------------------------------------------------- generator

class Gen:
    """One sentence generator.  `rng`: random.Random.  `cover`: set receiving ('rule', name) and
    ('alt', rule, node id, k).  `overrides`: {rule name: fn(gen) -> str} used with probability `p_override`
    for lexical rules (identifier pools etc.)."""

    def __init__(self, grammar, rng, cover=None, max_depth=14, overrides=None, p_override=0.7, rep_mean=1.3):
        self.g, self.rng = grammar, rng
        self.cover = cover if cover is not None else set()
        self.max_depth = max_depth
        self.overrides = overrides or {}
        self.p_override = p_override
        self.rep_mean = rep_mean
        self.target = None          # (rule name, choice node, k, distances)
        self.budget = 6000          # characters; afterwards everything takes the cheapest way out
        self.emitted = 0

    # implicit whitespace between two sequence elements
    def sep(self, ws, depth):
        if not ws:
            return ""
        r = self.rng.random()
        if depth <= 3 and r < 0.55:
            return "\n"
        if r < 0.9:
            return " "
        if r < 0.93:
            return ""
        if r < 0.95:
            return "\t"
        if r < 0.985 and "COMMENT" in self.g.rules:
            # implicit COMMENT between tokens: derived from the grammar's own COMMENT rule
            c = self.rule("COMMENT", depth + 1, False)
            return " " + c + ("\n" if not c.endswith("###") or len(c) < 6 else " ")
        return "\r\n"

    def glue(self, parts, ws, depth):
        out = []
        for p in parts:
            if out:
                s = self.sep(ws, depth)
                if s == "" and ws and out[-1][-1:].isalnum() and p[:1].isalnum():
                    s = " "
                out.append(s)
            out.append(p)
        return "".join(out)

    def derive(self, start="file", target=None):
        self.target = None
        self.emitted = 0
        if target is not None:
            rule, nid, k = target
            self.target = (rule, self.g.rules[rule].nodes[nid], k, self.g.distances_to(rule))
        return self.rule(start, 0, True)

    def rule(self, name, depth, ws):
        g = self.g
        if name in BUILTIN_CLASSES:
            return self.rng.choice(BUILTIN_CLASSES[name])
        if name in BUILTIN_EMPTY:
            return ""
        if name == "ANY":
            return self.rng.choices(ANY_ALPHABET, ANY_WEIGHTS)[0]
        if name == "NEWLINE":
            return self.rng.choice(["\n", "\n", "\n", "\r\n", "\r"])
        r = g.rules.get(name)
        if r is None:
            return ""
        self.cover.add(("rule", name))
        if name in self.overrides and self.target is None and self.rng.random() < self.p_override:
            return self.overrides[name](self)
        if r.modifier in ("@", "$") or name in ("WHITESPACE", "COMMENT"):
            ws = False                   # the implicit rules themselves run atomically
        elif r.modifier == "!":
            ws = True
        return self.node(r.expr, depth + 1, ws)

    def steer(self, n):
        """Distance of node `n` to the active target (None if it cannot lead there)."""
        _, tnode, _, dist = self.target
        best = None
        stack = [n]
        while stack:
            x = stack.pop()
            if x is tnode:
                return 0
            if x.kind == REF and x.a in dist:
                d = 1 + dist[x.a]
                if best is None or d < best:
                    best = d
            stack.extend(x.kids)
        return best

    def node(self, n, depth, ws):
        rng = self.rng
        k = n.kind
        if k == STR:
            self.emitted += len(n.a)
            if n.b and rng.random() < 0.3:
                return n.a.swapcase()
            return n.a
        if k == RANGE:
            self.emitted += 1
            return chr(rng.randint(ord(n.a), ord(n.b)))
        if k == REF:
            return self.rule(n.a, depth, ws)
        if k in (NOT, AND):
            return ""
        tired = depth > self.max_depth or self.emitted > self.budget
        if depth > 150:
            self.target = None          # safety net: never recurse without bound
        if k == SEQ:
            parts = []
            best = None
            if self.target is not None:
                # steer through exactly one element (the nearest to the target); the others are free
                ds = [(d, i) for i, d in enumerate(self.steer(kid) for kid in n.kids) if d is not None]
                best = min(ds)[1] if ds else None
            for i, kid in enumerate(n.kids):
                if kid.kind == NOT:
                    # negative lookahead: derive the rest, retry if it starts with what is forbidden
                    continue
                saved = None
                if self.target is not None and i != best:
                    saved, self.target = self.target, None
                s = self.node(kid, depth, ws)
                if i > 0 and n.kids[i - 1].kind == NOT:
                    for _ in range(6):
                        if not self.forbidden(n.kids[i - 1].kids[0], s):
                            break
                        s = self.node(kid, depth, ws)
                if saved is not None:
                    self.target = saved
                parts.append(s)
            return self.glue([p for p in parts if p != ""], ws, depth)
        if k == CHOICE:
            pick = None
            if self.target is not None:
                if n is self.target[1]:
                    pick = self.target[2]
                    self.target = None
                else:
                    ds = [self.steer(kid) for kid in n.kids]
                    cand = [d for d in ds if d is not None]
                    if cand:
                        m = min(cand)
                        pick = rng.choice([i for i, d in enumerate(ds) if d == m])
            if pick is None:
                if tired:
                    costs = [self.g.node_cost(kid) for kid in n.kids]
                    m = min(costs)
                    pick = rng.choice([i for i, c in enumerate(costs) if c == m])
                else:
                    fresh = [i for i in range(len(n.kids)) if ("alt", n.rule, n.id, i) not in self.cover]
                    if fresh and rng.random() < 0.5:
                        pick = rng.choice(fresh)
                    else:
                        pick = rng.randrange(len(n.kids))
            self.cover.add(("alt", n.rule, n.id, pick))
            return self.node(n.kids[pick], depth, ws)
        if k == REP:
            lo, hi = n.a, n.b
            want = lo
            forced = self.target is not None and self.steer(n.kids[0]) is not None
            if forced:
                want = max(lo, 1)
            elif not tired and depth <= 2 and hi is None:
                want = max(lo, rng.choice([1, 1, 2, 2, 3, 4, 6]))       # declarations of a file
            elif not tired:
                if hi == 1:
                    want = 1 if rng.random() < 0.5 else lo
                else:
                    while rng.random() < self.rep_mean / (1.0 + self.rep_mean):
                        want += 1
                    if rng.random() < 0.02:
                        want += rng.randint(5, 30)
                    if hi is not None:
                        want = min(want, hi)
            parts = []
            for i in range(want):
                saved = None
                if i > 0 and self.target is not None:
                    saved, self.target = self.target, None      # only the first iteration is steered
                parts.append(self.node(n.kids[0], depth, ws))
                if saved is not None:
                    self.target = saved
            return self.glue([p for p in parts if p != ""], ws, depth)
        raise ValueError(k)

    def forbidden(self, pred, s):
        """Does text `s` start with something the negative predicate `pred` excludes?  (Best effort:
        literals, classes, NEWLINE and rules made of those.)"""
        k = pred.kind
        if k == STR:
            return s.startswith(pred.a)
        if k == RANGE:
            return bool(s) and pred.a <= s[0] <= pred.b
        if k == CHOICE:
            return any(self.forbidden(x, s) for x in pred.kids)
        if k == REF:
            if pred.a in BUILTIN_CLASSES:
                return bool(s) and s[0] in BUILTIN_CLASSES[pred.a]
            if pred.a == "NEWLINE":
                return s[:1] in ("\n", "\r")
            if pred.a == "ANY":
                return bool(s)
            r = self.g.rules.get(pred.a)
            if r is not None and r.expr.kind in (STR, CHOICE, RANGE):
                return self.forbidden(r.expr, s)
        return False


def load(path):
    with open(path, encoding="utf-8") as f:
        return Grammar(f.read())
