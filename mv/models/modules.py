"""C11 model: multi-module projects over import DAGs, their MScript sources and the reference behaviour
(depth-first initialisation at the moment an import statement executes, once per module, the importer
continues afterwards; one counter per module shared by every importer).

A project spec is a dict:
  n       number of modules, module 0 = entry `main`, the others `ma mb mc md`
  edges   list of edge dicts in *statement order per importer*:
            {i, j, form: string of statement kinds, pos: pre|mid|post|block|dead, spell: plain|dot|ext|dotext|dotdot}
          statement kinds of a form:  S `import m`   N `import m_bump, m_peek, m_cell, m_via from m`
                                      T `import type m_T from m` (type-only: binds no value, still an import)
                                      M `import type m_T, m_bump, m_peek, m_cell, m_via from m` (mixed)
          e.g. S, N, SN, NS, T, TS, ST, TN, M, SM (N and M never together: duplicate names)
  sub     sorted list of module indices living in `sub/` (closed under imports: `..` does not parse)
"""
import itertools
import os
import random
import re

NAMES = ["main", "ma", "mb", "mc", "md"]
FORMS = ("S", "N", "SN", "NS")
POS_ORDER = {"pre": 0, "mid": 1, "post": 2}


# ----------------------------------------------------------------------------- DAGs

def reachable_all(n, edges):
    reach = {0}
    for i, j in sorted(edges):
        if i in reach:
            reach.add(j)
    return len(reach) == n


def canon(n, edges):
    """Canonical form under relabellings that fix the entry and keep i < j for every edge."""
    best = None
    for perm in itertools.permutations(range(1, n)):
        p = (0,) + perm
        e2 = sorted((p[i], p[j]) for i, j in edges)
        if all(a < b for a, b in e2):
            t = tuple(e2)
            if best is None or t < best:
                best = t
    return best


def all_dags(n):
    """Every DAG on n nodes (up to isomorphism fixing the entry) in which all nodes are reachable from 0."""
    pairs = [(i, j) for i in range(n) for j in range(i + 1, n)]
    seen = set()
    for mask in range(1 << len(pairs)):
        edges = [p for b, p in enumerate(pairs) if mask >> b & 1]
        if not reachable_all(n, edges):
            continue
        seen.add(canon(n, edges))
    return sorted(seen)


def dag_id(n, edges):
    return "n%d:%s" % (n, ".".join("%d%d" % e for e in sorted(edges)) or "-")


def closed_subsets(n, edges):
    """Sets of non-entry modules that may live in sub/: closed under `imports`."""
    out = []
    mods = list(range(1, n))
    for r in range(len(mods) + 1):
        for s in itertools.combinations(mods, r):
            ss = set(s)
            if all((j in ss) for i, j in edges if i in ss):
                out.append(list(s))
    return out


# ----------------------------------------------------------------------------- source rendering + simulation

def mod_dir(spec, k):
    return "sub" if k in spec["sub"] else ""


def mod_loc(spec, k):
    d = mod_dir(spec, k)
    return (d + "/" if d else "") + NAMES[k]


def spelled(spec, e):
    i, j = e["i"], e["j"]
    di, dj = mod_dir(spec, i), mod_dir(spec, j)
    if di == "sub":
        assert dj == "sub", "a module in sub/ cannot import from the parent directory"
        p = NAMES[j]
    else:
        p = ("sub/" if dj else "") + NAMES[j]
    kind = e.get("spell", "plain")
    if kind == "plain":
        return p
    if kind == "dot":
        return "./" + p
    if kind == "ext":
        return p + ".ms"
    if kind == "dotext":
        return "./" + p + ".ms"
    if kind == "dotdot":
        return "sub/../" + p
    raise ValueError(kind)


def decl_src(X, exported):
    ex = "export " if exported else ""
    ty = (lambda t: ": " + t) if exported else (lambda t: "")
    tdecl = ("export type %s_T int\n" % X) if exported else ""
    return (tdecl + "%(ex)s%(X)s_cell: [int...] = [0]\n"
            "%(ex)s%(X)s_n%(tint)s = 0\n"
            "%(X)s_hid = 0\n"
            "%(ex)s%(X)s_op%(tint)s = 0\n"
            "%(ex)s%(X)s_bump%(tfn)s = fn() -> int {\n"
            "  %(X)s_cell[0] = %(X)s_cell[0] + 1\n"
            "  %(X)s_op += 1\n"
            "  modify %(X)s_n = %(X)s_n + 1\n"
            "  modify %(X)s_hid = %(X)s_hid + 1\n"
            "  %(X)s_bt = %(X)s_cell[0]\n"
            "  return %(X)s_bt\n"
            "}\n"
            "%(ex)s%(X)s_peek%(tfn)s = fn() -> int {\n"
            "  %(X)s_pt = %(X)s_cell[0]\n"
            "  return %(X)s_pt * 100 + %(X)s_hid + %(X)s_op * 10000\n"
            "}\n") % {"ex": ex, "X": X, "tint": ty("int"), "tfn": ty("fn() -> int")}


class Sim:
    """Reference behaviour.  mode 'once' is the property.  'per_importer' (a fresh module instance for every
    importing module), 'private_state' (initialised once, but every importer sees its own copy of the state) and
    'hoisted' (a module's imports all initialise before its first statement) exist only to validate the engine
    against a deliberately wrong model."""

    def __init__(self, spec, mode="once"):
        self.spec = spec
        self.mode = mode
        self.out = []
        self.events = []
        self.inited = set()
        self.cnt = {}
        self.stats = {"imports_executed": 0, "hits": 0, "misses": 0, "bumps": 0, "dead_imports": 0, "block_imports": 0}
        self.cur = [(0, None)]          # stack of module instances (module, owner)

    def inst(self, m):
        """The instance that the name `m` denotes in the module instance that is executing."""
        if self.mode in ("per_importer", "private_state"):
            return (m, self.cur[-1][0])
        return (m, None)

    def bump(self, k):
        self.cnt[k] = self.cnt.get(k, 0) + 1
        self.stats["bumps"] += 1
        return self.cnt[k]

    def count(self, k):
        return self.cnt.get(k, 0)

    def peek(self, k):
        return self.count(k) * 10101

    def via(self, k):
        s = 0
        self.cur.append(k)
        for t, kind in via_list(self.spec, k[0]):
            s += self.bump(self.inst(t))
        self.cur.pop()
        return s

    def do_import(self, m):
        self.stats["imports_executed"] += 1
        k = self.inst(m) if self.mode != "private_state" else (m, None)
        if k in self.inited:
            self.events.append(("hit", mod_loc(self.spec, m)))
            self.stats["hits"] += 1
            return
        self.events.append(("miss", mod_loc(self.spec, m)))
        self.stats["misses"] += 1
        self.inited.add(k)
        self.run_module(k)

    def run_module(self, k):
        self.cur.append(k)
        stmts = module_stmts(self.spec, k[0])
        if self.mode == "hoisted":
            for st in stmts:
                if st[0] == "import":
                    self.do_import(st[1])
        for st in stmts:
            self.exec(k[0], st)
        self.cur.pop()

    def exec(self, X, st):
        k = st[0]
        xn = NAMES[X]
        me = self.cur[-1]
        if k == "print":
            self.out.append(st[1])
        elif k == "import":
            self.do_import(st[1])
        elif k == "driveS":
            m = st[1]
            mn = NAMES[m]
            mi = self.inst(m)
            self.out.append("%s %s.bump %d" % (xn, mn, self.bump(mi)))
            self.out.append("%s %s.peek %d" % (xn, mn, self.peek(mi)))
            self.out.append("%s %s.n %d" % (xn, mn, self.count(mi)))
            self.out.append("%s %s.cell %d" % (xn, mn, self.count(mi)))
            self.out.append("%s %s.typeof fn() -> int" % (xn, mn))
            self.out.append("%s %s.typeof_cell [int...]" % (xn, mn))
            self.out.append("%s %s.typeof_n int" % (xn, mn))
        elif k == "driveN":
            m = st[1]
            mn = NAMES[m]
            mi = self.inst(m)
            self.out.append("%s bump %s %d" % (xn, mn, self.bump(mi)))
            self.out.append("%s peek %s %d" % (xn, mn, self.peek(mi)))
            self.out.append("%s cell %s %d" % (xn, mn, self.count(mi)))
        elif k == "driveT":
            self.out.append("%s type %s 5" % (xn, NAMES[st[1]]))
        elif k in ("decl", "via_decl", "raw"):
            pass
        elif k == "self":
            self.out.append("%s self %d" % (xn, self.bump(me)))
        elif k == "mid":
            self.out.append("%s mid %d" % (xn, self.peek(me)))
        elif k == "block":
            _, gate, live, body = st
            if live:
                self.stats["block_imports"] += 1
                for b in body:
                    self.exec(X, b)
            else:
                self.stats["dead_imports"] += 1
        elif k == "final":
            for m, kind in st[1]:
                mn = NAMES[m]
                if kind == "S":
                    self.out.append("%s %s.via %d" % (xn, mn, self.via(self.inst(m))))
                else:
                    self.out.append("%s via %s %d" % (xn, mn, self.via(self.inst(m))))
            for m, kind in st[1]:
                mn = NAMES[m]
                if kind == "S":
                    self.out.append("%s %s.peek %d" % (xn, mn, self.peek(self.inst(m))))
                    self.out.append("%s %s.n %d" % (xn, mn, self.count(self.inst(m))))
                else:
                    self.out.append("%s peek %s %d" % (xn, mn, self.peek(self.inst(m))))
            self.out.append("%s via %d" % (xn, self.via(me)))
        else:
            raise ValueError(st)


def edges_of(spec, X):
    return [e for e in spec["edges"] if e["i"] == X]


def via_list(spec, X):
    """(target, S|N) for every top-level import statement of X in statement order."""
    out = []
    for pos in ("pre", "mid", "post"):
        for e in edges_of(spec, X):
            if e["pos"] == pos:
                for kind in e["form"]:
                    if kind == "T":
                        continue                      # a type-only import binds no value
                    out.append((e["j"], "N" if kind == "M" else kind))
    return out


def drives(kind, m):
    if kind == "S":
        return [("driveS", m)]
    if kind == "N":
        return [("driveN", m)]
    if kind == "T":
        return [("driveT", m, "T")]
    return [("driveT", m, "M"), ("driveN", m)]


def module_stmts(spec, X):
    xn = NAMES[X]
    out = [("print", "init %s:begin" % xn)]

    def imports_at(pos):
        res = []
        for e in edges_of(spec, X):
            if e["pos"] != pos:
                continue
            for kind in e["form"]:
                res.append(("import", e["j"], kind, spelled(spec, e)))
                res += drives(kind, e["j"])
        return res

    out += imports_at("pre")
    out.append(("decl",))
    out.append(("self",))
    out += imports_at("mid")
    out.append(("mid",))
    out += imports_at("post")
    nb = 0
    for e in edges_of(spec, X):
        if e["pos"] in ("block", "dead"):
            nb += 1
            body = []
            # the bindings die with the block: one form only, driven inside
            kind = e["form"][0]
            body.append(("import", e["j"], kind, spelled(spec, e)))
            body += drives(kind, e["j"])
            out.append(("block", "%s_gate%d" % (xn, nb), e["pos"] == "block", body))
    out.append(("via_decl", via_list(spec, X)))
    for extra in spec.get("extra", {}).get(X, []):
        out.append(("raw", extra))
    out.append(("print", "init %s:end" % xn))
    if X == 0:
        out.append(("final", via_list(spec, X)))
    return out


def render_stmt(spec, X, st, ind=""):
    xn = NAMES[X]
    k = st[0]
    if k == "print":
        return ['%sprint "%s"' % (ind, st[1])]
    if k == "import":
        _, m, kind, path = st
        mn = NAMES[m]
        if kind == "S":
            return ["%simport %s" % (ind, path)]
        if kind == "T":
            return ["%simport type %s_T from %s" % (ind, mn, path)]
        if kind == "M":
            return ["%simport type %s_T, %s_bump, %s_peek, %s_cell, %s_via, %s_op from %s" % (ind, mn, mn, mn, mn, mn, mn, path)]
        # `X_op` imported by name is the importer's own copy: the module's `X_op += 1` must still reach the module's variable
        return ["%simport %s_bump, %s_peek, %s_cell, %s_via, %s_op from %s" % (ind, mn, mn, mn, mn, mn, path)]
    if k == "driveS":
        mn = NAMES[st[1]]
        return ['%sprint "%s %s.bump " + %s.%s_bump()' % (ind, xn, mn, mn, mn),
                '%sprint "%s %s.peek " + %s.%s_peek()' % (ind, xn, mn, mn, mn),
                '%sprint "%s %s.n " + %s.%s_n' % (ind, xn, mn, mn, mn),
                '%s%s_c_%s = %s.%s_cell' % (ind, xn, mn, mn, mn),
                '%sprint "%s %s.cell " + %s_c_%s[0]' % (ind, xn, mn, xn, mn),
                '%sprint "%s %s.typeof " + typeof %s.%s_peek' % (ind, xn, mn, mn, mn),
                '%sprint "%s %s.typeof_cell " + typeof %s.%s_cell' % (ind, xn, mn, mn, mn),
                '%sprint "%s %s.typeof_n " + typeof %s.%s_n' % (ind, xn, mn, mn, mn)]
    if k == "driveT":
        mn = NAMES[st[1]]
        return ['%s%s_t%s_%s: %s_T = 5' % (ind, xn, st[2], mn, mn),
                '%sprint "%s type %s " + %s_t%s_%s' % (ind, xn, mn, xn, st[2], mn)]
    if k == "driveN":
        mn = NAMES[st[1]]
        return ['%sprint "%s bump %s " + %s_bump()' % (ind, xn, mn, mn),
                '%sprint "%s peek %s " + %s_peek()' % (ind, xn, mn, mn),
                '%sprint "%s cell %s " + %s_cell[0]' % (ind, xn, mn, mn)]
    if k == "decl":
        return decl_src(xn, X != 0).rstrip("\n").split("\n")
    if k == "self":
        return ['print "%s self " + %s_bump()' % (xn, xn)]
    if k == "mid":
        return ['print "%s mid " + %s_peek()' % (xn, xn)]
    if k == "via_decl":
        ex = "export %s_via: fn() -> int" % xn if X != 0 else "%s_via" % xn
        lines = ["%s = fn() -> int {" % ex, "  %s_vs = 0" % xn]
        for m, kind in st[1]:
            mn = NAMES[m]
            call = "%s.%s_bump()" % (mn, mn) if kind == "S" else "%s_bump()" % mn
            lines.append("  %s_vs = %s_vs + %s" % (xn, xn, call))
        lines += ["  return %s_vs" % xn, "}"]
        return lines
    if k == "block":
        _, gate, live, body = st
        lines = ["%s = %s" % (gate, "true" if live else "false"), "if %s {" % gate]
        for b in body:
            lines += render_stmt(spec, X, b, "  ")
        lines.append("}")
        return lines
    if k == "final":
        lines = []
        for m, kind in st[1]:
            mn = NAMES[m]
            if kind == "S":
                lines.append('print "%s %s.via " + %s.%s_via()' % (xn, mn, mn, mn))
            else:
                lines.append('print "%s via %s " + %s_via()' % (xn, mn, mn))
        for m, kind in st[1]:
            mn = NAMES[m]
            if kind == "S":
                lines.append('print "%s %s.peek " + %s.%s_peek()' % (xn, mn, mn, mn))
                lines.append('print "%s %s.n " + %s.%s_n' % (xn, mn, mn, mn))
            else:
                lines.append('print "%s peek %s " + %s_peek()' % (xn, mn, mn))
        lines.append('print "%s via " + %s_via()' % (xn, xn))
        return lines
    if k == "raw":
        return list(st[1])
    raise ValueError(st)


def render_module(spec, X):
    lines = []
    if X == 0 and spec.get("sentinel"):
        lines.append('print "@@RUN@@"')
    for st in module_stmts(spec, X):
        lines += render_stmt(spec, X, st)
    return "\n".join(lines) + "\n"


def build(spec, mode="once"):
    """-> dict(files, lines, events, stats)"""
    files = {}
    for k in range(spec["n"]):
        files[mod_loc(spec, k) + ".ms"] = render_module(spec, k)
    if spec.get("need_sub") and not any(f.startswith("sub/") for f in files):
        files["sub/unused.ms"] = 'print "unused"\n'
    sim = Sim(spec, mode)
    sim.cur = []
    sim.run_module((0, None))
    return {"files": files, "lines": sim.out, "events": sim.events, "stats": sim.stats}


# ----------------------------------------------------------------------------- spec construction

def make_spec(n, edges, forms, poss, order=None, sub=(), spells=None):
    """edges: sorted (i, j) list; forms / poss / spells aligned with it; order: permutation of edge indices giving
    the statement order (default: as listed)."""
    idx = list(order) if order is not None else list(range(len(edges)))
    es = []
    for q in idx:
        i, j = edges[q]
        es.append({"i": i, "j": j, "form": forms[q], "pos": poss[q], "spell": (spells[q] if spells else "plain")})
    return {"n": n, "edges": es, "sub": sorted(sub)}


def orders(edges):
    """All statement orders: independent permutations of every importer's edges (as index lists)."""
    groups = {}
    for q, (i, j) in enumerate(edges):
        groups.setdefault(i, []).append(q)
    per = [list(itertools.permutations(g)) for _, g in sorted(groups.items())]
    for combo in itertools.product(*per):
        yield [q for grp in combo for q in grp]


def spec_id(n, edges, spec):
    """(dag id, forms, placement) — the three components of an enumerated signature."""
    by = {(e["i"], e["j"]): e for e in spec["edges"]}
    forms = ".".join(by[e]["form"] for e in sorted(edges))
    place = ".".join(by[e]["pos"] for e in sorted(edges))
    stmt_order = [(e["i"], e["j"]) for e in spec["edges"]]
    grouped = sorted(stmt_order, key=lambda p: p[0])        # stable: statement order within each importer
    if grouped != sorted(edges):
        place += ",o=" + ".".join("%d%d" % p for p in grouped)
    if spec["sub"]:
        place += ",sub=" + "".join(NAMES[k][1] for k in spec["sub"])
    sp = [by[e].get("spell", "plain") for e in sorted(edges)]
    if any(s != "plain" for s in sp):
        place += ",spell=" + ".".join(sp)
    return dag_id(n, edges), forms, place


def enumerate_space(max_n, positions, forms=FORMS):
    """Full product for every DAG on 2..max_n nodes: forms^e x positions^e x statement orders x directory
    placements.  Yields (id triple, spec); duplicates by rendered text are dropped by the caller."""
    for n in range(2, max_n + 1):
        for edges in all_dags(n):
            edges = list(edges)
            e = len(edges)
            subs = closed_subsets(n, edges)
            ords = list(orders(edges))
            for fs in itertools.product(forms, repeat=e):
                for ps in itertools.product(positions, repeat=e):
                    for od in ords:
                        for sub in subs:
                            spec = make_spec(n, edges, fs, ps, od, sub)
                            yield spec_id(n, edges, spec), spec


TYPE_FORMS = ("S", "T", "TS", "M")


def type_form_space(max_n=3):
    """Every DAG on 2..max_n modules x form per edge {S, T (type-only names import), TS, M (mixed)} x uniform placement
    (all pre | all post) x statement orders, same directory."""
    for n in range(2, max_n + 1):
        for edges in all_dags(n):
            edges = list(edges)
            e = len(edges)
            for fs in itertools.product(TYPE_FORMS, repeat=e):
                if all(f == "S" for f in fs):
                    continue
                for pos in ("pre", "post"):
                    for od in orders(edges):
                        spec = make_spec(n, edges, fs, [pos] * e, od, ())
                        yield spec_id(n, edges, spec), spec


def sampled_space(n, forms, per, salt):
    """Every DAG on n nodes x every form assignment, each with `per` placements / orders / directory placements
    drawn from a generator that depends only on the case id (identical for every seed)."""
    for edges in all_dags(n):
        edges = list(edges)
        e = len(edges)
        subs = closed_subsets(n, edges)
        ords = list(orders(edges))
        for fs in itertools.product(forms, repeat=e):
            rng = random.Random("%s/%s/%s" % (salt, dag_id(n, edges), ".".join(fs)))
            for _ in range(per):
                ps = [rng.choice(["pre", "mid", "post"]) for _ in range(e)]
                spec = make_spec(n, edges, fs, ps, rng.choice(ords), rng.choice(subs))
                yield spec_id(n, edges, spec), spec


def random_spec(rng, n):
    """Seeded project on n modules: random DAG, forms, placements (including block / dead), order, directories."""
    pairs = [(i, j) for i in range(n) for j in range(i + 1, n)]
    while True:
        dens = rng.choice([0.35, 0.5, 0.7])
        edges = [p for p in pairs if rng.random() < dens]
        if reachable_all(n, edges):
            break
    e = len(edges)
    fs = [rng.choice(["S", "S", "N", "N", "SN", "NS", "T", "T", "TS", "ST", "TN", "M", "SM"]) for _ in range(e)]
    ps = [rng.choice(["pre", "mid", "post", "pre", "mid", "post", "pre", "post", "block", "dead"]) for _ in range(e)]
    od = rng.choice(list(orders(edges))) if e <= 7 else None
    if od is None:
        od = list(range(e))
        rng.shuffle(od)
        od.sort(key=lambda q: edges[q][0])
    sub = rng.choice(closed_subsets(n, edges))
    return edges, make_spec(n, edges, fs, ps, od, sub)


# ----------------------------------------------------------------------------- negative twins

# Writes to a name imported with `import x from m` are accepted BY DESIGN (the repository's own test
# assignments::not_import_const_bypass): the imported name is a local copy.  They are positive catalogue cases
# (local_copy_cases below), not negative twins.
NEG_KINDS = {
    # kind: (form of the edge, statements appended to the importer) ; %(m)s = target module name
    "read_hidden_member": ("S", ['print %(m)s.%(m)s_hid']),
    "import_hidden_name": ("S", ['import %(m)s_hid from %(p)s', 'print %(m)s_hid']),
    "assign_member": ("S", ['%(m)s.%(m)s_n = 5', 'print %(m)s.%(m)s_n']),
    "assign_member_cell": ("S", ['neg_l: [int...] = [9]', '%(m)s.%(m)s_cell = neg_l', 'print %(m)s.%(m)s_peek()']),
    "assign_member_fn": ("S", ['%(m)s.%(m)s_peek = fn() -> int {', '  return 0', '}', 'print %(m)s.%(m)s_peek()']),
    "opassign_member": ("S", ['%(m)s.%(m)s_n += 5', 'print %(m)s.%(m)s_n']),
    # the same writes through another name for the module, and from inside functions that capture the module / the alias
    "assign_member_via_alias": ("S", ['neg_al = %(m)s', 'neg_al.%(m)s_n = 5', 'print %(m)s.%(m)s_n']),
    "opassign_member_via_alias": ("S", ['neg_al = %(m)s', 'neg_al.%(m)s_n += 5', 'print %(m)s.%(m)s_n']),
    "assign_member_in_function": ("S", ['neg_f = fn() {', '  %(m)s.%(m)s_n = 5', '}', 'neg_f()', 'print %(m)s.%(m)s_n']),
    "assign_member_via_captured_alias": ("S", ['neg_al = %(m)s', 'neg_f = fn() {', '  neg_al.%(m)s_n = 5', '}', 'neg_f()',
                                               'print %(m)s.%(m)s_n']),
    "opassign_member_via_captured_alias": ("S", ['neg_al = %(m)s', 'neg_f = fn() {', '  neg_al.%(m)s_n += 5', '}', 'neg_f()',
                                                 'print %(m)s.%(m)s_n']),
}


def neg_expected_diagnostic(kind):
    """Text that the compiler's diagnostic must contain for the rejection to count as the intended one."""
    if "hidden" in kind:
        return ("no visible member", "this property does not exist")
    return ("const", "cannot be modified", "read-only", "read only", "immutable", "member of a module")


def negative_twins(max_n=3):
    """For every DAG on <= max_n nodes and every edge: one project per violation kind, the violating statements
    appended to the importer of that edge.  Yields (twin id, kind, where, spec)."""
    for n in range(2, max_n + 1):
        for edges in all_dags(n):
            edges = list(edges)
            for q, (i, j) in enumerate(edges):
                for kind, (form, tmpl) in sorted(NEG_KINDS.items()):
                    fs = ["S"] * len(edges)
                    fs[q] = form
                    spec = make_spec(n, edges, fs, ["pre"] * len(edges))
                    spec["sentinel"] = True
                    e = [x for x in spec["edges"] if (x["i"], x["j"]) == (i, j)][0]
                    sub = {"m": NAMES[j], "p": spelled(spec, e)}
                    spec["extra"] = {i: [[l % sub for l in tmpl]]}
                    where = "entry" if i == 0 else "module"
                    yield "%s/edge%d%d/%s" % (dag_id(n, edges), i, j, kind), kind, where, spec


# ----------------------------------------------------------------------------- imported names are local copies

def local_copy_cases():
    """`import x from m` gives the importer a local copy: rebinding / op-assigning it is accepted and must leave the
    module's own export (`m.x`) unchanged.  The importer is the entry or a module imported by the entry.
    Afterwards the module's own functions are called again: they must work on the module's state, not on the
    importer's same-named variables (this part depends on the C07 repair in /repo).
    Yields (case id, files, expected lines, expected events)."""
    body = ['import ma',
            'import ma_n, ma_peek, ma_cell from ma',
            'print "%(X)s n " + ma_n',
            'print "%(X)s ma.peek " + ma.ma_peek()',
            'ma_n = 5',
            'print "%(X)s n " + ma_n',
            'print "%(X)s ma.n " + ma.ma_n',
            'ma_n += 5',
            'print "%(X)s n " + ma_n',
            'print "%(X)s ma.n " + ma.ma_n',
            'ma_peek = fn() -> int {',
            '  return 0',
            '}',
            'print "%(X)s peek " + ma_peek()',
            '%(X)s_l: [int...] = [9]',
            'ma_cell = %(X)s_l',
            'print "%(X)s cell " + ma_cell[0]',
            '%(X)s_c = ma.ma_cell',
            'print "%(X)s ma.cell " + %(X)s_c[0]',
            'print "%(X)s ma.typeof " + typeof ma.ma_peek',
            # the module's own functions still work on the module's state (needs the C07 repair 47cd0a4: before it
            # they read the importer's same-named variables)
            'print "%(X)s ma.bump " + ma.ma_bump()',
            'print "%(X)s ma.peek " + ma.ma_peek()',
            'print "%(X)s ma.n " + ma.ma_n',
            '%(X)s_c2 = ma.ma_cell',
            'print "%(X)s ma.cell " + %(X)s_c2[0]',
            'print "%(X)s n " + ma_n',
            'print "%(X)s cell " + ma_cell[0]']
    exp = ['%(X)s n 1', '%(X)s ma.peek 10101', '%(X)s n 5', '%(X)s ma.n 1', '%(X)s n 10', '%(X)s ma.n 1', '%(X)s peek 0',
           '%(X)s cell 9', '%(X)s ma.cell 1', '%(X)s ma.typeof fn() -> int', '%(X)s ma.bump 2', '%(X)s ma.peek 20202',
           '%(X)s ma.n 2', '%(X)s ma.cell 2', '%(X)s n 10', '%(X)s cell 9']
    ma = ('print "init ma:begin"\n' + decl_src("ma", True) + 'print "ma self " + ma_bump()\nprint "init ma:end"\n')
    ma_lines = ["init ma:begin", "ma self 1", "init ma:end"]
    for where in ("entry", "module"):
        X = "main" if where == "entry" else "mb"
        src = "\n".join(l % {"X": X} for l in body) + "\n"
        lines = [l % {"X": X} for l in exp]
        if where == "entry":
            files = {"ma.ms": ma, "main.ms": 'print "init main:begin"\n' + src + 'print "init main:end"\n'}
            out = ["init main:begin"] + ma_lines + lines + ["init main:end"]
            ev = [("miss", "ma"), ("hit", "ma")]
        else:
            files = {"ma.ms": ma, "mb.ms": 'print "init mb:begin"\n' + src + 'export mb_v: int = 1\nprint "init mb:end"\n',
                     "main.ms": 'print "init main:begin"\nimport mb\nimport ma\nprint "main ma.n " + ma.ma_n\n'
                                'print "main ma.peek " + ma.ma_peek()\nprint "init main:end"\n'}
            out = (["init main:begin", "init mb:begin"] + ma_lines + lines +
                   ["init mb:end", "main ma.n 2", "main ma.peek 20202", "init main:end"])
            ev = [("miss", "mb"), ("miss", "ma"), ("hit", "ma"), ("hit", "ma")]
        yield "cat:imported_name_is_local_copy@" + where, files, out, ev
    # a module WITHOUT exports (it only acts: prints, registers itself elsewhere) is still initialised exactly once
    reg = 'print "init reg"\nexport names: [str...] = []\nexport add: fn(str) -> int = fn(n: str) -> int {\n  names.push(n)\n  return names.len()\n}\n'
    plug = 'print "init plug:begin"\nimport reg\npk = reg.add("plug")\nprint "plug registered " + pk\nprint "init plug:end"\n'
    for n_importers in (2, 3):
        files = {"reg.ms": reg, "plug.ms": plug}
        main = ['print "init main:begin"', "import plug"]
        out = ["init main:begin", "init plug:begin", "init reg", "plug registered 1", "init plug:end"]
        ev = [("miss", "plug"), ("miss", "reg")]
        for k in range(n_importers - 1):
            files["u%d.ms" % k] = 'print "init u%d"\nimport plug\nexport u%d_v: int = %d\n' % (k, k, k)
            main.append("import u%d" % k)
            out.append("init u%d" % k)
            ev += [("miss", "u%d" % k), ("hit", "plug")]
        main += ["import reg", 'print "main names " + reg.names.len()', 'print "init main:end"']
        ev += [("hit", "reg")]
        out += ["main names 1", "init main:end"]
        files["main.ms"] = "\n".join(main) + "\n"
        yield "cat:module_without_exports_imported_%d_times" % n_importers, files, out, ev
    # ... also when the same file imports it twice, the second time inside a loop body
    files = {"reg.ms": reg, "plug.ms": plug,
             "main.ms": 'print "init main:begin"\nfrom 0 to 3 {\n  import plug\n}\nimport reg\nprint "main names " + reg.names.len()\nprint "init main:end"\n'}
    yield ("cat:module_without_exports_imported_in_a_loop", files,
           ["init main:begin", "init plug:begin", "init reg", "plug registered 1", "init plug:end", "main names 1", "init main:end"],
           [("miss", "plug"), ("miss", "reg"), ("hit", "plug"), ("hit", "plug"), ("hit", "reg")])


# ----------------------------------------------------------------------------- path spellings

SPELLS = ("plain", "dot", "ext", "dotext", "dotdot")


def cache_key(spec, e):
    """The path text from which the compiler builds the module-cache key for this import statement."""
    d = mod_dir(spec, e["i"])
    p = spelled(spec, e)
    if p.endswith(".ms"):
        p = p[:-3]
    return (d + "/" if d else "") + p


def spelling_class(spec):
    """'same_key' when every import of a module is spelled to the same cache key text (extension aside), else
    'unnormalised_path' (the one root cause of the path-spelling finding)."""
    keys = {}
    for e in spec["edges"]:
        keys.setdefault(e["j"], set()).add(cache_key(spec, e))
    return "same_key" if all(len(v) == 1 for v in keys.values()) else "unnormalised_path"


def spelling_cases(full):
    """Diamond-like project main -> ma, main -> mb, mb -> ma with every pair of spellings for the two imports
    of ma (full) or the pinned pair only.  Yields (case id, class, spec)."""
    edges = [(0, 1), (0, 2), (2, 1)]
    pairs = [("plain", "dot")] if not full else [(a, b) for a in SPELLS for b in SPELLS]
    for a, b in pairs:
        for form in (("S", "S", "S"),) if not full else (("S", "S", "S"), ("N", "S", "N"), ("SN", "S", "NS")):
            spec = make_spec(3, edges, form, ["pre", "post", "pre"], None, (), [a, "plain", b])
            spec["need_sub"] = True
            yield "spelling:%s,%s/%s" % (a, b, ".".join(form)), spelling_class(spec), spec
    if full:
        # the same module in sub/: `sub/ma` from the root against `ma` / `./ma` from a sibling in sub/
        for a, b in (("plain", "dot"), ("dot", "plain"), ("dot", "dot"), ("plain", "plain"), ("ext", "dot"),
                     ("ext", "plain"), ("dotext", "ext")):
            spec = make_spec(3, edges, ("S", "S", "S"), ["pre", "post", "pre"], None, (1, 2), [a, "plain", b])
            yield "spelling@sub:%s,%s" % (a, b), spelling_class(spec), spec


LAUNCHES = ("cwd", "parent", "abs")


def spelling_launch_family():
    """Small deterministic family (both tiers): the shared module ma is imported by the entry and by mb under the
    spellings plain / dot, with ma and mb beside the entry ('flat') or in sub/ ('sub': `sub/ma` | `./sub/ma` from the
    entry, `ma` | `./ma` from the sibling), either statement order in the entry, and the entry started from its own
    directory, by a relative path from the parent directory (cwd != entry directory) and by an absolute path.
    Yields (case id, launch, spec)."""
    edges = [(0, 1), (0, 2), (2, 1)]
    for layout, sub in (("flat", ()), ("sub", (1, 2))):
        for a in ("plain", "dot"):
            for b in ("plain", "dot"):
                for oname, od in (("ma-first", [0, 1, 2]), ("mb-first", [1, 0, 2])):
                    for launch in LAUNCHES:
                        spec = make_spec(3, edges, ("S", "S", "S"), ["pre", "pre", "pre"], od, sub, [a, "plain", b])
                        yield "spelling:%s/%s/%s,%s/%s" % (layout, launch, a, b, oname), launch, spec


# ----------------------------------------------------------------------------- pinned catalogue

PIN_C07_FILES = {
    "pa.ms": ('print "init pa:begin"\n'
              'export count: int = 0\n'
              'export bump: fn() -> int = fn() -> int {\n'
              '  modify count = count + 1\n'
              '  return count\n'
              '}\n'
              'export peek: fn() -> int = fn() -> int {\n'
              '  return count\n'
              '}\n'
              'print "init pa:end"\n'),
    "main.ms": ('import count, peek from pa\n'
                'import pa\n'
                'print pa.bump()\n'
                'print pa.count\n'
                'print peek()\n'
                'print pa.peek()\n'),
}
PIN_C07_LINES = ["init pa:begin", "init pa:end", "1", "1", "1", "1"]
PIN_C07_EVENTS = [("miss", "pa"), ("hit", "pa")]

PIN_COND_FILES = {
    "pc.ms": 'print "init pc:begin"\nexport pc_v: int = 3\nprint "init pc:end"\n',
    "pd.ms": 'print "init pd:begin"\nexport pd_v: int = 4\nprint "init pd:end"\n',
    "main.ms": ('print "main:begin"\n'
                'cgate = false\n'
                'if cgate {\n  import pc\n  print pc.pc_v\n}\n'
                'print "main:mid"\n'
                'dgate = true\n'
                'if dgate {\n  import pd\n  print pd.pd_v\n}\n'
                'if dgate {\n  import pd_v from pd\n  print pd_v\n}\n'
                'print "main:end"\n'),
}
PIN_COND_LINES = ["main:begin", "main:mid", "init pd:begin", "init pd:end", "4", "4", "main:end"]
PIN_COND_EVENTS = [("miss", "pd"), ("hit", "pd")]


# ----------------------------------------------------------------------------- exported classes (third session, area a8-1)
# A class exported by a module keeps using the MODULE's variables when an importer constructs it: names that only the
# constructor mentions, names that only a method mentions, and the class's own name.  Two importers share the module.

def exported_class_cases():
    """Yields (case id, files, expected lines, expected events)."""
    kennel = ('print "init kennel:begin"\n'
              'dogs: [int...] = [0]\n'
              'DOGGOS = 0\n'
              'export class Dog {\n'
              '  id: int\n'
              '  constructor(self) {\n'
              '    self.id = dogs[0] + DOGGOS\n'
              '    dogs[0] += 1\n'
              '  }\n'
              '  fn tag(self) -> str {\n'
              '    return "dog #" + self.id\n'
              '  }\n'
              '  fn pup(self) -> Self {\n'
              '    return Dog()\n'
              '  }\n'
              '}\n'
              'export registered: fn() -> int = fn() -> int {\n'
              '  return dogs[0]\n'
              '}\n'
              'print "init kennel:end"\n')
    stats = ('print "init stats:begin"\n'
             'import kennel\n'
             'export seen: fn() -> int = fn() -> int {\n'
             '  return kennel.registered()\n'
             '}\n'
             'export adopt: fn() -> str = fn() -> str {\n'
             '  d = kennel.Dog()\n'
             '  return d.tag()\n'
             '}\n'
             'print "init stats:end"\n')
    for form, ctor in (("plain", "kennel.Dog()"), ("named", "Dog()")):
        for shadow in (False, True):
            main = ['print "main:begin"', 'import stats', 'import kennel' if form == "plain" else 'import Dog from kennel\nimport kennel']
            if shadow:
                main += ['DOGGOS = 100', 'dogs: [int...] = [50]']
            main += ['a = %s' % ctor, 'print a.tag()', 'b = %s' % ctor, 'print b.tag()', 'print "seen " + stats.seen()',
                     'print stats.adopt()', 'c = a.pup()', 'print c.tag()', 'print "registered " + kennel.registered()']
            if shadow:
                main += ['print "mine " + DOGGOS + " " + dogs[0]']
            main += ['print "main:end"']
            lines = ["main:begin", "init stats:begin", "init kennel:begin", "init kennel:end", "init stats:end",
                     "dog #0", "dog #1", "seen 2", "dog #2", "dog #3", "registered 4"]
            if shadow:
                lines.append("mine 100 50")
            lines.append("main:end")
            events = [("miss", "stats"), ("miss", "kennel"), ("hit", "kennel")] + ([("hit", "kennel")] if form == "named" else [])
            yield ("cat:exported_class:%s%s" % (form, ":importer_shadows_module_names" if shadow else ""),
                   {"main.ms": "\n".join(main) + "\n", "kennel.ms": kennel, "stats.ms": stats}, lines, events)


# ----------------------------------------------------------------------------- comparison

_M = re.compile(r'^(.*)#__module__$')


def norm_event(kind, path, base=None):
    """base: the entry's directory as the interpreter sees it (relative prefix or absolute path), stripped."""
    m = _M.match(path)
    p = m.group(1) if m else path
    if p.endswith(".mmm"):
        p = p[:-4]
    p = os.path.normpath(p)
    if base:
        p = os.path.relpath(p, os.path.normpath(base))
    return (kind, p)


def compare(exp_lines, obs_lines, exp_events, obs_events, ok):
    """None, or (deviation class, detail)."""
    if not ok:
        return "failure", "the run did not complete"
    ei = [l for l in exp_lines if l.startswith("init ")]
    oi = [l for l in obs_lines if l.startswith("init ")]
    if sorted(ei) != sorted(oi):
        counts = {}
        for l in oi:
            counts[l] = counts.get(l, 0) + 1
        for l in ei:
            counts[l] = counts.get(l, 0) - 1
        return "init_count", "init lines off by %s" % {k: v for k, v in counts.items() if v}
    if ei != oi:
        return "init_order", "expected %s observed %s" % (ei, oi)
    if exp_lines != obs_lines:
        for a, b in zip(exp_lines, obs_lines):
            if a != b:
                return "shared_state", "first differing line: expected `%s` observed `%s`" % (a, b)
        return "shared_state", "output length %d, expected %d" % (len(obs_lines), len(exp_lines))
    if obs_events is not None and list(exp_events) != list(obs_events):
        return "mod_events", "H-MOD expected %s observed %s" % (exp_events, obs_events)
    return None
