"""C07 model: a reference interpreter for the closure/object subset of MScript with *lexical* scoping and
shared variable cells, plus the world/history generator and the deterministic catalogue of C07.

The interpreter is the executable form of the property statement:
  * every variable is a cell; a function value holds a reference to the chain of scopes (cells) it was
    created in, so owner assignments made later are visible inside it;
  * `modify x = e` writes the cell of the nearest enclosing function's `x`; `x op= e` writes the cell `x`
    resolves to; a plain `x = e` inside a function creates a local when `x` is not a local already;
  * every call of a function creates fresh cells (parameters, locals, block locals per block entry);
  * `f.is_closure()` <=> the function literal has at least one free identifier.
Objects (C08, mv/models/objects.py builds on this file) are Python instances with identity.

The same interpreter also *emulates the implementation's run-time name search* (whole call stack first, capture
map second) next to the lexical resolution and reports every read / op-assign / capture whose two resolutions
differ: that is the known C07 defect, and the random generators use the report as the avoidance rule
`caller_local_shadow` (such histories are discarded, never sent to the binary).

Programs are exchanged as MScript *source text*: generators emit text, `parse` reads it back, so the oracle
interprets exactly what the binary is given."""
import random
import re

I32_MIN, I32_MAX = -2 ** 31, 2 ** 31 - 1


# ============================================================================= lexer / parser

class ParseError(Exception):
    pass


_TOKEN = re.compile(r"""
    (?P<ws>[ \t\r\n]+|\#[^\n]*)
  | (?P<num>\d+)
  | (?P<str>"(?:[^"\\]|\\.)*")
  | (?P<id>[A-Za-z_][A-Za-z0-9_]*)
  | (?P<op>\.\.\.|->|==|!=|<=|>=|&&|\|\||\+=|-=|\*=|/=|%=|[()\[\]{},:.?=<>+\-*/%!])
""", re.X)

KEYWORDS = {"fn", "return", "print", "if", "else", "while", "from", "to", "through", "step", "modify", "const",
            "class", "constructor", "nil", "true", "false", "is", "get", "map", "assert", "break", "continue", "or"}
OPASSIGN = ("+=", "-=", "*=", "/=", "%=")


def tokenize(src):
    out, i, n = [], 0, len(src)
    while i < n:
        m = _TOKEN.match(src, i)
        if not m:
            raise ParseError("bad character %r at %d" % (src[i], i))
        i = m.end()
        k = m.lastgroup
        if k == "ws":
            continue
        out.append((k, m.group(k)))
    out.append(("eof", ""))
    return out


def unescape(s):
    body = s[1:-1]
    out, i = [], 0
    while i < len(body):
        c = body[i]
        if c == "\\":
            i += 1
            out.append({"n": "\n", "t": "\t", "r": "\r", '"': '"', "\\": "\\"}[body[i]])
        else:
            out.append(c)
        i += 1
    return "".join(out)


class Parser:
    """Statements / expressions are tuples.  Statements:
       ('assign', name, expr, flags)   flags subset of {'modify','const'}
       ('unpack', [names], expr) ('setlv', lvalue, op|None, expr) ('print', e) ('return', e|None) ('assert', e)
       ('if', [(cond, block)], else|None) ('while', cond, block) ('from', a, b, incl, step|None, name|None, block)
       ('break',) ('continue',) ('expr', e) ('class', name, fields, ctor|None, methods)
    Expressions:
       ('int', n) ('str', s) ('bool', b) ('nil',) ('name', n) ('bin', op, l, r) ('not', e) ('neg', e) ('get', e)
       ('call', f, args) ('index', e, i) ('dot', e, links) links: ('field', n) | ('mcall', n, args)
       ('fn', params, body, id) ('list', items) ('map', items)"""

    def __init__(self, src):
        self.t = tokenize(src)
        self.i = 0
        self.nfn = 0

    def peek(self, k=0):
        return self.t[min(self.i + k, len(self.t) - 1)]

    def at(self, val, k=0):
        t = self.peek(k)
        return t[0] in ("op", "id") and t[1] == val

    def eat(self, val=None):
        t = self.t[self.i]
        if val is not None and t[1] != val:
            raise ParseError("expected %r, found %r (token %d)" % (val, t[1], self.i))
        self.i += 1
        return t

    def ident(self):
        t = self.eat()
        if t[0] != "id" or t[1] in KEYWORDS:
            raise ParseError("expected identifier, found %r (token %d)" % (t[1], self.i))
        return t[1]

    # ---- types (parsed and discarded)
    def type_(self):
        if self.at("("):
            self.eat("(")
            self.type_()
            self.eat(")")
        elif self.at("fn"):
            self.eat("fn")
            self.eat("(")
            while not self.at(")"):
                self.type_()
                if self.at(","):
                    self.eat(",")
            self.eat(")")
            if self.at("->"):
                self.eat("->")
                self.type_()
        elif self.at("["):
            self.eat("[")
            self.type_()
            if self.at("..."):
                self.eat("...")
            while self.at(","):
                self.eat(",")
                self.type_()
            self.eat("]")
        elif self.at("map"):
            self.eat("map")
            self.eat("[")
            self.type_()
            self.eat(",")
            self.type_()
            self.eat("]")
        else:
            self.ident()
        if self.at("?"):
            self.eat("?")

    # ---- statements
    def program(self):
        out = []
        while self.peek()[0] != "eof":
            out.append(self.stmt())
        return out

    def block(self):
        self.eat("{")
        out = []
        while not self.at("}"):
            out.append(self.stmt())
        self.eat("}")
        return out

    def params(self):
        self.eat("(")
        ps = []
        while not self.at(")"):
            name = self.ident()
            if self.at(":"):
                self.eat(":")
                self.type_()
            ps.append(name)
            if self.at(","):
                self.eat(",")
        self.eat(")")
        return ps

    def is_unpack(self):
        """`[a, b] = e` (all identifiers, then a single `=`)."""
        k = 1
        while True:
            t = self.peek(k)
            if t[0] != "id" or t[1] in KEYWORDS:
                return False
            t = self.peek(k + 1)
            if t[1] == ",":
                k += 2
                continue
            if t[1] == "]":
                return self.peek(k + 2) == ("op", "=")
            return False

    def stmt(self):
        t = self.peek()
        if t[0] == "id":
            v = t[1]
            if v == "class":
                return self.class_()
            if v == "print":
                self.eat()
                return ("print", self.expr())
            if v == "return":
                self.eat()
                if self.at("}"):
                    return ("return", None)
                return ("return", self.expr())
            if v == "assert":
                self.eat()
                return ("assert", self.expr())
            if v == "if":
                return self.if_()
            if v == "while":
                self.eat()
                c = self.expr()
                return ("while", c, self.block())
            if v == "from":
                return self.from_()
            if v == "break" or v == "continue":
                self.eat()
                return (v,)
            if v in ("modify", "const"):
                flags = set()
                while self.peek()[1] in ("modify", "const"):
                    flags.add(self.eat()[1])
                name = self.ident()
                if self.at(":"):
                    self.eat(":")
                    self.type_()
                self.eat("=")
                return ("assign", name, self.expr(), frozenset(flags))
        if t == ("op", "[") and self.is_unpack():
            self.eat("[")
            names = [self.ident()]
            while self.at(","):
                self.eat(",")
                names.append(self.ident())
            self.eat("]")
            self.eat("=")
            return ("unpack", names, self.expr())
        e = self.expr()
        if e[0] == "name" and self.at(":"):
            self.eat(":")
            self.type_()
            self.eat("=")
            return ("assign", e[1], self.expr(), frozenset())
        if self.at("="):
            self.eat("=")
            rhs = self.expr()
            if e[0] == "name":
                return ("assign", e[1], rhs, frozenset())
            self.check_lvalue(e)
            return ("setlv", e, None, rhs)
        if self.peek()[1] in OPASSIGN and self.peek()[0] == "op":
            op = self.eat()[1]
            rhs = self.expr()
            self.check_lvalue(e)
            return ("setlv", e, op[0], rhs)
        return ("expr", e)

    def check_lvalue(self, e):
        if e[0] == "name" or e[0] == "index":
            return
        if e[0] == "dot" and e[2][-1][0] == "field":
            return
        raise ParseError("not assignable: %r" % (e,))

    def if_(self):
        self.eat("if")
        arms = [(self.expr(), self.block())]
        els = None
        while self.at("else"):
            self.eat("else")
            if self.at("if"):
                self.eat("if")
                arms.append((self.expr(), self.block()))
            else:
                els = self.block()
                break
        return ("if", arms, els)

    def from_(self):
        self.eat("from")
        a = self.expr()
        incl = self.eat()[1]
        if incl not in ("to", "through"):
            raise ParseError("from: expected to/through")
        b = self.expr()
        step = None
        if self.at("step"):
            self.eat("step")
            step = self.expr()
        name = None
        if self.at(","):
            self.eat(",")
            name = self.ident()
        return ("from", a, b, incl == "through", step, name, self.block())

    def class_(self):
        self.eat("class")
        name = self.ident()
        self.eat("{")
        fields, methods, ctor = [], {}, None
        while not self.at("}"):
            if self.at("constructor"):
                self.eat("constructor")
                ps = self.params()
                ctor = (ps, self.block())
            elif self.at("fn"):
                self.eat("fn")
                mname = self.ident()
                ps = self.params()
                if self.at("->"):
                    self.eat("->")
                    self.type_()
                methods[mname] = (ps, self.block())
            else:
                fname = self.ident()
                self.eat(":")
                self.type_()
                fields.append(fname)
        self.eat("}")
        return ("class", name, fields, ctor, methods)

    # ---- expressions: is < get < || < && < comparison < + - < * / % < ! - < postfix (one per atom)
    def expr(self):
        l = self.e_get()
        while self.at("is") or self.at("or"):
            if self.at("or"):           # `(x) or fallback`: the fallback is evaluated only when x is nil
                self.eat("or")
                l = ("or", l, self.e_get())
                continue
            self.eat("is")
            r = self.e_get()
            l = ("bin", "is", l, r)
        return l

    def e_get(self):
        if self.at("get"):
            self.eat("get")
            return ("get", self.e_get())
        return self.e_or()

    def e_or(self):
        l = self.e_and()
        while self.at("||"):
            self.eat()
            l = ("bin", "||", l, self.e_and())
        return l

    def e_and(self):
        l = self.e_cmp()
        while self.at("&&"):
            self.eat()
            l = ("bin", "&&", l, self.e_cmp())
        return l

    def e_cmp(self):
        l = self.e_add()
        while self.peek()[0] == "op" and self.peek()[1] in ("==", "!=", "<", "<=", ">", ">="):
            op = self.eat()[1]
            l = ("bin", op, l, self.e_add())
        return l

    def e_add(self):
        l = self.e_mul()
        while self.peek()[0] == "op" and self.peek()[1] in ("+", "-"):
            op = self.eat()[1]
            l = ("bin", op, l, self.e_mul())
        return l

    def e_mul(self):
        l = self.e_unary()
        while self.peek()[0] == "op" and self.peek()[1] in ("*", "/", "%"):
            op = self.eat()[1]
            l = ("bin", op, l, self.e_unary())
        return l

    def e_unary(self):
        if self.at("!"):
            self.eat()
            return ("not", self.e_unary())
        if self.at("-"):
            self.eat()
            return ("neg", self.e_unary())
        return self.e_postfix()

    def args(self):
        self.eat("(")
        out = []
        while not self.at(")"):
            out.append(self.expr())
            if self.at(","):
                self.eat(",")
        self.eat(")")
        return out

    def e_postfix(self):
        a = self.atom()
        if a[0] == "fn":
            return a
        if self.at("("):
            return ("call", a, self.args())
        if self.at("["):
            # `x = f()` NEWLINE `[a, b] = g()`: MScript allows one postfix per atom, an unpack starts a statement
            if self.is_unpack():
                return a
            self.eat("[")
            i = self.expr()
            self.eat("]")
            return ("index", a, i)
        if self.at("."):
            links = []
            while self.at("."):
                self.eat(".")
                n = self.ident()
                if self.at("("):
                    links.append(("mcall", n, self.args()))
                else:
                    links.append(("field", n))
            return ("dot", a, links)
        return a

    def atom(self):
        t = self.eat()
        k, v = t
        if k == "num":
            return ("int", int(v))
        if k == "str":
            return ("str", unescape(v))
        if k == "op":
            if v == "(":
                e = self.expr()
                self.eat(")")
                return ("paren", e)
            if v == "[":
                items = []
                while not self.at("]"):
                    items.append(self.expr())
                    if self.at(","):
                        self.eat(",")
                self.eat("]")
                return ("list", items)
            raise ParseError("unexpected %r (token %d)" % (v, self.i))
        if k == "id":
            if v == "true" or v == "false":
                return ("bool", v == "true")
            if v == "nil":
                return ("nil",)
            if v == "fn":
                ps = self.params()
                if self.at("->"):
                    self.eat("->")
                    self.type_()
                body = self.block()
                self.nfn += 1
                return ("fn", ps, body, self.nfn)
            if v == "map":
                self.eat("[")
                self.type_()
                self.eat(",")
                self.type_()
                self.eat("]")
                self.eat("{")
                items = []
                while not self.at("}"):
                    key = self.expr()
                    self.eat(":")
                    items.append((key, self.expr()))
                    if self.at(","):
                        self.eat(",")
                self.eat("}")
                return ("map", items)
            if v in KEYWORDS:
                raise ParseError("unexpected keyword %r (token %d)" % (v, self.i))
            return ("name", v)
        raise ParseError("unexpected end of input")


def parse(src):
    return Parser(src).program()


# ============================================================================= static analysis (free names)

def free_names(params, body):
    """Free identifiers of a function literal, flow-sensitive like the scoping rules: a read is free when
    the name is not (yet) bound in the function's own scopes at that point.  Returns a set."""
    free = set()
    scopes = [set(params)]

    def bound(n):
        return any(n in s for s in scopes)

    def ex(e):
        k = e[0]
        if k == "name":
            if not bound(e[1]) and e[1] not in ("self", "Self"):
                free.add(e[1])
        elif k in ("int", "str", "bool", "nil"):
            pass
        elif k == "bin":
            ex(e[2])
            ex(e[3])
        elif k == "or":
            ex(e[1])
            ex(e[2])
        elif k in ("not", "neg", "get", "paren"):
            ex(e[1])
        elif k == "call":
            ex(e[1])
            for a in e[2]:
                ex(a)
        elif k == "index":
            ex(e[1])
            ex(e[2])
        elif k == "dot":
            ex(e[1])
            for l in e[2]:
                if l[0] == "mcall":
                    for a in l[2]:
                        ex(a)
        elif k == "fn":
            for n in free_names(e[1], e[2]):
                if not bound(n):
                    free.add(n)
        elif k == "list":
            for a in e[1]:
                ex(a)
        elif k == "map":
            for a, b in e[1]:
                ex(a)
                ex(b)
        else:
            raise ValueError(e)

    def blk(stmts):
        scopes.append(set())
        for s in stmts:
            st(s)
        scopes.pop()

    def st(s):
        k = s[0]
        if k == "assign":
            ex(s[2])
            if "modify" in s[3]:
                free.add(s[1])
            elif not bound(s[1]):
                scopes[-1].add(s[1])
        elif k == "unpack":
            ex(s[2])
            for n in s[1]:
                scopes[-1].add(n)
        elif k == "setlv":
            ex(s[1])
            ex(s[3])
        elif k in ("print", "assert", "expr"):
            ex(s[1])
        elif k == "return":
            if s[1] is not None:
                ex(s[1])
        elif k == "if":
            for c, b in s[1]:
                ex(c)
                blk(b)
            if s[2] is not None:
                blk(s[2])
        elif k == "while":
            ex(s[1])
            blk(s[2])
        elif k == "from":
            ex(s[1])
            ex(s[2])
            if s[4] is not None:
                ex(s[4])
            scopes.append({s[5]} if s[5] else set())
            blk(s[6])
            scopes.pop()
        elif k in ("break", "continue"):
            pass
        else:
            raise ValueError(s)

    for s in body:
        st(s)
    return free


# ============================================================================= values

class Cell:
    __slots__ = ("v",)

    def __init__(self, v):
        self.v = v


class Env:
    """One scope: name -> Cell.  `boundary` marks the outermost scope of a function activation / the module."""
    __slots__ = ("vars", "parent", "boundary")

    def __init__(self, parent, boundary=False):
        self.vars, self.parent, self.boundary = {}, parent, boundary


class FnVal:
    __slots__ = ("params", "body", "env", "fid", "free", "cls")

    def __init__(self, params, body, env, fid, free, cls=None):
        self.params, self.body, self.env, self.fid, self.free, self.cls = params, body, env, fid, free, cls


class ClassVal:
    __slots__ = ("name", "fields", "ctor", "methods", "env")

    def __init__(self, name, fields, ctor, methods, env):
        self.name, self.fields, self.ctor, self.methods, self.env = name, fields, ctor, methods, env


class Obj:
    """An instance: identity is the Python object identity; fields are cells."""
    __slots__ = ("cls", "fields")

    def __init__(self, cls):
        self.cls = cls
        self.fields = {f: Cell(UNSET) for f in cls.fields}


class ListVal:
    __slots__ = ("items",)

    def __init__(self, items):
        self.items = items


class MapVal:
    __slots__ = ("d",)

    def __init__(self, d):
        self.d = d


class _Unset:
    def __repr__(self):
        return "<unset>"


UNSET = _Unset()


class Failure(Exception):
    """A language-defined run-time failure predicted by the model."""

    def __init__(self, kind):
        self.kind = kind


class Discard(Exception):
    """The program leaves the modelled subset (overflow, step budget, unprintable value, ...)."""


class _Return(Exception):
    def __init__(self, v):
        self.v = v


class _Break(Exception):
    pass


class _Continue(Exception):
    pass


def fmt(v, top=True):
    if v is True:
        return "true"
    if v is False:
        return "false"
    if v is None:
        return "nil"
    if isinstance(v, int):
        return str(v)
    if isinstance(v, str):
        return v if top else '"%s"' % v
    if isinstance(v, ListVal):
        return "[" + ", ".join(fmt(x, False) for x in v.items) + "]"
    raise Discard("value without a stable printed form: %r" % (v,))


def values_equal(a, b):
    if isinstance(a, ListVal) and isinstance(b, ListVal):
        return len(a.items) == len(b.items) and all(values_equal(x, y) for x, y in zip(a.items, b.items))
    if isinstance(a, Obj) or isinstance(b, Obj):
        return a is b
    if isinstance(a, (FnVal, ClassVal, MapVal)) or isinstance(b, (FnVal, ClassVal, MapVal)):
        raise Discard("== on functions/maps")
    if isinstance(a, bool) != isinstance(b, bool):
        return False
    return a == b


def tdiv(a, b):
    q = abs(a) // abs(b)
    return q if (a < 0) == (b < 0) else -q


# ============================================================================= interpreter

class Act:
    """A function activation on the model's call stack (for the emulation of the dynamic name search)."""
    __slots__ = ("env", "label", "fn")

    def __init__(self, env, label, fn=None):
        self.env, self.label, self.fn = env, label, fn


class Interp:
    """mutation: None | 'factory_shares_cells' | 'modify_writes_local' | 'capture_by_value' |
    'methods_share_fields' | 'alias_copies' — deliberate breakages used only to validate the engines."""

    def __init__(self, prog, max_steps=200000, max_depth=60, mutation=None):
        self.prog = prog
        self.out = []
        self.steps = 0
        self.max_steps = max_steps
        self.max_depth = max_depth
        self.mutation = mutation
        self.genv = Env(None, True)
        self.stack = [Act(self.genv, "module")]
        self.hazards = []          # (kind, name, reader label, frame label)
        self.stats = {"calls": 0, "closure_calls": 0, "modify": 0, "captured_reads": 0, "captured_opassign": 0,
                      "shadow_locals": 0, "fn_created": 0, "closures_created": 0, "objects": 0, "method_calls": 0,
                      "field_writes": 0, "is_tests": 0}
        self._shared = {}          # mutation support

    # ---- driver
    def run(self):
        """('ok'|'fail', lines, failure kind)"""
        try:
            for s in self.prog:
                self.stmt(s, self.stack[0])
            return ("ok", self.out, None)
        except Failure as f:
            return ("fail", self.out, f.kind)
        except (_Return, _Break, _Continue):
            raise Discard("control flow escaped")

    def tick(self):
        self.steps += 1
        if self.steps > self.max_steps:
            raise Discard("steps")

    # ---- names
    def lex_lookup(self, env, name):
        """(cell, crossed_boundary) by lexical scoping."""
        crossed = False
        e = env
        while e is not None:
            c = e.vars.get(name)
            if c is not None:
                return c, crossed
            if e.boundary:
                crossed = True
            e = e.parent
        return None, crossed

    def dyn_lookup_callers(self, name):
        """What the implementation's `find_name` meets in the frames *below* the current activation."""
        for act in reversed(self.stack[:-1]):
            e = act.env
            while e is not None:
                c = e.vars.get(name)
                if c is not None:
                    return c, act
                if e.boundary:
                    break
                e = e.parent
        return None, None

    def check_hazard(self, kind, name, cell, act):
        dc, frame = self.dyn_lookup_callers(name)
        if dc is not None and dc is not cell:
            self.hazards.append((kind, name, act.label, frame.label))

    def read_name(self, name, act):
        cell, crossed = self.lex_lookup(act.env, name)
        if cell is None:
            raise Discard("unbound name " + name)
        if crossed:
            self.stats["captured_reads"] += 1
            self.check_hazard("read", name, cell, act)
        if cell.v is UNSET:
            raise Discard("read of uninitialised " + name)
        return cell.v

    def assign_plain(self, name, v, act):
        e = act.env
        while e is not None:
            c = e.vars.get(name)
            if c is not None:
                c.v = v
                return
            if e.boundary:
                break
            e = e.parent
        if len(self.stack) > 1:
            c, _ = self.lex_lookup(act.env, name)
            if c is not None:
                self.stats["shadow_locals"] += 1
        act.env.vars[name] = Cell(v)

    def assign_modify(self, name, v, act):
        self.stats["modify"] += 1
        if self.mutation == "modify_writes_local":
            act.env.vars[name] = Cell(v)
            return
        e = act.env
        while e is not None and not e.boundary:
            e = e.parent
        e = e.parent if e is not None else None
        while e is not None:
            c = e.vars.get(name)
            if c is not None:
                c.v = v
                return
            e = e.parent
        raise Discard("modify of unknown " + name)

    # ---- calls
    def call_fn(self, f, args, label):
        self.stats["calls"] += 1
        if f.free:
            self.stats["closure_calls"] += 1
        if len(self.stack) >= self.max_depth:
            raise Discard("depth")
        if len(args) != len(f.params):
            raise Discard("arity")
        env = Env(f.env, True)
        for p, a in zip(f.params, args):
            env.vars[p] = Cell(a)
        act = Act(env, label, f)
        self.stack.append(act)
        try:
            for s in f.body:
                self.stmt(s, act)
            return None
        except _Return as r:
            return r.v
        finally:
            self.stack.pop()

    def construct(self, cls, args):
        self.stats["objects"] += 1
        obj = Obj(cls)
        if self.mutation == "methods_share_fields":
            shared = self._shared.setdefault(cls.name, obj.fields)
            obj.fields = shared
        # the class body frame (its variables are the field cells) is on the stack while the constructor runs
        benv = Env(cls.env, True)
        benv.vars = obj.fields
        self.stack.append(Act(benv, "class " + cls.name))
        try:
            if cls.ctor is not None:
                ps, body = cls.ctor
                f = FnVal(ps, body, cls.env, ("ctor", cls.name), True, cls)
                self.call_fn(f, [obj] + args, cls.name + "::constructor")
            elif args:
                raise Discard("constructor arity")
        finally:
            self.stack.pop()
        return obj

    def call_value(self, f, args, label):
        if isinstance(f, FnVal):
            return self.call_fn(f, args, label)
        if isinstance(f, ClassVal):
            return self.construct(f, args)
        raise Discard("call of a non-function")

    def call_method(self, recv, name, args, act):
        if isinstance(recv, Obj):
            m = recv.cls.methods.get(name)
            if m is not None:
                self.stats["method_calls"] += 1
                ps, body = m
                f = FnVal(ps, body, recv.cls.env, ("method", recv.cls.name, name), True, recv.cls)
                return self.call_fn(f, [recv] + args, "%s::%s" % (recv.cls.name, name))
            c = recv.fields.get(name)
            if c is not None and isinstance(c.v, FnVal):
                return self.call_fn(c.v, args, "field " + name)
            raise Discard("no method " + name)
        if recv is None:
            raise Failure("nil")
        if isinstance(recv, ListVal):
            if name == "push" and len(args) == 1:
                recv.items.append(args[0])
                return None
            if name == "len" and not args:
                return len(recv.items)
            if name == "reverse" and not args:
                recv.items.reverse()
                return None
            if name == "clear" and not args:
                del recv.items[:]
                return None
        if isinstance(recv, FnVal) and name == "is_closure" and not args:
            return bool(recv.free)
        if isinstance(recv, str) and name == "len" and not args:
            return len(recv.encode("utf-8"))
        if isinstance(recv, int) and not isinstance(recv, bool) and name == "to_str" and not args:
            return str(recv)
        raise Discard("unsupported method %s" % name)

    # ---- expressions
    def chk(self, n):
        if not (I32_MIN <= n <= I32_MAX):
            raise Discard("overflow")
        return n

    def binop(self, op, a, b):
        if op == "+":
            if isinstance(a, str) or isinstance(b, str):
                if isinstance(a, (ListVal, Obj, FnVal)) or isinstance(b, (ListVal, Obj, FnVal)):
                    raise Discard("str + aggregate")
                v = fmt(a) + fmt(b)
                if len(v) > 300:
                    raise Discard("string growth")
                return v
            return self.chk(a + b)
        if op in ("==", "!="):
            r = values_equal(a, b)
            return r if op == "==" else not r
        if a is None or b is None or isinstance(a, bool) or isinstance(b, bool):
            raise Discard("arithmetic on nil/bool")
        if op == "-":
            return self.chk(a - b)
        if op == "*":
            return self.chk(a * b)
        if op == "/":
            if b == 0:
                raise Failure("zero_div")
            return self.chk(tdiv(a, b))
        if op == "%":
            if b == 0:
                raise Failure("zero_div")
            return a - tdiv(a, b) * b
        if op == "<":
            return a < b
        if op == "<=":
            return a <= b
        if op == ">":
            return a > b
        if op == ">=":
            return a >= b
        raise ValueError(op)

    def ev(self, e, act):
        self.tick()
        k = e[0]
        if k == "int" or k == "str" or k == "bool":
            return e[1]
        if k == "nil":
            return None
        if k == "name":
            return self.read_name(e[1], act)
        if k == "paren":
            return self.ev(e[1], act)
        if k == "bin":
            op = e[1]
            if op == "&&":
                return self.ev(e[2], act) and self.ev(e[3], act)
            if op == "||":
                return self.ev(e[2], act) or self.ev(e[3], act)
            a = self.ev(e[2], act)
            b = self.ev(e[3], act)
            if op == "is":
                self.stats["is_tests"] += 1
                if isinstance(a, Obj) and isinstance(b, Obj):
                    return a is b
                if isinstance(a, ListVal) and isinstance(b, ListVal):
                    if a is not b and not a.items and not b.items:
                        # two distinct EMPTY lists compare `is`-identical in the implementation (the identity of a
                        # list is its buffer address); out of the modelled subset
                        raise Discard("`is` on two distinct empty lists")
                    return a is b
                if isinstance(a, MapVal) and isinstance(b, MapVal):
                    return a is b
                raise Discard("`is` on non-references")
            return self.binop(op, a, b)
        if k == "not":
            return not self.ev(e[1], act)
        if k == "neg":
            return self.chk(-self.ev(e[1], act))
        if k == "get":
            v = self.ev(e[1], act)
            if v is None:
                raise Failure("nil")
            return v
        if k == "or":
            v = self.ev(e[1], act)
            return self.ev(e[2], act) if v is None else v
        if k == "call":
            callee = e[1]
            if callee[0] == "name" and callee[1] == "Self":
                cls = self.current_class(act)
                args = [self.ev(a, act) for a in e[2]]
                return self.construct(cls, args)
            # arguments are evaluated before the callee is loaded
            args = [self.ev(a, act) for a in e[2]]
            if callee[0] == "name" and callee[1] == "self":
                # recursion: `self(...)` calls the executing function value (same captured cells)
                if act.fn is None or act.fn.cls is not None:
                    raise Discard("self(...) outside a plain function")
                return self.call_fn(act.fn, args, act.label)
            f = self.ev(callee, act)
            label = callee[1] if callee[0] == "name" else "<fn>"
            return self.call_value(f, args, label)
        if k == "index":
            c = self.ev(e[1], act)
            i = self.ev(e[2], act)
            return self.index(c, i)
        if k == "dot":
            v = self.ev(e[1], act)
            for l in e[2]:
                v = self.link(v, l, act)
            return v
        if k == "fn":
            return self.make_fn(e, act)
        if k == "list":
            return ListVal([self.ev(a, act) for a in e[1]])
        if k == "map":
            d = {}
            for a, b in e[1]:
                d[self.ev(a, act)] = self.ev(b, act)
            return MapVal(d)
        raise ValueError(e)

    def current_class(self, act):
        e = act.env
        while e is not None:
            c = e.vars.get("self")
            if c is not None and isinstance(c.v, Obj):
                return c.v.cls
            e = e.parent
        raise Discard("Self outside a class")

    def index(self, c, i):
        if isinstance(c, ListVal):
            if isinstance(i, bool) or not isinstance(i, int):
                raise Discard("index type")
            if not (0 <= i < len(c.items)):
                raise Failure("index")
            return c.items[i]
        if isinstance(c, MapVal):
            if i not in c.d:
                return None
            return c.d[i]
        if c is None:
            raise Failure("nil")
        raise Discard("index of a non-container")

    def link(self, v, l, act):
        if l[0] == "field":
            if v is None:
                raise Failure("nil")
            if not isinstance(v, Obj):
                raise Discard("field of a non-object")
            c = v.fields.get(l[1])
            if c is None:
                raise Discard("no field " + l[1])
            if c.v is UNSET:
                raise Discard("read of an unset field " + l[1])
            return c.v
        args = [self.ev(a, act) for a in l[2]]
        return self.call_method(v, l[1], args, act)

    def make_fn(self, e, act):
        self.stats["fn_created"] += 1
        free = free_names(e[1], e[2])
        for n in sorted(free):
            cell, _ = self.lex_lookup(act.env, n)
            if cell is None:
                raise Discard("free name %s is unbound where the function is created" % n)
            # make_function resolves every captured name through the call stack first, too
            own = self.own_lookup(act.env, n)
            if own is None:
                self.check_hazard("capture", n, cell, act)
        if free:
            self.stats["closures_created"] += 1
        # declaration order: a free name means the binding that is visible where the literal is WRITTEN.  The
        # function sees exactly those cells (by reference); a same-named variable that the creating function
        # declares later is a different variable.
        env = Env(None, False)
        for n in free:
            env.vars[n] = self.lex_lookup(act.env, n)[0]
        if self.mutation == "capture_by_value" and free:
            snap = Env(act.env, False)
            for n in free:
                cell, _ = self.lex_lookup(act.env, n)
                snap.vars[n] = Cell(cell.v)
            env = snap
        elif self.mutation == "factory_shares_cells" and free and len(self.stack) > 1:
            # all activations of the creating function share one set of cells per function literal
            shared = self._shared.get(e[3])
            if shared is None:
                self._shared[e[3]] = act.env
            else:
                env = shared
        return FnVal(e[1], e[2], env, e[3], frozenset(free))

    def own_lookup(self, env, name):
        e = env
        while e is not None:
            c = e.vars.get(name)
            if c is not None:
                return c
            if e.boundary:
                return None
            e = e.parent
        return None

    # ---- statements
    def block(self, stmts, act, env=None):
        saved = act.env
        act.env = env if env is not None else Env(saved)
        try:
            for s in stmts:
                self.stmt(s, act)
        finally:
            act.env = saved

    def stmt(self, s, act):
        self.tick()
        k = s[0]
        if k == "assign":
            v = self.ev(s[2], act)
            if v is None and s[2][0] == "call":
                raise Discard("void stored")
            if "modify" in s[3]:
                self.assign_modify(s[1], v, act)
            else:
                if self.mutation == "alias_copies" and isinstance(v, Obj) and s[2][0] == "name":
                    v = self.copy_obj(v)
                self.assign_plain(s[1], v, act)
        elif k == "unpack":
            v = self.ev(s[2], act)
            if not isinstance(v, ListVal) or len(v.items) < len(s[1]):
                raise Discard("unpack shape")
            for n, x in zip(s[1], v.items):
                act.env.vars[n] = Cell(x)
        elif k == "setlv":
            self.setlv(s, act)
        elif k == "print":
            self.out.append(fmt(self.ev(s[1], act)))
        elif k == "return":
            raise _Return(None if s[1] is None else self.ev(s[1], act))
        elif k == "assert":
            if self.ev(s[1], act) is not True:
                raise Failure("assert")
        elif k == "expr":
            self.ev(s[1], act)
        elif k == "if":
            for c, b in s[1]:
                if self.ev(c, act):
                    self.block(b, act)
                    return
            if s[2] is not None:
                self.block(s[2], act)
        elif k == "while":
            while self.ev(s[1], act):
                try:
                    self.block(s[2], act)
                except _Break:
                    break
                except _Continue:
                    continue
        elif k == "from":
            self.from_(s, act)
        elif k == "break":
            raise _Break()
        elif k == "continue":
            raise _Continue()
        elif k == "class":
            cv = ClassVal(s[1], s[2], s[3], s[4], act.env)
            act.env.vars[s[1]] = Cell(cv)
        else:
            raise ValueError(s)

    def copy_obj(self, o):
        n = Obj(o.cls)
        for f, c in o.fields.items():
            n.fields[f] = Cell(c.v)
        return n

    def from_(self, s, act):
        _, a, b, incl, step, name, body = s
        start = self.ev(a, act)
        end = self.ev(b, act)
        st = 1 if step is None else self.ev(step, act)
        if st <= 0:
            raise Discard("non-positive step")
        saved = act.env
        loop_env = Env(saved)
        counter = Cell(start)
        if name:
            loop_env.vars[name] = counter
        act.env = loop_env
        try:
            while (counter.v <= end) if incl else (counter.v < end):
                self.tick()
                try:
                    self.block(body, act)
                except _Break:
                    break
                except _Continue:
                    pass
                counter.v = self.chk(counter.v + st)
        finally:
            act.env = saved

    def setlv(self, s, act):
        _, target, op, rhs = s
        k = target[0]
        if k == "name":
            # `x op= e`: the name resolves lexically (locals first, then captured cells) and is written in place
            name = target[1]
            cell, crossed = self.lex_lookup(act.env, name)
            if cell is None:
                raise Discard("op-assign of unbound " + name)
            v = self.ev(rhs, act)
            if crossed:
                self.stats["captured_opassign"] += 1
                self.check_hazard("opassign", name, cell, act)
                dc, _ = self.dyn_lookup_callers(name)
                if dc is None:
                    # the defining frame has returned: `bin_op_assign` has no capture-map fallback
                    self.hazards.append(("opassign_escaped", name, act.label, "-"))
            cell.v = self.binop(op, cell.v, v)
            return
        if k == "index":
            c = self.ev(target[1], act)
            i = self.ev(target[2], act)
            v = self.ev(rhs, act)
            if isinstance(c, ListVal):
                if not (isinstance(i, int) and 0 <= i < len(c.items)):
                    raise Failure("index")
                c.items[i] = v if op is None else self.binop(op, c.items[i], v)
            elif isinstance(c, MapVal):
                if op is None:
                    c.d[i] = v
                else:
                    if i not in c.d:
                        raise Failure("index")
                    c.d[i] = self.binop(op, c.d[i], v)
            else:
                raise Discard("index store into a non-container")
            return
        # dotted: evaluate the receiver chain up to the last field
        recv = self.ev(target[1], act)
        for l in target[2][:-1]:
            recv = self.link(recv, l, act)
        fname = target[2][-1][1]
        v = self.ev(rhs, act)
        if recv is None:
            raise Failure("nil")
        if not isinstance(recv, Obj) or fname not in recv.fields:
            raise Discard("field store into a non-object")
        self.stats["field_writes"] += 1
        c = recv.fields[fname]
        if op is None:
            c.v = v
        else:
            if c.v is UNSET:
                raise Discard("op-assign of an unset field")
            c.v = self.binop(op, c.v, v)


def run_model(src, mutation=None):
    """-> dict(status, lines, failkind, hazards, stats) or raises Discard / ParseError."""
    it = Interp(parse(src), mutation=mutation)
    try:
        st, lines, fk = it.run()
    except RecursionError:
        raise Discard("recursion")
    return {"status": st, "lines": lines, "failkind": fk, "hazards": it.hazards, "stats": it.stats}


# ============================================================================= C07 world / history generator

PRELUDE = """idf = fn(ia: int) -> int {
  return ia
}
class Hk {
  hz: int
  constructor(self) {
    self.hz = 1
  }
  fn addv(self, ha: int) -> int {
    return ha + self.hz
  }
}
hk = Hk()
ap0 = fn(fa0: fn() -> int) -> int {
  return fa0()
}
ap1 = fn(fa1: fn(int) -> int, va1: int) -> int {
  return fa1(va1)
}
ap2 = fn(fa2: fn(int) -> int, va2: int) -> int {
  ra2 = fa2(va2)
  rb2 = fa2(va2 + 1)
  return ra2 + rb2
}
idc = fn(fa3: fn(int) -> int) -> (fn(int) -> int) {
  return fa3
}
viaL = fn(fa4: fn() -> int, fb4: fn() -> int) -> int {
  la4: [fn() -> int...] = [fa4]
  la4.push(fb4)
  ea4 = la4[1]
  eb4 = la4[0]
  return ea4() * 1000 + eb4()
}
"""

TYPE_TXT = {"int": "int", "str": "str", "bool": "bool", "list": "[int...]", "opt": "int?", "obj": "Hk"}


def ind(lines, n=1):
    pad = "  " * n
    return [pad + l for l in lines]


class Handle:
    """A callable bound to a module-level name."""

    def __init__(self, name, sig, role, pure, origin, captures_var=True, const=False):
        # sig: 'r:int' 'r:str' 'r:bool' 'r:list' (fn() -> T) | 'w' (fn(int) -> int)
        self.name, self.sig, self.role, self.pure, self.origin, self.captures_var = name, sig, role, pure, origin, captures_var
        self.const = const


class G07:
    def __init__(self, rng, avoid=()):
        """avoid: names of the avoidance rules in force: opassign_escaped, dotcall_arg, reassign_target,
        modify_type_refinement, caller_local_shadow.  Unless `caller_local_shadow` is in force the worlds use
        SAME-NAMED bindings on purpose: locals that shadow a captured name before closures are created over them,
        caller locals / parameters / block locals / loop counters named like the callee's captured variable."""
        self.avoid = set(avoid)
        self.same_names = "caller_local_shadow" not in self.avoid
        allow_opassign_escaped = "opassign_escaped" not in self.avoid
        self.r = rng
        self.n = 0
        self.decl = []            # module-level declaration lines (after the prelude)
        self.mvars = []           # (name, type) observable module variables
        self.handles = []
        self.factories = []       # dict(name, params, products, shape, ...)
        self.features = set()
        self.allow_opassign_escaped = allow_opassign_escaped

    def fresh(self, p):
        self.n += 1
        return "%s%d" % (p, self.n)

    # ---- literals / declarations
    def lit(self, t):
        r = self.r
        if t == "int":
            return str(r.choice([0, 1, 2, 3, 5, 7, 10, 12, 20]))
        if t == "str":
            return '"%s"' % r.choice(["a", "b", "xy", "", "q1"])
        if t == "bool":
            return r.choice(["true", "false"])
        if t == "opt":
            return r.choice(["nil", "4", "9"])
        if t == "obj":
            return "Hk()"
        return "[%s]" % ", ".join(str(r.randint(0, 9)) for _ in range(r.randint(1, 3)))

    def declare(self, name, t, value=None, typed=False):
        v = value if value is not None else self.lit(t)
        if t == "list":
            return "%s: [int...] = %s" % (name, v)
        if t == "str" and typed:
            return "%s: str = %s" % (name, v)
        if t == "opt":
            return "%s: int? = %s" % (name, v)
        return "%s = %s" % (name, v)

    def pick_type(self, local=False):
        ts = ["int", "int", "int", "int", "str", "bool", "list", "obj"]
        if not (local and "modify_type_refinement" in self.avoid):
            ts.append("opt")        # `modify o = d` into an `int?` of a function leaks the dependency (finding E)
        return self.r.choice(ts)

    # ---- use contexts: read captured variable `x` of type t into the int accumulator `acc`
    def read_ctx(self, x, t, acc, siblings=()):
        r = self.r
        f = self.fresh
        if t == "str":
            c = r.randrange(4)
            self.features.add("read:str%d" % c)
            if c == 0:
                return ["%s = %s + %s.len()" % (acc, acc, x)]
            if c == 1:
                s = f("sx")
                return ['%s = %s + "!"' % (s, x), "%s = %s + %s.len()" % (acc, acc, s)]
            if c == 2:
                return ['if %s == "a" {' % x, "  %s = %s + 1" % (acc, acc), "} else {", "  %s = %s + 2" % (acc, acc), "}"]
            return ['print "in " + %s' % x, "%s = %s + 1" % (acc, acc)]
        if t == "bool":
            c = r.randrange(3)
            self.features.add("read:bool%d" % c)
            if c == 0:
                return ["if %s {" % x, "  %s = %s + 1" % (acc, acc), "}"]
            if c == 1:
                return ["if !%s {" % x, "  %s = %s + 3" % (acc, acc), "} else {", "  %s = %s + 4" % (acc, acc), "}"]
            return ["if %s && %s >= 0 {" % (x, acc), "  %s = %s + 5" % (acc, acc), "}"]
        if t == "list":
            c = r.randrange(3)
            self.features.add("read:list%d" % c)
            if c == 0:
                return ["%s = %s + %s.len()" % (acc, acc, x)]
            if c == 1:
                e = f("el")
                return ["%s = %s[0]" % (e, x), "%s = %s + %s" % (acc, acc, e)]
            e = f("el")
            k = f("lk")
            return ["%s = %s.len() - 1" % (k, x), "%s = %s[%s]" % (e, x, k), "%s = %s + %s" % (acc, acc, e)]
        if t == "opt":
            c = r.randrange(2)
            self.features.add("read:opt%d" % c)
            if c == 0:
                return ["if %s == nil {" % x, "  %s = %s + 1" % (acc, acc), "} else {", "  %s = %s + (get %s)" % (acc, acc, x), "}"]
            return ["if %s != nil {" % x, "  %s = %s + (get %s) * 2" % (acc, acc, x), "}"]
        if t == "obj":
            c = r.randrange(3)
            self.features.add("read:obj%d" % c)
            if c == 0:
                return ["%s = %s + %s.hz" % (acc, acc, x)]
            if c == 1:
                return ["%s = %s + %s.addv(2)" % (acc, acc, x)]
            oh = f("oh")
            return ["%s = %s" % (oh, x), "%s = %s + %s.hz" % (acc, acc, oh)]
        n_ctx = 25
        c = r.randrange(n_ctx)
        if c == 14 and not siblings:
            c = 0
        if c == 16 and "dotcall_arg" in self.avoid:
            c = 5
        self.features.add("read:int%d" % c)
        if c == 0:
            return ["%s = %s + %s" % (acc, acc, x)]
        if c == 1:
            return ["if %s > %d {" % (x, r.randint(0, 12)), "  %s = %s + 1" % (acc, acc), "} else {",
                    "  %s = %s - 1" % (acc, acc), "}"]
        if c == 2:
            tk = f("tk")
            return ["%s = true" % tk, "if %s {" % tk, "  %s = %s + %s" % (acc, acc, x), "}"]
        if c == 3:
            wk = f("wk")
            return ["%s = 0" % wk, "while %s < 2 && %s < %s {" % (wk, wk, x), "  %s = %s + %s" % (acc, acc, x),
                    "  %s = %s + 1" % (wk, wk), "}"]
        if c == 4:
            ls, el = f("ls"), f("el")
            return ["%s: [int...] = [%s, 1]" % (ls, x), "%s = %s[0]" % (el, ls), "%s = %s + %s" % (acc, acc, el)]
        if c == 5:
            return ["%s = %s + idf(%s)" % (acc, acc, x)]
        if c == 6:
            return ["%s = %s + %s" % (acc, acc, r.choice(["(-%s)" % x, "%s * 2" % x, "(%s %% 7)" % x, "(%s - 1) * 3" % x]))]
        if c == 7:
            inn = f("inr")
            return ["%s = fn() -> int {" % inn, "  return %s" % x, "}", "%s = %s + %s()" % (acc, acc, inn)]
        if c == 8:
            return ['print "in " + %s' % x, "%s = %s + 1" % (acc, acc)]
        if c == 9:
            mp, em = f("mp"), f("em")
            return ['%s = map[str, int] { "k": %s }' % (mp, x), '%s = %s["k"]' % (em, mp), "%s = %s + %s" % (acc, acc, em)]
        if c == 10:
            op = f("op")
            return ["%s: int? = %s" % (op, x), "%s = %s + (get %s)" % (acc, acc, op)]
        if c == 11:
            ua, ub = f("ua"), f("ub")
            return ["[%s, %s] = [%s, %s + 1]" % (ua, ub, x, x), "%s = %s + %s + %s" % (acc, acc, ua, ub)]
        if c == 12:
            it = f("it")
            return ["from 0 to 2, %s {" % it, "  %s = %s + %s + %s" % (acc, acc, x, it), "}"]
        if c == 13:
            return ["if %s < -1000 {" % x, "  %s = 0" % acc, "} else {", "  %s = %s + %s" % (acc, acc, x), "}"]
        if c == 14:
            return ["%s = %s + %s() + %s" % (acc, acc, r.choice(list(siblings)), x)]
        if c == 15:
            sx = f("sx")
            return ['%s = "v" + %s' % (sx, x), "%s = %s + %s.len()" % (acc, acc, sx)]
        if c == 16:
            return ["%s = %s + hk.addv(%s)" % (acc, acc, x)]
        if c == 17:
            return ["if %s > -50 && %s < 100000 {" % (x, x), "  %s = %s + 1" % (acc, acc), "}",
                    "if !(%s == 0) || %s > 3 {" % (x, acc), "  %s = %s + 2" % (acc, acc), "}"]
        if c == 18:
            it = f("it")
            return ["from 0 through 1, %s {" % it, "  if %s == 1 {" % it, "    %s = %s + %s" % (acc, acc, x), "  }", "}"]
        if c == 19:
            wk = f("wk")
            return ["%s = 0" % wk, "while %s < 1 {" % wk, "  if %s >= 0 {" % wk, "    %s = %s + %s * 2" % (acc, acc, x), "  }",
                    "  %s += 1" % wk, "}"]
        if c == 20:
            it = f("it")
            return ["from %s to %s + 2, %s {" % (x, x, it), "  %s = %s + %s" % (acc, acc, it), "}"]
        if c == 21:
            return ["%s = %s + ap0(fn() -> int {" % (acc, acc), "  return %s" % x, "})"]
        if c == 22:
            return ["assert %s > -100000" % x, "%s = %s + 1" % (acc, acc)]
        if c == 23:
            return ["if %s < 0 {" % x, "  %s = %s + 1" % (acc, acc), "} else if %s < 5 {" % x, "  %s = %s + 2" % (acc, acc),
                    "} else if %s < 10 + %s - %s {" % (x, x, x), "  %s = %s + 3" % (acc, acc), "} else {", "  %s = %s + 4" % (acc, acc), "}"]
        it = f("it")
        return ["from 0 to 4 step (%s - %s + 2), %s {" % (x, x, it), "  %s = %s + 100" % (acc, acc), "}"]

    # ---- write contexts: `modify x = ...` with the int parameter d
    def write_ctx(self, x, t, d):
        r = self.r
        f = self.fresh
        if t == "str":
            c = r.randrange(3)
            self.features.add("write:str%d" % c)
            if c == 0:
                return ["modify %s = %s + %s" % (x, x, d)]
            if c == 1:
                return ['if %s > 2 {' % d, '  modify %s = %s + "+"' % (x, x), "} else {", '  modify %s = "r" + %s' % (x, d), "}"]
            tv = f("tv")
            return ["%s = %s" % (tv, x), 'modify %s = "<" + %s + ">"' % (x, tv)]
        if t == "bool":
            c = r.randrange(2)
            self.features.add("write:bool%d" % c)
            if c == 0:
                return ["modify %s = !%s" % (x, x)]
            return ["modify %s = %s > 1" % (x, d)]
        if t == "list":
            c = r.randrange(4)
            if c == 1 and "reassign_target" in self.avoid:
                c = 0
            self.features.add("write:list%d" % c)
            if c == 0:
                return ["%s.push(%s)" % (x, d)]
            if c == 1:
                return ["%s[0] = %s" % (x, d)]
            if c == 2:
                lw = f("lw")
                return ["%s: [int...] = [%s, 4]" % (lw, d), "modify %s = %s" % (x, lw)]
            return ["if %s.len() < 4 {" % x, "  %s.push(%s + 1)" % (x, d), "}"]
        if t == "opt":
            c = r.randrange(2)
            self.features.add("write:opt%d" % c)
            if c == 0:
                return ["modify %s = %s" % (x, d)]
            return ["if %s > 2 {" % d, "  modify %s = %s + 1" % (x, d), "}"]
        if t == "obj":
            c = r.randrange(4)
            if c == 1 and "reassign_target" in self.avoid:
                c = 3
            self.features.add("write:obj%d" % c)
            if c == 0:
                return ["%s.hz += %s" % (x, d)]
            if c == 1:
                return ["%s.hz = %s" % (x, d)]
            if c == 2:
                return ["modify %s = Hk()" % x, "%s.hz += %s" % (x, d)]
            return ["%s.hz = %s.hz + %s" % (x, x, d)]
        c = r.randrange(10)
        self.features.add("write:int%d" % c)
        if c == 0:
            return ["modify %s = %s + %s" % (x, x, d)]
        if c == 1:
            return ["if %s > 1 {" % d, "  modify %s = %s + %s" % (x, x, d), "} else {", "  modify %s = %s - 1" % (x, x), "}"]
        if c == 2:
            wk = f("wk")
            return ["%s = 0" % wk, "while %s < 2 {" % wk, "  modify %s = %s + %s" % (x, x, d), "  %s = %s + 1" % (wk, wk), "}"]
        if c == 3:
            it = f("it")
            return ["from 0 to 2, %s {" % it, "  modify %s = %s + %s" % (x, x, it), "}"]
        if c == 4:
            inn = f("inw")
            return ["%s = fn() {" % inn, "  modify %s = %s + %s" % (x, x, d), "}", "%s()" % inn]
        if c == 5:
            tv = f("tv")
            return ["%s = %s" % (tv, x), "modify %s = %s * 2 - %s + %s" % (x, tv, tv, d)]
        if c == 6:
            tk = f("tk")
            return ["%s = true" % tk, "if %s {" % tk, "  if %s {" % tk, "    modify %s = %s + 1" % (x, d), "  }", "}"]
        if c == 7:
            inn = f("inw")
            return ["%s = fn(%s: int) -> int {" % (inn, inn + "p"), "  modify %s = %s + %sp" % (x, x, inn),
                    "  return %s" % x, "}", "%s(%s)" % (inn, d), "%s(1)" % inn]
        if c == 8:
            return ["modify %s = idf(%s) + hk.addv(%s)" % (x, x, d)]
        return ["if %s < 0 {" % d, "  modify %s = 0" % x, "} else if %s < 3 {" % d, "  modify %s = %s + %s" % (x, x, d), "} else {",
                "  modify %s = %s - %s" % (x, x, d), "}"]

    # ---- closures
    def reader(self, caps, siblings=(), direct_ok=True):
        """fn() -> T over the captured variables caps=[(name, type)].  Returns (lines of the literal, sig)."""
        r = self.r
        if direct_ok and len(caps) == 1 and caps[0][1] != "obj" and r.random() < 0.25:
            x, t = caps[0]
            self.features.add("reader:direct:" + t)
            return ["fn() -> %s {" % TYPE_TXT[t], "  return %s" % x, "}"], "r:" + t
        acc = self.fresh("acc")
        body = ["%s = 0" % acc]
        for x, t in caps:
            body += self.read_ctx(x, t, acc, siblings)
        if r.random() < 0.3 and caps[0][1] == "int":
            body.append("return %s + %s" % (acc, caps[0][0]))
        else:
            body.append("return %s" % acc)
        return ["fn() -> int {"] + ind(body) + ["}"], "r:int"

    def writer(self, caps, siblings=()):
        """fn(int) -> int that writes the first captured variable and may read the others."""
        r = self.r
        d = self.fresh("d")
        x, t = caps[0]
        body = []
        acc = None
        if len(caps) > 1 or r.random() < 0.3:
            acc = self.fresh("acc")
            body.append("%s = 0" % acc)
            for y, ty in caps[1:]:
                body += self.read_ctx(y, ty, acc, siblings)
        pre = None
        if t == "int" and r.random() < 0.3:
            pre = self.fresh("pre")
            body.append("%s = %s" % (pre, x))
        body += self.write_ctx(x, t, d)
        ret = []
        if t == "int":
            ret.append(x)
        if acc:
            ret.append(acc)
        if pre:
            ret.append(pre + " * 100")
        if not ret:
            ret.append(d)
        body.append("return " + " + ".join(ret))
        return ["fn(%s: int) -> int {" % d] + ind(body) + ["}"], "w"

    def shadower(self, caps):
        """fn(int) -> int that plainly assigns the captured int's NAME (a local is created)."""
        r = self.r
        d = self.fresh("d")
        x, t = caps[0]
        c = r.randrange(9)
        self.features.add("shadow:%d" % c)
        if c == 0:
            body = ["%s = %s" % (x, d), "return %s" % x]
        elif c == 6:      # local first, then `modify` of the same name: the captured variable is written, the local stays
            body = ["%s = %s + %s" % (x, x, d), "modify %s = %s" % (x, x), "return %s" % x]
        elif c == 7:
            body = ["%s = %s" % (x, d), "modify %s = %s * 2" % (x, d), "return %s" % x]
        elif c == 8:      # `modify` first, a local of the same name afterwards
            body = ["modify %s = %s + %s" % (x, x, d), "%s = 1" % x, "return %s + %s" % (x, d)]
        elif c == 1:
            body = ["%s = %s + %s" % (x, x, d), "return %s" % x]
        elif c == 2:
            tv = self.fresh("tv")
            body = ["%s = %s" % (tv, x), "%s = %s + %s" % (x, tv, d), "return %s * 100 + %s" % (x, tv)]
        elif c == 3:
            acc, tk = self.fresh("acc"), self.fresh("tk")
            body = ["%s = 0" % acc, "%s = true" % tk, "if %s {" % tk, "  %s = %s" % (x, d), "  %s = %s" % (acc, x), "}",
                    "return %s * 100 + %s" % (acc, x)]
        elif c == 4:
            body = ['%s = "s" + %s' % (x, d), "return %s.len()" % x]
        else:
            wk = self.fresh("wk")
            body = ["%s = 0" % wk, "while %s < 2 {" % wk, "  %s = %s + %s" % (x, d, wk), "  %s = %s + 1" % (wk, wk), "}",
                    "return %s" % x]
        return ["fn(%s: int) -> int {" % d] + ind(body) + ["}"], "w"

    def opassigner(self, caps):
        """fn(int) -> int doing `x += d` / `x -= d` on the captured variable (writes through)."""
        r = self.r
        d = self.fresh("d")
        x, t = caps[0]
        c = r.randrange(3)
        self.features.add("opassign:%d" % c)
        op = r.choice(["+=", "-=", "+="])
        if c == 0:
            body = ["%s %s %s" % (x, op, d), "return %s" % x]
        elif c == 1:
            body = ["if %s > 0 {" % d, "  %s %s %s" % (x, op, d), "}", "return %s" % x]
        else:
            wk = self.fresh("wk")
            body = ["%s = 0" % wk, "while %s < 2 {" % wk, "  %s %s 1" % (x, op), "  %s += 1" % wk, "}", "return %s + %s" % (x, d)]
        return ["fn(%s: int) -> int {" % d] + ind(body) + ["}"], "w"

    def product(self, role, caps, siblings=()):
        if role == "reader":
            return self.reader(caps, siblings)
        if role == "writer":
            return self.writer(caps, siblings)
        if role == "shadower":
            return self.shadower(caps)
        return self.opassigner(caps)

    @staticmethod
    def bind(name, lit_lines):
        """`name = fn...` from the lines of a literal."""
        return ["%s = %s" % (name, lit_lines[0])] + lit_lines[1:]

    def choose_caps(self, pool, role, must=None):
        """1-2 captured variables for a closure of `role` from pool=[(name, type)]; the first is the target."""
        r = self.r
        if role in ("shadower", "opassigner"):
            cands = [v for v in pool if v[1] == "int"]
        else:
            cands = list(pool)
        if must is not None and (role not in ("shadower", "opassigner") or must[1] == "int"):
            first = must
        else:
            first = r.choice(cands)
        caps = [first]
        others = [v for v in pool if v[0] != first[0]]
        if others and role in ("reader", "writer") and r.random() < 0.5:
            caps.append(r.choice(others))
        return caps

    # ---- module level
    def module_world(self):
        r = self.r
        for _ in range(r.randint(1, 3)):
            t = self.pick_type() if self.mvars else "int"
            name = self.fresh("gv")
            self.decl.append(self.declare(name, t))
            self.mvars.append((name, t))
        ints = [v for v in self.mvars if v[1] == "int"]
        for _ in range(r.randint(1, 4)):
            role = r.choice(["reader", "writer", "writer", "shadower", "opassigner"])
            if role in ("shadower", "opassigner") and not ints:
                role = "writer"
            caps = self.choose_caps(self.mvars, role)
            sibs = [h.name for h in self.handles if h.sig == "r:int"]
            lines, sig = self.product(role, caps, sibs)
            name = self.fresh({"reader": "rd", "writer": "wr", "shadower": "sh", "opassigner": "oa"}[role])
            form = r.random()
            if form < 0.7:
                self.decl += self.bind(name, lines)
                self.features.add("def:module")
            elif form < 0.85:
                # defined inside a block: the holder is declared first, the literal is assigned in the block and
                # captures a block-local as well
                self.block_closure(name, role, caps, sig)
            else:
                self.decl += ["const %s = %s" % (name, lines[0])] + lines[1:]
                self.features.add("def:const")
            self.handles.append(Handle(name, sig, role, role == "reader", "module", const=form >= 0.85))
        if r.random() < 0.5:
            self.plain_function()
        if r.random() < 0.4:
            self.loop_closures_module()
        if r.random() < 0.4:
            self.fnvar_indirection()

    def block_closure(self, name, role, caps, sig):
        r = self.r
        rt = "int" if sig == "w" else TYPE_TXT[sig[2:]]
        bv = self.fresh("bv")
        kind = r.choice(["if", "else", "while", "from"])
        self.features.add("def:block:" + kind)
        if sig == "w":
            q = self.fresh("q")
            holder = ["%s: fn(int) -> int = fn(%s: int) -> int {" % (name, q), "  return %s" % q, "}"]
        else:
            dv = {"int": "0", "str": '""', "bool": "false", "list": None, "opt": "nil"}[sig[2:]]
            if dv is None:
                lz = self.fresh("lz")
                holder = ["%s: fn() -> [int...] = fn() -> [int...] {" % name, "  %s: [int...] = [0]" % lz, "  return %s" % lz, "}"]
            else:
                holder = ["%s: fn() -> %s = fn() -> %s {" % (name, rt, rt), "  return %s" % dv, "}"]
        # the closure in the block additionally touches a block-local int
        d = self.fresh("d")
        if sig == "w":
            x, t = caps[0]
            body = ["modify %s = %s + 1" % (bv, bv)] + self.write_ctx(x, t, d) + ["return %s" % bv]
            lit = ["fn(%s: int) -> int {" % d] + ind(body) + ["}"]
        else:
            acc = self.fresh("acc")
            if sig == "r:int":
                body = ["%s = %s" % (acc, bv)]
                for x, t in caps:
                    body += self.read_ctx(x, t, acc)
                body.append("return %s" % acc)
                lit = ["fn() -> int {"] + ind(body) + ["}"]
            else:
                lit = ["fn() -> %s {" % rt, "  return %s" % caps[0][0], "}"]
        inner = ["%s = %d" % (bv, r.randint(1, 9))] + ["%s = %s" % (name, lit[0])] + lit[1:]
        if kind == "if":
            tk = self.fresh("tk")
            blk = ["%s = true" % tk, "if %s {" % tk] + ind(inner) + ["}"]
        elif kind == "else":
            tk = self.fresh("tk")
            blk = ["%s = false" % tk, "if %s {" % tk, '  print "never"', "} else {"] + ind(inner) + ["}"]
        elif kind == "while":
            wk = self.fresh("wk")
            blk = ["%s = 0" % wk, "while %s < 2 {" % wk] + ind(inner + ["%s = %s + 1" % (wk, wk)]) + ["}"]
        else:
            it = self.fresh("it")
            blk = ["from 0 to 2, %s {" % it] + ind(inner) + ["}"]
        self.decl += holder + blk

    def plain_function(self):
        """A function that captures nothing (is_closure must be false) and one that only shadows."""
        r = self.r
        name = self.fresh("pf")
        p = self.fresh("p")
        loc = self.fresh("loc")
        c = r.randrange(3)
        self.features.add("plain:%d" % c)
        if c == 0:
            self.decl += ["%s = fn(%s: int) -> int {" % (name, p), "  %s = %s + 1" % (loc, p), "  return %s * 2" % loc, "}"]
        elif c == 1:
            inn = self.fresh("inr")
            self.decl += ["%s = fn(%s: int) -> int {" % (name, p), "  %s = %s + 1" % (loc, p), "  %s = fn() -> int {" % inn,
                          "    return %s" % loc, "  }", "  return %s()" % inn, "}"]
        else:
            # assigns the NAME of a module variable before any read: a local, nothing captured
            ints = [v for v in self.mvars if v[1] == "int"]
            x = ints[0][0] if ints else loc
            self.decl += ["%s = fn(%s: int) -> int {" % (name, p), "  %s = %s" % (x, p), "  return %s + 1" % x, "}"]
        self.handles.append(Handle(name, "w", "plain", False, "module", captures_var=False))

    def loop_closures_module(self):
        """Closures created in a module-level loop, each capturing a per-iteration local and a module variable;
        kept in a growable list and retrieved by index into fresh names."""
        r = self.r
        ls = self.fresh("cl")
        it, bl = self.fresh("it"), self.fresh("bl")
        d = self.fresh("d")
        gv = r.choice([v for v in self.mvars if v[1] == "int"] or [None])
        n = r.randint(2, 3)
        self.features.add("def:loop:module")
        body = ["modify %s = %s + %s" % (bl, bl, d)]
        if gv:
            body.append("return %s * 100 + %s" % (bl, gv[0]))
        else:
            body.append("return %s" % bl)
        self.decl += ["%s: [fn(int) -> int...] = []" % ls, "from 0 to %d, %s {" % (n, it), "  %s = %s * 10" % (bl, it),
                      "  %s.push(fn(%s: int) -> int {" % (ls, d)] + ind(body, 2) + ["  })", "}"]
        for i in range(n):
            name = self.fresh("lc")
            self.decl.append("%s = %s[%d]" % (name, ls, i))
            self.handles.append(Handle(name, "w", "writer", False, "loop"))

    def fnvar_indirection(self):
        """A function-typed module variable captured by a closure; the owner may rebind it later."""
        rds = [h for h in self.handles if h.sig == "r:int"]
        if not rds:
            return
        cur = self.fresh("cur")
        name = self.fresh("rd")
        self.features.add("def:fnvar")
        self.decl += ["%s: fn() -> int = %s" % (cur, self.r.choice(rds).name), "%s = fn() -> int {" % name,
                      "  return %s() + 1" % cur, "}"]
        self.fnvar = cur
        self.fnvar_reader = name
        self.handles.append(Handle(name, "r:int", "reader", True, "module"))

    # ---- factories
    def factory(self, in_method=False):
        r = self.r
        shape = r.choice(["pack", "pack", "pack", "single", "single", "nested", "looplist", "block"])
        name = self.fresh("mk")
        params = [(self.fresh("pa"), "int") for _ in range(r.randint(0, 2))]
        locs = []
        body = []
        for _ in range(r.randint(1, 3)):
            t = self.pick_type(local=True) if locs else "int"
            v = self.fresh("fv")
            if t == "int" and params and r.random() < 0.6:
                body.append("%s = %s + %s" % (v, r.choice(params)[0], self.lit("int")))
            else:
                body.append(self.declare(v, t, typed="modify_type_refinement" in self.avoid))
            locs.append((v, t))
        pool = locs + params + ([r.choice(self.mvars)] if self.mvars and r.random() < 0.4 else [])
        if in_method:
            # methods cannot capture `self`: copy a field into a local first
            fv = self.fresh("fv")
            body.append("%s = self.%s" % (fv, self.kfield))
            locs.append((fv, "int"))
            pool.append((fv, "int"))
        fac = {"name": name, "params": params, "shape": shape, "in_method": in_method}
        self.features.add("factory:%s%s" % (shape, ":method" if in_method else ""))
        ptxt = ", ".join("%s: int" % p for p, _ in params)
        if in_method:
            ptxt = "self" + (", " + ptxt if ptxt else "")
        products = []      # (sig, role, pure)
        if shape in ("pack", "block"):
            # a pure probe over all locals + 1-2 more closures
            probe = self.fresh("rd")
            lines, sig = self.reader(locs, direct_ok=False)
            body += self.bind(probe, lines)
            names = [(probe, sig, "reader", True)]
            for _ in range(r.randint(1, 2)):
                roles = ["writer", "writer", "shadower", "reader"]
                if self.allow_opassign_escaped:
                    roles.append("opassigner")
                role = r.choice(roles)
                caps = self.choose_caps(pool, role) if any(v[1] == "int" for v in pool) or role in ("reader", "writer") \
                    else self.choose_caps(pool, "writer")
                if role in ("shadower", "opassigner") and caps[0][1] != "int":
                    role = "writer"
                sibs = [n for n, s, _, p in names if s == "r:int"]
                cn = self.fresh({"reader": "rd", "writer": "wr", "shadower": "sh", "opassigner": "oa"}[role])
                if shape == "block" and role == "writer":
                    body += self.factory_block_closure(cn, caps)
                    sig2 = "w"
                else:
                    lines, sig2 = self.product(role, caps, sibs)
                    body += self.bind(cn, lines)
                names.append((cn, sig2, role, role == "reader"))
            # owner activity after the closures exist
            ints = [v for v in locs if v[1] == "int"]
            if ints and r.random() < 0.6:
                v = r.choice(ints)[0]
                body.append(r.choice(["%s = %s + 1" % (v, v), "%s += 2" % v, "%s = %s * 2" % (v, v)]))
                self.features.add("factory:owner_write_after_creation")
            if r.random() < 0.4:
                cn, sg, _, _ = r.choice(names)
                body.append("print %s(%s)" % (cn, "3" if sg == "w" else ""))
                self.features.add("factory:calls_product_inside")
            rtypes = ", ".join("fn(int) -> int" if s == "w" else "fn() -> %s" % TYPE_TXT[s[2:]] for _, s, _, _ in names)
            if len(names) == 1:
                rtypes += ""
            if r.random() < 0.5:
                pk = self.fresh("pk")
                body += ["const %s = [%s]" % (pk, ", ".join(n for n, _, _, _ in names)), "return %s" % pk]
            else:
                body.append("return [%s]" % ", ".join(n for n, _, _, _ in names))
            fac["ret"] = "[%s]" % rtypes
            products = [(s, ro, p) for _, s, ro, p in names]
        elif shape == "single":
            role = r.choice(["writer", "writer", "reader"])
            caps = self.choose_caps(pool, role, must=locs[0])
            lines, sig = self.product(role, caps)
            if r.random() < 0.5:
                cn = self.fresh("wr")
                body += self.bind(cn, lines)
                ints = [v for v in locs if v[1] == "int"]
                if ints and r.random() < 0.5:
                    v = r.choice(ints)[0]
                    body.append("%s = %s + 1" % (v, v))
                    self.features.add("factory:owner_write_after_creation")
                body.append("return %s" % cn)
            else:
                body += ["return " + lines[0]] + lines[1:]
                self.features.add("factory:returns_literal")
            fac["ret"] = "(fn(int) -> int)" if sig == "w" else "(fn() -> %s)" % TYPE_TXT[sig[2:]]
            products = [(sig, role, role == "reader")]
        elif shape == "nested":
            # depth 3: the factory returns a closure-making closure
            mp = self.fresh("pb")
            mloc = self.fresh("fv")
            mbody = ["%s = %s + %s" % (mloc, mp, locs[0][0] if locs[0][1] == "int" else "1")]
            if locs[0][1] == "int" and self.same_names and r.random() < 0.35:
                # the middle function shadows the factory's variable before creating the inner closures
                mbody.append("%s = %s + 10" % (locs[0][0], locs[0][0]))
                self.features.add("factory:nested:mid_shadow")
            elif locs[0][1] == "int" and r.random() < 0.6:
                mbody.append("modify %s = %s + 1" % (locs[0][0], locs[0][0]))
            pool2 = pool + [(mloc, "int"), (mp, "int")]
            probe = self.fresh("rd")
            lines, sig = self.reader(locs + [(mloc, "int")], direct_ok=False)
            mbody += self.bind(probe, lines)
            role = r.choice(["writer", "writer", "shadower"])
            caps = self.choose_caps(pool2, role, must=r.choice([(mloc, "int"), locs[0]]))
            if role == "shadower" and caps[0][1] != "int":
                role = "writer"
            wn = self.fresh("wr")
            lines, sig2 = self.product(role, caps, [probe])
            mbody += self.bind(wn, lines)
            mbody.append("return [%s, %s]" % (probe, wn))
            body += ["return fn(%s: int) -> [fn() -> int, fn(int) -> int] {" % mp] + ind(mbody) + ["}"]
            fac["ret"] = "(fn(int) -> [fn() -> int, fn(int) -> int])"
            products = [("r:int", "reader", True), ("w", role, False)]
        else:   # looplist
            it, bl, d = self.fresh("it"), self.fresh("bl"), self.fresh("d")
            ls = self.fresh("cl")
            n = r.randint(2, 3)
            sh = locs[0][0] if locs[0][1] == "int" else None
            cb = ["modify %s = %s + %s" % (bl, bl, d)]
            if sh:
                cb.append("modify %s = %s + 1" % (sh, sh))
                cb.append("return %s * 100 + %s" % (bl, sh))
            else:
                cb.append("return %s" % bl)
            lk = r.choice(["from", "while"])
            if lk == "from":
                body += ["%s: [fn(int) -> int...] = []" % ls, "from 0 to %d, %s {" % (n, it), "  %s = %s * 10" % (bl, it),
                         "  %s.push(fn(%s: int) -> int {" % (ls, d)] + ind(cb, 2) + ["  })", "}"]
            else:
                body += ["%s: [fn(int) -> int...] = []" % ls, "%s = 0" % it, "while %s < %d {" % (it, n),
                         "  %s = %s * 10" % (bl, it),
                         "  %s.push(fn(%s: int) -> int {" % (ls, d)] + ind(cb, 2) + ["  })", "  %s = %s + 1" % (it, it), "}"]
            body.append("return %s" % ls)
            fac["ret"] = "[fn(int) -> int...]"
            fac["n"] = n
            products = [("w", "writer", False)] * n
        fac["products"] = products
        head = "fn(%s) -> %s {" % (ptxt, fac["ret"])
        if in_method:
            return fac, ["fn %s(%s) -> %s {" % (name, ptxt, fac["ret"])] + ind(body) + ["}"]
        self.decl += ["%s = %s" % (name, head)] + ind(body) + ["}"]
        self.factories.append(fac)
        return fac, None

    def factory_block_closure(self, cn, caps):
        """Inside a factory: holder + closure assigned in a block, capturing a block-local."""
        r = self.r
        q, bv, d = self.fresh("q"), self.fresh("bv"), self.fresh("d")
        x, t = caps[0]
        lit = ["fn(%s: int) -> int {" % d] + ind(["modify %s = %s + 1" % (bv, bv)] + self.write_ctx(x, t, d) +
                                                 ["return %s" % bv]) + ["}"]
        inner = ["%s = %d" % (bv, r.randint(1, 9)), "%s = %s" % (cn, lit[0])] + lit[1:]
        kind = r.choice(["if", "while", "from"])
        self.features.add("def:block:factory:" + kind)
        out = ["%s: fn(int) -> int = fn(%s: int) -> int {" % (cn, q), "  return %s" % q, "}"]
        if kind == "if":
            tk = self.fresh("tk")
            out += ["%s = true" % tk, "if %s {" % tk] + ind(inner) + ["}"]
        elif kind == "while":
            wk = self.fresh("wk")
            out += ["%s = 0" % wk, "while %s < 2 {" % wk] + ind(inner + ["%s = %s + 1" % (wk, wk)]) + ["}"]
        else:
            it = self.fresh("it")
            out += ["from 0 to 2, %s {" % it] + ind(inner) + ["}"]
        return out

    def method_world(self):
        """A class whose methods create closures over method locals / parameters / module variables."""
        r = self.r
        cname = self.fresh("Kc")
        self.kfield = self.fresh("kf")
        facs = []
        mlines = []
        for _ in range(r.randint(1, 2)):
            fac, lines = self.factory(in_method=True)
            facs.append(fac)
            mlines += lines
        # a method that writes a module variable directly, and one that reads it
        extra = []
        ints = [v for v in self.mvars if v[1] == "int"]
        if ints:
            gv = r.choice(ints)[0]
            mn, mp = self.fresh("mw"), self.fresh("pa")
            extra += ["fn %s(self, %s: int) -> int {" % (mn, mp), "  modify %s = %s + %s + self.%s" % (gv, gv, mp, self.kfield),
                      "  return %s" % gv, "}"]
            self.method_writer = mn
        ca = self.fresh("pa")
        self.kcb = None
        cfields, cinit = [], []
        if r.random() < 0.6:
            # a closure created by the constructor (captures the constructor parameter and a module variable), kept in a field
            self.kcb = self.fresh("kcb")
            gvs = [v for v in self.mvars if v[1] == "int"]
            expr = ca + (" + " + r.choice(gvs)[0] if gvs else "")
            cfields.append("  %s: fn() -> int" % self.kcb)
            cinit += ["    self.%s = fn() -> int {" % self.kcb, "      return %s" % expr, "    }"]
            self.features.add("def:constructor_closure")
        cls = ["class %s {" % cname, "  %s: int" % self.kfield] + cfields + ["  constructor(self, %s: int) {" % ca,
               "    self.%s = %s" % (self.kfield, ca)] + cinit + ["  }"] + ind(mlines + extra) + ["}"]
        self.decl += cls
        objs = []
        for _ in range(r.randint(1, 2)):
            on = self.fresh("ko")
            self.decl.append("%s = %s(%d)" % (on, cname, r.randint(1, 9)))
            objs.append(on)
        for fac in facs:
            fac["objs"] = objs
            self.factories.append(fac)
        self.kobjs = objs
        self.features.add("world:method")

    # ---- same-named bindings (only while run-time lookup is lexical, see `same_names`)
    def shadow_helpers(self):
        """Higher-order helpers whose own local / parameter / loop counter / block local is NAMED LIKE a module
        variable that the closures they call have captured."""
        r = self.r
        ints = [v for v in self.mvars if v[1] == "int"]
        if not ints:
            return
        gv = r.choice(ints)[0]
        self.shadow_gv = gv
        f = self.fresh
        if r.random() < 0.7:
            n, fa = f("apS"), f("fa")
            self.decl += ["%s = fn(%s: fn() -> int) -> int {" % (n, fa), "  %s = 999" % gv, "  return %s() + %s - 999" % (fa, gv), "}"]
            self.shadow_ap0.append(n)
            self.features.add("same_name:caller_local")
        if r.random() < 0.7:
            n, fa = f("apP"), f("fa")
            self.decl += ["%s = fn(%s: fn(int) -> int, %s: int) -> int {" % (n, fa, gv), "  return %s(%s) + %s" % (fa, gv, gv), "}"]
            self.shadow_ap1.append(n)
            self.features.add("same_name:caller_parameter")
        if r.random() < 0.7:
            n, fa, rr = f("apB"), f("fa"), f("rr")
            self.decl += ["%s = fn(%s: fn() -> int) -> int {" % (n, fa), "  %s = 0" % rr, "  from 0 to 2, %s {" % gv,
                          "    %s = %s + %s() + %s" % (rr, rr, fa, gv), "  }", "  if %s > -100000 {" % rr, "    %s = 50" % gv,
                          "    %s = %s + %s() * 3 + %s" % (rr, rr, fa, gv), "  }", "  return %s" % rr, "}"]
            self.shadow_ap0.append(n)
            self.features.add("same_name:caller_loop_counter_and_block_local")
        if r.random() < 0.5:
            n, fa, d = f("apW"), f("fa"), f("d")
            self.decl += ["%s = fn(%s: fn(int) -> int, %s: int) -> int {" % (n, fa, d), "  %s = %s" % (gv, d), "  %s = %s + 1" % (gv, gv),
                          "  return %s(%s) * 1000 + %s" % (fa, gv, gv), "}"]
            self.shadow_ap1.append(n)
            self.features.add("same_name:caller_local_written")

    def shadow_factory(self):
        """A factory that reads a captured variable, binds a SAME-NAMED plain local and then creates closures over
        that local: they must see the local (one fresh cell per activation), never the outer variable."""
        r = self.r
        ints = [v for v in self.mvars if v[1] == "int"]
        if not ints:
            return
        gv = r.choice(ints)[0]
        name = self.fresh("mk")
        pa = self.fresh("pa")
        c = r.randrange(4)
        self.features.add("factory:shadow:%d" % c)
        if c == 0:
            body = ["%s = %s + %s" % (gv, gv, pa)]
        elif c == 1:
            body = ["%s = %s * 0 + %s" % (gv, gv, pa)]
        elif c == 2:
            tv = self.fresh("tv")
            body = ["%s = %s" % (tv, gv), "%s = %s + %s + 1" % (gv, tv, pa)]
        else:
            tk = self.fresh("tk")
            body = ["%s = %s > -100000" % (tk, gv), "%s = %s" % (gv, pa), "if %s {" % tk, "  %s = %s + 100" % (gv, gv), "}"]
        probe = self.fresh("rd")
        lines, sig = self.reader([(gv, "int")], direct_ok=False)
        body += self.bind(probe, lines)
        wn = self.fresh("wr")
        role = r.choice(["writer", "writer", "opassigner" if self.allow_opassign_escaped else "writer"])
        lines, _ = self.product(role, [(gv, "int")], [probe])
        body += self.bind(wn, lines)
        if r.random() < 0.4:
            body.append("%s = %s + 1" % (gv, gv))
        body.append("return [%s, %s]" % (probe, wn))
        self.decl += ["%s = fn(%s: int) -> [fn() -> int, fn(int) -> int] {" % (name, pa)] + ind(body) + ["}"]
        self.factories.append({"name": name, "params": [(pa, "int")], "shape": "pack", "in_method": False,
                               "products": [("r:int", "reader", True), ("w", role, False)],
                               "ret": "[fn() -> int, fn(int) -> int]"})

    def run_function(self):
        """A function that re-assigns a local closure variable from a second call of the same factory."""
        r = self.r
        cands = [f for f in self.factories if f["shape"] == "single" and not f["in_method"] and f["products"][0][0] == "w"]
        if not cands:
            return
        fac = r.choice(cands)
        name, pr, st, f1 = self.fresh("run"), self.fresh("pr"), self.fresh("st"), self.fresh("f")

        def call():
            return "%s(%s)" % (fac["name"], ", ".join(str(r.randint(0, 9)) for _ in fac["params"]))
        self.decl += ["%s = fn(%s: int) -> int {" % (name, pr), "  %s = %s" % (st, call()), "  %s = %s(%s)" % (f1, st, pr),
                      "  %s = %s" % (st, call()), "  return %s * 1000 + %s(%s) + %s(1)" % (f1, st, pr, st), "}"]
        self.run_fn = name
        self.features.add("def:rebind_in_function")

    # ---- instances
    def instantiate(self, fac):
        """Lines creating one more instance of `fac` at module level + the new handles."""
        r = self.r
        args = ", ".join(str(r.randint(0, 9)) for _ in fac["params"])
        if fac["in_method"]:
            call = "%s.%s(%s)" % (r.choice(fac["objs"]), fac["name"], args)
        else:
            call = "%s(%s)" % (fac["name"], args)
        shape = fac["shape"]
        lines, hs = [], []
        origin = "method" if fac["in_method"] else "factory"

        def mk(sig, role, pure):
            n = self.fresh({"reader": "rd", "writer": "wr", "shadower": "sh", "opassigner": "oa"}[role])
            hs.append(Handle(n, sig, role, pure, origin))
            return n
        if shape in ("pack", "block"):
            names = [mk(*p) for p in fac["products"]]
            lines.append("[%s] = %s" % (", ".join(names), call))
        elif shape == "single":
            n = mk(*fac["products"][0])
            lines.append("%s = %s" % (n, call))
        elif shape == "nested":
            mid = self.fresh("mid")
            lines.append("%s = %s" % (mid, call))
            for _ in range(r.randint(1, 2)):
                names = [mk(*p) for p in fac["products"]]
                lines.append("[%s] = %s(%d)" % (", ".join(names), mid, r.randint(0, 9)))
        else:
            ls = self.fresh("li")
            lines.append("%s = %s" % (ls, call))
            for i in range(fac["n"]):
                n = mk(*fac["products"][i])
                lines.append("%s = %s[%d]" % (n, ls, i))
        return lines, hs

    # ---- whole case
    def world(self):
        r = self.r
        self.fnvar = None
        self.method_writer = None
        self.kobjs = []
        self.kcb = None
        self.apg = None
        self.run_fn = None
        self.shadow_ap0, self.shadow_ap1 = [], []
        self.module_world()
        if self.same_names:
            self.shadow_helpers()
        gvs = [v for v in self.mvars if v[1] == "int"]
        if gvs and r.random() < 0.5:
            # a higher-order helper that is itself a closure over a module variable
            self.apg = self.fresh("apg")
            fa, gv = self.fresh("fa"), r.choice(gvs)[0]
            self.decl += ["%s = fn(%s: fn(int) -> int) -> int {" % (self.apg, fa), "  return %s(%s) + %s" % (fa, gv, gv), "}"]
            self.features.add("def:closure_helper")
        for _ in range(r.choice([0, 1, 1, 2, 2])):
            self.factory()
        if self.same_names and r.random() < 0.5:
            self.shadow_factory()
        if r.random() < 0.5:
            self.run_function()
        if r.random() < 0.35:
            self.method_world()
        # one initial instance of every factory so that the history has something to call
        for fac in self.factories:
            for _ in range(r.choice([1, 1, 2])):
                lines, hs = self.instantiate(fac)
                self.decl += lines
                self.handles += hs

    def observe(self):
        lines = []
        for name, t in self.mvars:
            lines.append("print %s" % (name + ".hz" if t == "obj" else name))
        pure = [h for h in self.handles if h.pure]
        for h in pure[:10]:
            lines.append("print %s()" % h.name)
        return lines

    def step(self):
        """One history step: (kind, lines)."""
        r = self.r
        ints = [v for v in self.mvars if v[1] == "int"]
        ws = [h for h in self.handles if h.sig == "w"]
        rs = [h for h in self.handles if h.sig.startswith("r:")]
        rints = [h for h in self.handles if h.sig == "r:int"]
        for _ in range(20):
            c = r.random()
            if c < 0.05:
                out = self.rebind_step(ws, rs)
                if out:
                    return out
                continue
            if c < 0.08:
                out = self.equal_reassign_step()
                if out:
                    return out
                continue
            if c < 0.14:
                name, t = r.choice(self.mvars)
                if t == "obj" and r.random() < 0.5:
                    return "owner_field_write", ["%s.hz = %d" % (name, r.randint(0, 9))]
                return "owner_assign", [self.declare(name, t)]
            if c < 0.22:
                if ints:
                    return "owner_opassign", ["%s %s %d" % (r.choice(ints)[0], r.choice(["+=", "-=", "*="]), r.randint(1, 3))]
                strs = [v for v in self.mvars if v[1] == "str"]
                if strs:
                    return "owner_opassign", ['%s += "o"' % r.choice(strs)[0]]
                continue
            if c < 0.50 and ws:
                h = r.choice(ws)
                return "call_" + h.role, ["print %s(%d)" % (h.name, r.randint(0, 5))]
            if c < 0.58 and rs:
                h = r.choice(rs)
                return "call_reader", ["print %s()" % h.name]
            if c < 0.74:
                if r.random() < 0.35:
                    opts = []
                    if self.shadow_ap0 and rints:
                        opts.append(("call_via_same_name", "print %s(%s)" % (r.choice(self.shadow_ap0), r.choice(rints).name)))
                    if self.shadow_ap1 and ws:
                        opts.append(("call_via_same_name", "print %s(%s, %d)" % (r.choice(self.shadow_ap1), r.choice(ws).name, r.randint(0, 5))))
                    if self.run_fn:
                        opts.append(("call_rebind_in_function", "print %s(%d)" % (self.run_fn, r.randint(0, 5))))
                    if opts:
                        k, l = r.choice(opts)
                        return k, [l]
                k = r.randrange(5)
                if k == 0 and rints:
                    return "call_via", ["print ap0(%s)" % r.choice(rints).name]
                if k == 1 and ws:
                    return "call_via", ["print ap1(%s, %d)" % (r.choice(ws).name, r.randint(0, 5))]
                if k == 2 and ws:
                    return "call_via", ["print ap2(%s, %d)" % (r.choice(ws).name, r.randint(0, 5))]
                if k == 3 and ws:
                    n = self.fresh("wr")
                    h = r.choice(ws)
                    self.handles.append(Handle(n, "w", h.role, False, h.origin, h.captures_var))
                    return "call_via", ["%s = idc(%s)" % (n, h.name), "print %s(%d)" % (n, r.randint(0, 5))]
                if k == 4 and len(rints) >= 1:
                    return "call_via", ["print viaL(%s, %s)" % (r.choice(rints).name, r.choice(rints).name)]
                if k == 2 and self.apg and ws:
                    return "call_via", ["print %s(%s)" % (self.apg, r.choice(ws).name)]
                continue
            if c < 0.84 and self.factories:
                lines, hs = self.instantiate(r.choice(self.factories))
                self.handles += hs
                return "new_instance", lines
            if c < 0.89 and self.handles:
                h = r.choice(self.handles)
                return "is_closure", ["print %s.is_closure()" % h.name]
            if c < 0.93 and self.fnvar and rints:
                cands = [h for h in rints if h.name != self.fnvar_reader]     # (rebinding to its own reader would recurse forever)
                if cands:
                    return "owner_assign_fn", ["%s = %s" % (self.fnvar, r.choice(cands).name)]
                continue
            if self.kcb and self.kobjs and r.random() < 0.5:
                return "call_field_closure", ["print %s.%s()" % (r.choice(self.kobjs), self.kcb)]
            if self.method_writer and self.kobjs:
                return "call_method", ["print %s.%s(%d)" % (r.choice(self.kobjs), self.method_writer, r.randint(0, 4))]
        return "call_reader", ["print idf(1)"]

    def rebind_step(self, ws, rs):
        """Re-assign an EXISTING closure variable: from another closure of the same signature (often made by another
        activation of the same factory literal) or from a fresh factory call."""
        r = self.r
        pool = r.choice([ws, rs])
        targets = [h for h in pool if not h.const]
        if not targets:
            return None
        a = r.choice(targets)
        singles = [f for f in self.factories if f["shape"] == "single" and f["products"][0][0] == a.sig]
        if singles and r.random() < 0.7:
            fac = r.choice(singles)
            args = ", ".join(str(r.randint(0, 9)) for _ in fac["params"])
            call = "%s.%s(%s)" % (r.choice(fac["objs"]), fac["name"], args) if fac["in_method"] else "%s(%s)" % (fac["name"], args)
            sig, role, pure = fac["products"][0]
            a.role, a.pure, a.origin, a.captures_var = role, pure, "factory", True
            return "rebind_closure_fresh_call", ["%s = %s" % (a.name, call)]
        same = [h for h in pool if h.sig == a.sig and h.name != a.name]
        # prefer a closure made by another activation of the same factory (same code, other cells)
        pref = [h for h in same if h.origin == a.origin and h.role == a.role]
        b = r.choice(pref or same) if (pref or same) else None
        if b is None:
            return None
        a.role, a.pure, a.origin, a.captures_var = b.role, b.pure, b.origin, b.captures_var
        return "rebind_closure", ["%s = %s" % (a.name, b.name)]

    def equal_reassign_step(self):
        """Owner re-assigns a variable with an equal-looking value: the same int, or a DIFFERENT list with the same
        contents (afterwards the new list is mutated: the variable must show it)."""
        r = self.r
        lists = [v for v in self.mvars if v[1] == "list"]
        ints = [v for v in self.mvars if v[1] == "int"]
        if lists and r.random() < 0.85:
            gl = r.choice(lists)[0]
            nl, it, el = self.fresh("nl"), self.fresh("it"), self.fresh("el")
            return "owner_assign_equal_list", ["%s: [int...] = []" % nl, "from 0 to %s.len(), %s {" % (gl, it),
                                               "  %s = %s[%s]" % (el, gl, it), "  %s.push(%s)" % (nl, el), "}",
                                               "%s = %s" % (gl, nl), "%s.push(%d)" % (nl, r.randint(0, 9))]
        if ints:
            gv = r.choice(ints)[0]
            return "owner_assign_equal_int", [r.choice(["%s = idf(%s)" % (gv, gv), "%s = %s + 0" % (gv, gv)])]
        return None

    def case(self, max_steps=12):
        self.world()
        src = [PRELUDE.rstrip("\n")] + self.decl
        src.append('print "@0 init"')
        src += self.observe()
        kinds = ["init"]
        nsteps = self.r.randint(4, max_steps)
        for i in range(1, nsteps + 1):
            kind, lines = self.step()
            kinds.append(kind)
            src.append('print "@%d %s"' % (i, kind))
            src += lines
            src += self.observe()
        return "\n".join(src) + "\n", kinds


def gen_history(seed, avoid=(), max_steps=12):
    """-> (source, step kinds, features)"""
    g = G07(random.Random(seed), avoid)
    src, kinds = g.case(max_steps)
    return src, kinds, sorted(g.features)


def split_steps(lines):
    """Group output lines by the `@i kind` markers -> list of (marker or None, [lines])."""
    out = [[None, []]]
    for l in lines:
        if l.startswith("@"):
            out.append([l, []])
        else:
            out[-1][1].append(l)
    return out


def first_deviation(expected, observed):
    """Index/kind of the first step whose lines differ -> (step index, kind) ; (None, None) when equal."""
    e, o = split_steps(expected), split_steps(observed)
    for i in range(max(len(e), len(o))):
        a = e[i] if i < len(e) else None
        b = o[i] if i < len(o) else None
        if a != b:
            m = (a or b)[0]
            if m is None:
                return 0, "prelude"
            parts = m.split(" ", 1)
            return int(parts[0][1:]), (parts[1] if len(parts) > 1 else "?")
    return None, None
