"""Reference model of the MScript string and number built-ins (property C14).

One function per method.  Every function returns a `Spec`:

    Spec.accept    list of acceptable outcomes: FAIL or V(kind, value)
    Spec.declared  the static result type the signature declares (text of `typeof`)
    Spec.open      True when the statement/tests do not fix one meaning and several readings are accepted
    Spec.readings  names of the readings that were merged (for the evidence file)

Outcomes: `FAIL` = "the program stops with a failure" (any failure class);
`V(kind, value)` = a printed value of run-time kind `kind`
(Int BigInt Float Byte Bool Str Nil StrList), floats carry a tolerance class.

Sources of the semantics: compiler/src/tests/builtins.rs (string_properties, number_properties),
compiler/src/tests/types.rs (escape_sequence_strings), compiler/src/ast/type.rs (declared signatures).
Where neither fixes the meaning, every reasonable reading is accepted (see `ASSUMPTIONS`).
Python 3 standard library only."""
import math
import re
import struct
from decimal import Decimal

I32_MIN, I32_MAX = -2 ** 31, 2 ** 31 - 1
I128_MIN, I128_MAX = -2 ** 127, 2 ** 127 - 1
DBL_MAX = 1.7976931348623157e308

FAIL = ("fail",)


class V:
    """An expected value.  tol: 0 = exact double, 1 = libm tolerance (relative 1e-12 + lenient overflow /
    underflow zones)."""
    __slots__ = ("kind", "val", "tol")

    def __init__(self, kind, val, tol=0):
        self.kind, self.val, self.tol = kind, val, tol

    def key(self):
        v = self.val
        if isinstance(v, float):
            v = struct.pack(">d", v).hex() if v == v else "nan"
        elif isinstance(v, list):
            v = tuple(v)
        return (self.kind, v, self.tol)

    def kind_text(self):
        if self.kind == "FloatText":
            return "Str"
        if self.kind == "StrList":
            return "Vector[%s]" % ",".join(["Str"] * len(self.val))
        return self.kind

    def text(self):
        return render(self.kind, self.val)

    def __repr__(self):
        return "V(%s, %r)" % (self.kind, self.val)


class Spec:
    __slots__ = ("accept", "declared", "open", "readings")

    def __init__(self, accept, declared, open=False, readings=()):
        """accept: outcomes; readings: one name per outcome (same order) when the spec is open."""
        names = list(readings) if len(readings) == len(accept) else ["reading_%d" % i for i in range(len(accept))]
        seen, acc, nm = {}, [], []
        for o, n in zip(accept, names):
            k = o if o is FAIL else o.key()
            if k not in seen:
                seen[k] = len(acc)
                acc.append(o)
                nm.append(n)
            elif n not in nm[seen[k]].split("|"):
                nm[seen[k]] += "|" + n          # an outcome several readings agree on carries all their names
        self.accept, self.declared, self.open, self.readings = acc, declared, open, tuple(nm)

    def reading_of(self, observed):
        for o, n in zip(self.accept, self.readings):
            if outcome_matches(o, observed):
                return n
        return None

    def expects_failure_only(self):
        return all(o is FAIL for o in self.accept)

    def may_fail(self):
        return any(o is FAIL for o in self.accept)

    def describe(self):
        out = []
        for o in self.accept:
            out.append("failure" if o is FAIL else "«%s» %s" % (o.kind_text(), o.text()))
        return out


# ----------------------------------------------------------------------------- rendering (what `print` shows)

def fmt_float(x):
    """Rust `Display` for f64: shortest round-trip digits, positional notation, no trailing `.0`."""
    if x != x:
        return "NaN"
    if x in (math.inf, -math.inf):
        return "inf" if x > 0 else "-inf"
    if x == 0:
        return "-0" if math.copysign(1.0, x) < 0 else "0"
    t = format(Decimal(repr(x)), "f")
    if "." in t:
        t = t.rstrip("0").rstrip(".")
    return t


def fmt_float_all(x):
    """Every text Rust `Display` may legitimately give: the shortest round-trip text, plus - when the double lies
    exactly half-way between two shortest candidates of the same length (1722754833044097.25 -> ….2 / ….3) - the
    other candidate; which way such a tie is broken is not part of any statement."""
    t = fmt_float(x)
    out = [t]
    if x != x or x in (math.inf, -math.inf) or x == 0:
        return out
    from fractions import Fraction
    d = Decimal(t)
    step = Decimal(1).scaleb(d.as_tuple().exponent)
    exact = Fraction(x)
    for cand in (d + step, d - step):
        try:
            same = float(cand) == x
        except (OverflowError, ValueError):
            same = False
        if not same or len(cand.as_tuple().digits) != len(d.as_tuple().digits):
            continue
        if abs(Fraction(cand) - exact) == abs(Fraction(d) - exact):
            c = format(cand, "f")
            if "." in c:
                c = c.rstrip("0").rstrip(".")
            out.append(c)
    return out


def fmt_byte(b):
    return "0b" + format(b, "b")


def render(kind, val):
    if kind in ("Int", "BigInt"):
        return str(val)
    if kind in ("Float", "FloatText"):
        return fmt_float(val)
    if kind == "Byte":
        return fmt_byte(val)
    if kind == "Bool":
        return "true" if val else "false"
    if kind == "Str":
        return val
    if kind == "Nil":
        return "nil"
    if kind == "StrList":
        return "[" + ", ".join('"%s"' % s for s in val) + "]"
    raise ValueError(kind)


def parse_printed_float(text):
    t = text.strip()
    if t == "NaN":
        return math.nan
    if t in ("inf", "-inf"):
        return math.inf if t == "inf" else -math.inf
    if not re.fullmatch(r"-?\d+(\.\d+)?", t):
        return None
    return float(t)


def float_matches(exp, got, tol):
    """Zeros compare equal regardless of sign; NaN matches NaN."""
    if got is None:
        return False
    if exp != exp or got != got:
        return exp != exp and got != got
    if exp == got:
        return True
    if not tol:
        return False
    # lenient zones: results that overflow / underflow within the accuracy of repeated multiplication
    if abs(exp) > 1e290:
        return abs(got) > 1e290 and (got > 0) == (exp > 0)
    if abs(exp) < 1e-290:
        return abs(got) < 1e-290 and (got == 0 or exp == 0 or (got > 0) == (exp > 0))
    if math.isinf(got):
        return False
    return abs(exp - got) <= 1e-12 * abs(exp)


def outcome_matches(o, observed):
    """observed = FAIL or (kind_text, value_text)."""
    if o is FAIL or observed is FAIL:
        return o is FAIL and observed is FAIL
    kind_text, text = observed
    if o.kind_text() != kind_text:
        return False
    if o.kind == "Float":
        return float_matches(o.val, parse_printed_float(text), o.tol)
    if o.kind == "FloatText":
        return text == o.text() or float_matches(o.val, parse_printed_float(text), 0)
    return o.text() == text


def _numeric(kind_text, text):
    try:
        if kind_text in ("Int", "BigInt"):
            return int(text)
        if kind_text == "Byte":
            return int(text[2:], 2)
        if kind_text == "Float":
            return parse_printed_float(text)
    except ValueError:
        pass
    return None


def value_matches_ignoring_kind(o, observed):
    """Same value delivered as another kind (e.g. «Int» 5 where «Byte» 0b101 is declared)."""
    if o is FAIL or observed is FAIL:
        return False
    kind_text, text = observed
    if o.kind in ("Float", "FloatText"):
        got = _numeric(kind_text, text)
        return got is not None and float_matches(o.val, float(got), o.tol)
    if o.kind in ("Int", "BigInt", "Byte"):
        got = _numeric(kind_text, text)
        return got is not None and got == got and not (isinstance(got, float) and math.isinf(got)) and got == o.val
    return o.text() == text


STATIC_KINDS = {
    "int": {"Int"}, "bigint": {"BigInt"}, "float": {"Float"}, "byte": {"Byte"}, "bool": {"Bool"}, "str": {"Str"},
    "int?": {"Int", "Nil"}, "bigint?": {"BigInt", "Nil"}, "float?": {"Float", "Nil"}, "byte?": {"Byte", "Nil"},
    "bool?": {"Bool", "Nil"}, "[str, str]": {"Vector[Str,Str]"},
}


def kind_conforms(static_type, kind_text):
    """Does a run-time kind (H-KIND text) inhabit the static type text printed by `typeof`?"""
    if static_type == "[str...]":
        return re.fullmatch(r"Vector\[(Str(,Str)*)?\]", kind_text) is not None
    ks = STATIC_KINDS.get(static_type)
    return ks is not None and kind_text in ks


# ----------------------------------------------------------------------------- strings

def is_ascii(s):
    return all(ord(c) < 128 for c in s)


def _unit_readings(s, *others):
    """Readings of the index unit: ASCII text has one; multi-byte text has characters and UTF-8 bytes."""
    if is_ascii(s) and all(is_ascii(o) for o in others):
        return [("exact", False)]
    return [("chars", False), ("bytes", True)]


def _seq(s, as_bytes):
    return s.encode("utf-8") if as_bytes else s


def _back(x, as_bytes):
    """bytes -> str; cutting inside a character has no value: failure."""
    if x is FAIL:
        return FAIL
    if as_bytes:
        try:
            return x.decode("utf-8")
        except UnicodeDecodeError:
            return FAIL
    return x


def _units(s, others, fn, declared, wrap):
    readings = _unit_readings(s, *others)
    acc, names = [], []
    for name, as_bytes in readings:
        acc.append(wrap(fn(as_bytes)))
        names.append(name)
    is_open = len(readings) > 1
    if is_open:
        acc.append(FAIL)          # on multi-byte text a failure is also accepted (DESIGN §3 C14)
        names.append("failure")
    return Spec(acc, declared, open=is_open, readings=names)


def _str(x):
    return FAIL if x is FAIL else V("Str", x)


def str_len(s):
    """Number of characters (ASCII: = bytes).  Multi-byte: characters or UTF-8 bytes."""
    return _units(s, (), lambda b: len(_seq(s, b)), "int", lambda n: V("Int", n))


def str_index(s, i):
    """`s[i]`: the i-th character (0-based, by characters); outside 0 <= i < #chars a failure."""
    if 0 <= i < len(s):
        return Spec([V("Str", s[i])], "str")
    return Spec([FAIL], "str")


def str_index_then_len(s, i):
    """`(s[i]).len()`: the length of the i-th character as a string (1 character, 1-4 UTF-8 bytes)."""
    if 0 <= i < len(s):
        return str_len(s[i])
    return Spec([FAIL], "int")


def str_substring(s, a, b):
    """[a, b); domain 0 <= a <= b <= len."""
    def f(as_bytes):
        q = _seq(s, as_bytes)
        return _back(q[a:b], as_bytes) if 0 <= a <= b <= len(q) else FAIL
    return _units(s, (), f, "str", _str)


def str_delete(s, a, b):
    """Removes [a, b); domain 0 <= a <= b <= len."""
    def f(as_bytes):
        q = _seq(s, as_bytes)
        return _back(q[:a] + q[b:], as_bytes) if 0 <= a <= b <= len(q) else FAIL
    return _units(s, (), f, "str", _str)


def str_insert(s, new, i):
    """s[:i] + new + s[i:]; domain 0 <= i <= len."""
    def f(as_bytes):
        q = _seq(s, as_bytes)
        return _back(q[:i] + _seq(new, as_bytes) + q[i:], as_bytes) if 0 <= i <= len(q) else FAIL
    return _units(s, (), f, "str", _str)


def str_split(s, i):
    """[s[:i], s[i:]] for 0 <= i < len, [s, ""] otherwise (documented by the suite for i < 0 and i >= len)."""
    def f(as_bytes):
        q = _seq(s, as_bytes)
        if i < 0 or i >= len(q):
            return [s, ""]
        l, r = _back(q[:i], as_bytes), _back(q[i:], as_bytes)
        return FAIL if l is FAIL or r is FAIL else [l, r]
    return _units(s, (), f, "[str, str]", lambda x: FAIL if x is FAIL else V("StrList", x))


def str_contains(s, o):
    return Spec([V("Bool", o in s)], "bool")


def str_index_of(s, o):
    """First offset of o in s, nil when absent."""
    def f(as_bytes):
        return _seq(s, as_bytes).find(_seq(o, as_bytes))
    # the offset only depends on the unit when a multi-byte character precedes the match
    acc = []
    for as_bytes in (False, True):
        k = f(as_bytes)
        acc.append(V("Nil", None) if k < 0 else V("Int", k))
    is_open = acc[0].key() != acc[1].key()
    if is_open:
        acc.append(FAIL)
    return Spec(acc, "int?", open=is_open, readings=("chars", "bytes", "failure") if is_open else ())


def str_reverse(s):
    """Characters in reverse order."""
    return Spec([V("Str", s[::-1])], "str")


def str_replace(s, pat, rep):
    """Every non-overlapping occurrence of pat, left to right.  Empty pattern: not fixed by anything
    (Rust and Python put `rep` around every character; unchanged text and a failure are accepted too)."""
    if pat == "":
        return Spec([V("Str", s.replace(pat, rep)), V("Str", s), FAIL], "str", open=True,
                    readings=("between_every_char", "unchanged", "failure"))
    return Spec([V("Str", s.replace(pat, rep))], "str")


def str_chars(s):
    return Spec([V("StrList", list(s))], "[str...]")


def str_repeat(s, n):
    """`s * n` / `n * s`: n copies; n < 0 has no meaning."""
    if n < 0:
        return Spec([FAIL], "str")
    if s == "" and n > 2 ** 63 - 1:
        return Spec([V("Str", ""), FAIL], "str", open=True, readings=("empty", "count_unrepresentable"))
    return Spec([V("Str", s * n)], "str")


def str_concat(a, b):
    """`a + b` where at least one side is a string; the other side contributes its printed text.
    a, b: str or (kind, value)."""
    def texts(v):
        if isinstance(v, str):
            return [v]
        if v[0] in ("Float", "FloatText"):
            return fmt_float_all(v[1])
        return [render(v[0], v[1])]
    alts = [V("Str", ta + tb) for ta in texts(a) for tb in texts(b)]
    if len(alts) > 1:
        return Spec(alts, "str", open=True, readings=tuple("tie_broken_%d" % i for i in range(len(alts))))
    return Spec(alts, "str")


_DIGITS = "0123456789abcdefghijklmnopqrstuvwxyz"


def _digits_value(body, radix):
    v = 0
    for ch in body.lower():
        d = _DIGITS.find(ch)
        if d < 0 or d >= radix:
            return None
        v = v * radix + d
    return v


def _plain_int(s, radix):
    """[-]digits in `radix` -> int or None.  ASCII only, no sign `+`, no blanks, no separators."""
    m = re.fullmatch(r"(-?)([0-9A-Za-z]+)", s)
    if not m:
        return None
    v = _digits_value(m.group(2), radix)
    if v is None:
        return None
    return -v if m.group(1) else v


def _parse_integer(s, radix, lo, hi, kind, declared):
    """Shared by parse_int / parse_bigint (radix 10) and the _radix forms.
    Exact: `[-]digits` -> value (in range), anything that is not a numeral -> nil.
    Out-of-range numeral -> nil or failure (never a value).  Radix outside 2..36 -> failure.
    Open: `0x` prefix, leading `+`, surrounding blanks, `_` separators."""
    if not 2 <= radix <= 36:
        return Spec([FAIL], declared)
    nil = V("Nil", None)
    acc, names = [], []

    def put(name, v):
        if lo <= v <= hi:
            acc.append(V(kind, v))
            names.append(name)
        else:
            acc.extend([nil, FAIL])
            names.extend([name + ":out_of_range_nil", name + ":out_of_range_failure"])

    def lenient(t):
        t = t.strip(" \t\r\n")
        if t.startswith("+"):
            t = t[1:]
        return t.replace("_", "")

    low = s.lower()
    if low.startswith("0x") or low.startswith("-0x") or low.startswith("+0x"):
        outer = s[0] if s[0] in "+-" else ""
        body = s[3:] if outer else s[2:]
        acc.append(nil)
        names.append("nil")
        for name, r in (("prefix_stripped_then_given_radix", radix), ("hex", 16)):
            v = _plain_int(body if outer else lenient(body), r)     # the rest may carry its own sign
            if v is not None:
                put(name, -v if outer == "-" else v)
        v = _plain_int(lenient(s), radix)                             # `x` is a digit from radix 34 on
        if v is not None:
            put("x_is_a_digit", v)
        return Spec(acc, declared, open=True, readings=names)
    v = _plain_int(s, radix)
    if v is not None:
        put("value", v)
        return Spec(acc, declared, open=len(acc) > 1, readings=names)
    # lenient spellings some parsers accept: surrounding blanks, one leading `+`, `_` separators
    t = lenient(s)
    if t != s:
        v = _plain_int(t, radix)
        if v is not None:
            acc.append(nil)
            names.append("nil")
            put("lenient_spelling", v)
            return Spec(acc, declared, open=True, readings=names)
    return Spec([nil], declared)


def str_parse_int(s):
    return _parse_integer(s, 10, I32_MIN, I32_MAX, "Int", "int?")


def str_parse_int_radix(s, radix):
    return _parse_integer(s, radix, I32_MIN, I32_MAX, "Int", "int?")


def str_parse_bigint(s):
    return _parse_integer(s, 10, I128_MIN, I128_MAX, "BigInt", "bigint?")


def str_parse_bigint_radix(s, radix):
    return _parse_integer(s, radix, I128_MIN, I128_MAX, "BigInt", "bigint?")


def str_parse_byte(s):
    """Decimal `digits` or `0b` + binary digits; 0..255.  (`"3"` -> 0b11, `"0b101"` -> 5 are in the suite.)"""
    nil = V("Nil", None)
    m = re.fullmatch(r"0b([01]+)", s)
    v = int(m.group(1), 2) if m else (int(s) if re.fullmatch(r"[0-9]+", s) else None)
    if v is not None:
        if v <= 255:
            return Spec([V("Byte", v)], "byte?")
        return Spec([nil, FAIL], "byte?", open=True, readings=("out_of_range_nil", "out_of_range_failure"))
    # signs / blanks / separators: lenient spellings
    t = s.strip(" \t\r\n")
    m = re.fullmatch(r"([+-]?)(0b)?([+-]?)([0-9_]+)", t)
    if m and not (m.group(1) and m.group(3)):
        body = m.group(4).replace("_", "")
        sign = m.group(1) or m.group(3)
        ok = body != "" and (re.fullmatch(r"[01]+", body) if m.group(2) else True)
        if ok:
            v = int(body, 2 if m.group(2) else 10)
            if sign == "-":
                v = -v
            if 0 <= v <= 255:
                return Spec([nil, V("Byte", v)], "byte?", open=True, readings=("nil", "lenient_spelling"))
            return Spec([nil, FAIL], "byte?", open=True, readings=("out_of_range_nil", "out_of_range_failure"))
    return Spec([nil], "byte?")


def str_parse_bool(s):
    nil = V("Nil", None)
    if s == "true" or s == "false":
        return Spec([V("Bool", s == "true")], "bool?")
    t = s.strip(" \t\r\n").lower()
    if t in ("true", "false"):
        return Spec([nil, V("Bool", t == "true")], "bool?", open=True, readings=("nil", "case_or_blank_insensitive"))
    return Spec([nil], "bool?")


def str_parse_float(s):
    """Exact: `[-]digits[.digits]` -> the nearest double.  Other spellings a float parser may accept
    (exponent, `inf`, `nan`, `.5`, `5.`, `+`, blanks, `_`) -> that value or nil.  Not a number -> nil."""
    nil = V("Nil", None)
    if re.fullmatch(r"-?[0-9]+(\.[0-9]+)?", s):
        x = float(s)
        if math.isinf(x):
            return Spec([V("Float", x), nil, FAIL], "float?", open=True, readings=("inf", "nil", "failure"))
        return Spec([V("Float", x)], "float?")
    try:
        x = float(s)
    except ValueError:
        return Spec([nil], "float?")
    acc, names = [nil, V("Float", x)], ["nil", "lenient_spelling"]
    if math.isinf(x) and "inf" not in s.lower():
        acc.append(FAIL)
        names.append("failure")
    return Spec(acc, "float?", open=True, readings=names)


# ----------------------------------------------------------------------------- numbers
# receivers are (kind, value): kind in int bigint byte float

NUM_KIND = {"int": "Int", "bigint": "BigInt", "byte": "Byte", "float": "Float"}


def _trunc_float(x):
    if x != x or math.isinf(x):
        return None
    return int(x)


def _to_integer(kind, x, lo, hi, out_kind, declared):
    if kind == "float":
        t = _trunc_float(x)
        if t is None or not lo <= t <= hi:
            return Spec([FAIL], declared)
        return Spec([V(out_kind, t)], declared)
    if lo <= x <= hi:
        return Spec([V(out_kind, x)], declared)
    return Spec([FAIL], declared)


def num_to_int(kind, x):
    """Floats truncate toward zero; a value outside int (or NaN/inf) is unrepresentable: failure."""
    return _to_integer(kind, x, I32_MIN, I32_MAX, "Int", "int")


def num_to_bigint(kind, x):
    return _to_integer(kind, x, I128_MIN, I128_MAX, "BigInt", "bigint")


def num_to_byte(kind, x):
    return _to_integer(kind, x, 0, 255, "Byte", "byte")


def _float_neighbours(n):
    """Doubles bracketing the integer n (one element when n is a double)."""
    f = float(n)
    if int(f) == n:
        return [f]
    g = math.nextafter(f, math.inf if int(f) < n else -math.inf)
    return [f, g]


def num_to_float(kind, x):
    """Every int/bigint/byte is within the range of a double: the nearest double (either neighbour accepted)."""
    if kind == "float":
        return Spec([V("Float", x)], "float")
    fs = _float_neighbours(x)
    return Spec([V("Float", f) for f in fs], "float", open=len(fs) > 1,
                readings=("round_to_nearest", "other_neighbour") if len(fs) > 1 else ())


def num_abs(kind, x):
    """Same kind as the receiver.  |int min| / |bigint min| are unrepresentable: failure."""
    declared = kind
    if kind == "float":
        return Spec([V("Float", math.fabs(x))], declared)
    if (kind == "int" and x == I32_MIN) or (kind == "bigint" and x == I128_MIN):
        return Spec([FAIL], declared)
    return Spec([V(NUM_KIND[kind], abs(x))], declared)


def c_pow(x, y):
    """C99 pow on doubles."""
    try:
        return math.pow(x, y)
    except OverflowError:
        neg = x < 0 and float(y).is_integer() and int(y) % 2 == 1
        return -math.inf if neg else math.inf
    except ValueError:
        if x == 0 and y < 0:
            neg = math.copysign(1.0, x) < 0 and float(y).is_integer() and int(y) % 2 == 1
            return -math.inf if neg else math.inf
        return math.nan


def _float_result(r, inputs_nan, declared):
    """IEEE results that stand for 'no real value' (NaN from non-NaN inputs, inf from finite inputs) may
    equally be reported as a failure."""
    if (r != r and not inputs_nan) or math.isinf(r):
        return Spec([V("Float", r, 1), FAIL], declared, open=True, readings=("ieee_special_value", "failure"))
    return Spec([V("Float", r, 1)], declared)


def num_pow(kind, x, n):
    """Integer receivers: exact x**n as a bigint, n >= 0, failure when it does not fit a bigint.
    Float receivers: x**n as a float (any int n)."""
    if kind == "float":
        r = c_pow(x, float(n))
        return _float_result(r, x != x, "float")
    if n < 0:
        return Spec([FAIL], "bigint")
    if abs(x) >= 2 and n > 127:
        return Spec([FAIL], "bigint")
    r = x ** n
    if I128_MIN <= r <= I128_MAX:
        return Spec([V("BigInt", r)], "bigint")
    return Spec([FAIL], "bigint")


def _as_double(kind, x):
    return x if kind == "float" else float(x)


def num_powf(kind, x, y):
    fx = _as_double(kind, x)
    r = c_pow(fx, y)
    return _float_result(r, fx != fx or y != y, "float")


def num_sqrt(kind, x):
    fx = _as_double(kind, x)
    if fx != fx:
        return Spec([V("Float", fx)], "float")
    if fx < 0:
        return Spec([V("Float", math.nan), FAIL], "float", open=True, readings=("ieee_special_value", "failure"))
    return Spec([V("Float", math.sqrt(fx), 1)], "float")


def _float_only(x, fn):
    if x != x or math.isinf(x):
        return Spec([V("Float", x)], "float")
    return Spec([V("Float", fn(x))], "float")


def num_floor(kind, x):
    return _float_only(x, lambda v: float(math.floor(v)))


def num_ceil(kind, x):
    return _float_only(x, lambda v: float(math.ceil(v)))


def num_ipart(kind, x):
    return _float_only(x, lambda v: float(math.trunc(v)))


def num_round(kind, x):
    """Nearest integer, halves away from zero."""
    def rnd(v):
        t = float(math.trunc(v))
        if abs(v - t) >= 0.5:          # exact: v - t is exact for doubles
            t += math.copysign(1.0, v)
        return t
    return _float_only(x, rnd)


def num_fpart(kind, x):
    """x - ipart(x) (sign of x).  inf has no fractional part: NaN, 0 or a failure."""
    if x != x:
        return Spec([V("Float", x)], "float")
    if math.isinf(x):
        return Spec([V("Float", math.nan), V("Float", 0.0), FAIL], "float", open=True,
                    readings=("nan", "zero", "failure"))
    return Spec([V("Float", x - float(math.trunc(x)))], "float")


def num_to_str(kind, x):
    """The text `print` shows.  (Floats: any decimal text that reads back as the same double is accepted by
    the engine; the model gives the shortest one.)"""
    if kind == "float":
        return Spec([V("FloatText", x)], "str")
    return Spec([V("Str", render(NUM_KIND[kind], x))], "str")


def num_to_ascii(kind, x):
    """byte -> the one-character string with that ASCII code.  Codes >= 128 are not ASCII: a failure, the
    Latin-1 character, or U+FFFD (lossy marker) are all accepted."""
    if x < 128:
        return Spec([V("Str", chr(x))], "str")
    return Spec([FAIL, V("Str", chr(x)), V("Str", "�")], "str", open=True,
                readings=("failure", "latin1", "replacement_character"))


ASSUMPTIONS = [
    "ASCII receivers are checked exactly; on multi-byte text len/substring/index_of/insert/delete/split accept the "
    "character reading, the UTF-8 byte reading, or a failure; indexing, reverse, chars are by characters",
    "parse_int/parse_bigint(_radix) of `0x`-prefixed text: nil, prefix stripped + given radix, hex, or `x` as a digit "
    "are all accepted (observed and recorded); leading `+`, surrounding blanks and `_` separators: nil or the value",
    "a numeral outside the range of the target kind parses to nil or fails, never to a value; radix outside 2..36 fails",
    "parse_float: `[-]digits[.digits]` is exact (nearest double); exponent forms, inf/nan, `.5`, `5.` give that "
    "value or nil",
    "float results: -0 and 0 are the same value; sqrt/pow/powf are compared with relative tolerance 1e-12 and "
    "lenient zones above 1e290 / below 1e-290; NaN from non-NaN inputs and inf may instead be a failure",
    "round = halves away from zero; fpart keeps the sign of the receiver; fpart(inf) is NaN, 0 or a failure",
    "to_float of an integer that is not a double: either neighbouring double",
    "replace with an empty pattern: Rust/Python behaviour, unchanged text or failure",
    "to_ascii of a byte >= 128: failure, Latin-1 character or U+FFFD",
    "to_str of a float: any plain decimal text that reads back as the same double",
]
