"""C15 model: expression trees over logging leaves, their MScript rendering, and the reference
evaluation (left-to-right post-order, every operand exactly once, short-circuit for `&&`, `||`, `or`).

Nodes (tuples; T = static type I int, B bool, O int?, L list, M map):
  ('t', k) I            t(k): logs `t k`, returns k
  ('tb', k, b) B        tb(k, b): logs `tb k`, returns b
  ('topt', k, p) O      topt(k, p): logs `topt k`, returns k when p else nil
  ('lit', n) I          integer literal (no log; only as divisor / key adjustment)
  ('rec', name, args)   I  call of a recursive helper: ra(k) | rb(k, d) | a generated helper h<j>(k)
  ('bin', op, l, r)     + - * % -> I ; < <= > >= == != -> B
  ('and', l, r) ('or', l, r) ('not', e)  B ;  ('neg', e) I
  ('call', name, args)  f0..f4 (ints -> I), pb (I, B -> B), po (I, B -> O), sl (L -> I), sm (M -> I),
                        ls1..ls3 (ints -> L, only as the base of 'index')
  ('meth', recv, n, args)   recv = ('mk', e) rendered `(mk(e)).m<n>(args)` | ('ov', v) a pre-bound object `ov<v>`
  ('list', elems) L  ('map', [(k, v)..]) M
  ('index', base, idx) I      (base)[idx]     base = ('call','ls<n>',..) | one-element ('list',[e])
  ('mapidx', map, key) O      (map literal)[key]
  ('nileval', o, fb)          (o) or fb ; type of fb (I or O)
  ('var', place)              a READ of mutable state, no log: gv (module / captured variable `gv`), gf (object field
                              `go.gf`), ge (list element `gl[0]`) : I ; gb (bool variable `gb`) : B
  ('mut', place, k[, ret])    a logging call that MUTATES that place: bg(k) | go.inc(k) | bl(k) add 1 and return the new
                              value; fb(k, ret) toggles gb and returns ret
  ('blit', b) B  ('nil',) O  ('plit', n) O (a present literal as the primary of `or`)  ('slit', s) string literal
  ('bin', '+', s, x)          string concatenation when the left operand is a string
The value of a 'var' leaf is the value of the place at the moment the leaf is evaluated (left to right).
"""
import itertools
import random

I32_MIN, I32_MAX = -2 ** 31, 2 ** 31 - 1

CMP = ('<', '<=', '>', '>=', '==', '!=')
ARITH = ('+', '-', '*', '%')

# ----------------------------------------------------------------------------- prelude (MScript side)

PRELUDE = """t = fn(tk: int) -> int {
  print "t " + tk
  return tk
}
tb = fn(bk: int, bv: bool) -> bool {
  print "tb " + bk
  return bv
}
topt = fn(ok: int, op: bool) -> int? {
  print "topt " + ok
  if op {
    return ok
  }
  return nil
}
f0 = fn() -> int {
  print "f0"
  return 7
}
f1 = fn(f1a: int) -> int {
  print "f1 " + f1a
  return f1a + 1
}
f2 = fn(f2a: int, f2b: int) -> int {
  print "f2 " + f2a + " " + f2b
  return f2a - f2b * 2 + 2
}
f3 = fn(f3a: int, f3b: int, f3c: int) -> int {
  print "f3 " + f3a + " " + f3b + " " + f3c
  return f3a - f3b * 2 + f3c * 3 + 3
}
f4 = fn(f4a: int, f4b: int, f4c: int, f4d: int) -> int {
  print "f4 " + f4a + " " + f4b + " " + f4c + " " + f4d
  return f4a - f4b * 2 + f4c * 3 - f4d * 4 + 4
}
pb = fn(pba: int, pbv: bool) -> bool {
  print "pb " + pba + " " + pbv
  return pbv
}
po = fn(poa: int, pov: bool) -> int? {
  print "po " + poa + " " + pov
  if pov {
    return poa
  }
  return nil
}
class Obj {
  v: int
  constructor(self, cv: int) {
    self.v = cv
  }
  fn m0(self) -> int {
    print "m0 " + self.v
    return self.v * 5
  }
  fn m1(self, m1a: int) -> int {
    print "m1 " + self.v + " " + m1a
    return self.v * 5 - m1a + 1
  }
  fn m2(self, m2a: int, m2b: int) -> int {
    print "m2 " + self.v + " " + m2a + " " + m2b
    return self.v * 5 - m2a + m2b * 2 + 2
  }
  fn m3(self, m3a: int, m3b: int, m3c: int) -> int {
    print "m3 " + self.v + " " + m3a + " " + m3b + " " + m3c
    return self.v * 5 - m3a + m3b * 2 - m3c * 3 + 3
  }
  fn m4(self, m4a: int, m4b: int, m4c: int, m4d: int) -> int {
    print "m4 " + self.v + " " + m4a + " " + m4b + " " + m4c + " " + m4d
    return self.v * 5 - m4a + m4b * 2 - m4c * 3 + m4d * 4 + 4
  }
}
mk = fn(mkv: int) -> Obj {
  print "mk " + mkv
  return Obj(mkv)
}
ls1 = fn(l1a: int) -> [int...] {
  print "ls1 " + l1a
  l1r: [int...] = [l1a]
  return l1r
}
ls2 = fn(l2a: int, l2b: int) -> [int...] {
  print "ls2 " + l2a + " " + l2b
  l2r: [int...] = [l2a, l2b]
  return l2r
}
ls3 = fn(l3a: int, l3b: int, l3c: int) -> [int...] {
  print "ls3 " + l3a + " " + l3b + " " + l3c
  l3r: [int...] = [l3a, l3b, l3c]
  return l3r
}
lb2 = fn(lba: bool, lbb: bool) -> [bool...] {
  print "lb2 " + lba + " " + lbb
  lbr: [bool...] = [lba, lbb]
  return lbr
}
sl = fn(sll: [int...]) -> int {
  print "sl " + sll.len()
  sls = 0
  from 0 to sll.len(), sli {
    sls = sls + (sli + 1) * sll[sli]
  }
  return sls
}
sm = fn(smm: map[int, int]) -> int {
  print "sm " + smm.len()
  return smm.len()
}
ra = fn(rak: int) -> int {
  print "ra " + rak
  return f2(t(rak * 10 + 1), t(rak * 10 + 2)) - t(rak * 10 + 3)
}
rb = fn(rbk: int, rbd: int) -> int {
  print "rb " + rbk + " " + rbd
  if rbd <= 0 {
    return t(rbk)
  }
  return self(rbk * 2, rbd - 1) - t(rbk) - self(rbk * 2 + 1, rbd - 1)
}
ov1 = Obj(11)
ov2 = Obj(12)
gv = 50
bg = fn(bgk: int) -> int {
  print "bg " + bgk
  modify gv = gv + 1
  return gv
}
class Box {
  gf: int
  constructor(self, bxv: int) {
    self.gf = bxv
  }
  fn inc(self, bfk: int) -> int {
    print "bf " + bfk
    self.gf = self.gf + 1
    bfr = self.gf
    return bfr
  }
}
go = Box(60)
gl: [int...] = [70, 71]
bl = fn(blk: int) -> int {
  print "bl " + blk
  gl[0] = gl[0] + 1
  blr = gl[0]
  return blr
}
gb = false
fb = fn(fbk: int, fbr: bool) -> bool {
  print "fb " + fbk
  modify gb = !gb
  return fbr
}
class Bbox {
  fb: bool
  constructor(self, bbv: bool) {
    self.fb = bbv
  }
  fn flip(self, bfbk: int, bfbr: bool) -> bool {
    print "bfb " + bfbk
    self.fb = !self.fb
    return bfbr
  }
}
gob = Bbox(false)
glb: [bool...] = [false, true]
blb = fn(blbk: int, blbr: bool) -> bool {
  print "blb " + blbk
  glb[0] = !glb[0]
  return blbr
}
"""

INIT_STATE = {'gv': 50, 'gf': 60, 'ge': 70, 'gb': False, 'gfb': False, 'geb': False}
MUT_LOG = {'gv': 'bg', 'gf': 'bf', 'ge': 'bl', 'gb': 'fb', 'gfb': 'bfb', 'geb': 'blb'}
VAR_SRC = {'gv': 'gv', 'gf': 'go.gf', 'ge': 'gl[0]', 'gb': 'gb', 'gfb': 'gob.fb', 'geb': 'glb[0]'}
BOOL_PLACES = ('gb', 'gfb', 'geb')

OV = {1: 11, 2: 12}


class Overflow(Exception):
    pass


class BadCase(Exception):
    """The generated tree is outside the intended space (duplicate map key, negative index, ...)."""


def tdiv(a, b):
    q = abs(a) // abs(b)
    return q if (a < 0) == (b < 0) else -q


def fmt(v):
    if v is True:
        return "true"
    if v is False:
        return "false"
    if v is None:
        return "nil"
    if isinstance(v, list):
        return "[" + ", ".join(fmt(x) for x in v) + "]"
    if isinstance(v, dict):
        return "{" + ", ".join("%s: %s" % (fmt(k), fmt(x)) for k, x in sorted(v.items())) + "}"
    return str(v)


def canon_value_line(line):
    """Maps print in hash order: sort the top-level entries of a `{k: v, ...}` line of int -> int."""
    if line.startswith("{") and line.endswith("}"):
        body = line[1:-1].strip()
        if not body:
            return "{}"
        try:
            ents = []
            for part in body.split(", "):
                k, v = part.split(": ")
                ents.append((int(k), int(v)))
            return "{" + ", ".join("%d: %d" % e for e in sorted(ents)) + "}"
        except ValueError:
            return line
    return line


# ----------------------------------------------------------------------------- reference evaluation

class Ev:
    """mode: 'ltr' (the reference) — the other modes exist only to validate the engine against a
    deliberately wrong model: 'rtl' (right-to-left operands), 'noshort' (no short-circuit),
    'twice' (left operand of a binary arithmetic operator evaluated twice)."""

    def __init__(self, helpers=None, mode='ltr', state=None):
        self.state = state if state is not None else dict(INIT_STATE)
        self.log = []
        self.skipped = set()       # first log line of every operand skipped by a short-circuit
        self.stats = {}
        self.helpers = helpers or {}
        self.mode = mode

    def cnt(self, k, n=1):
        self.stats[k] = self.stats.get(k, 0) + n

    def chk(self, n):
        if not (I32_MIN <= n <= I32_MAX):
            raise Overflow()
        return n

    def pair(self, l, r):
        if self.mode == 'rtl':
            b = self.ev(r)
            a = self.ev(l)
            return a, b
        a = self.ev(l)
        if self.mode == 'twice':
            a = self.ev(l)
        return a, self.ev(r)

    def seq(self, nodes):
        if self.mode == 'rtl':
            return list(reversed([self.ev(n) for n in reversed(nodes)]))
        return [self.ev(n) for n in nodes]

    def skip(self, n):
        self.skipped.add(first_line(n))
        if self.mode == 'noshort':
            self.ev(n)

    def ev(self, n):
        k = n[0]
        if k == 't':
            self.log.append("t %d" % n[1])
            self.cnt('leaf_t')
            return n[1]
        if k == 'tb':
            self.log.append("tb %d" % n[1])
            self.cnt('leaf_tb')
            return n[2]
        if k == 'topt':
            self.log.append("topt %d" % n[1])
            self.cnt('leaf_topt')
            return n[1] if n[2] else None
        if k in ('lit', 'blit', 'plit', 'slit'):
            self.cnt('literal')
            return n[1]
        if k == 'nil':
            self.cnt('literal')
            return None
        if k == 'var':
            self.cnt('var_read ' + n[1])
            return self.state[n[1]]
        if k == 'mut':
            place = n[1]
            self.log.append("%s %d" % (MUT_LOG[place], n[2]))
            self.cnt('mutation ' + place)
            if place in BOOL_PLACES:
                self.state[place] = not self.state[place]
                return n[3]
            self.state[place] += 1
            return self.state[place]
        if k == 'rec':
            args = self.seq(n[2])
            self.cnt('rec_calls')
            return self.rec(n[1], args)
        if k == 'bin':
            op = n[1]
            a, b = self.pair(n[2], n[3])
            self.cnt('op ' + op)
            if op == '+':
                if isinstance(a, str):
                    return a + fmt(b)
                return self.chk(a + b)
            if op == '-':
                return self.chk(a - b)
            if op == '*':
                return self.chk(a * b)
            if op == '%':
                if b == 0:
                    raise BadCase("zero divisor")
                return a - tdiv(a, b) * b
            if op == '<':
                return a < b
            if op == '<=':
                return a <= b
            if op == '>':
                return a > b
            if op == '>=':
                return a >= b
            if op == '==':
                return a == b
            if op == '!=':
                return a != b
            raise ValueError(op)
        if k == 'and':
            a = self.ev(n[1])
            if not a:
                self.cnt('and_short')
                self.skip(n[2])
                return False
            self.cnt('and_full')
            return self.ev(n[2])
        if k == 'or':
            a = self.ev(n[1])
            if a:
                self.cnt('or_short')
                self.skip(n[2])
                return True
            self.cnt('or_full')
            return self.ev(n[2])
        if k == 'not':
            self.cnt('not')
            return not self.ev(n[1])
        if k == 'neg':
            self.cnt('neg')
            return self.chk(-self.ev(n[1]))
        if k == 'call':
            args = self.seq(n[2])
            self.cnt('call ' + n[1])
            return self.call(n[1], args)
        if k == 'meth':
            recv = n[1]
            if recv[0] == 'mk':
                if self.mode == 'rtl':
                    args = self.seq(n[3])
                    v = self.ev(recv[1])
                    self.log.append("mk %d" % v)
                else:
                    v = self.ev(recv[1])
                    self.log.append("mk %d" % v)
                    args = self.seq(n[3])
            else:
                v = OV[recv[1]]
                args = self.seq(n[3])
            self.cnt('meth m%d' % n[2])
            self.log.append(" ".join(["m%d" % n[2], str(v)] + [str(a) for a in args]))
            coef = (-1, 2, -3, 4)
            return self.chk(v * 5 + sum(c * a for c, a in zip(coef, args)) + n[2])
        if k == 'lenlit':
            self.cnt('len_of_list_literal%d' % len(n[1]))
            return len(self.seq(n[1]))
        if k == 'mlenlit':
            self.cnt('len_of_map_literal%d' % len(n[1]))
            flat = self.seq([x for kv in n[1] for x in kv])
            return len(set(flat[0::2]))
        if k == 'list':
            self.cnt('list%d' % len(n[1]))
            return self.seq(n[1])
        if k == 'map':
            self.cnt('map%d' % len(n[1]))
            out = {}
            flat = self.seq([x for kv in n[1] for x in kv])
            for i in range(0, len(flat), 2):
                if flat[i] in out:
                    raise BadCase("duplicate key")
                out[flat[i]] = flat[i + 1]
            return out
        if k == 'index':
            base, i = self.pair(n[1], n[2])
            self.cnt('index')
            if not (0 <= i < len(base)):
                raise BadCase("index out of range")
            return base[i]
        if k == 'mapidx':
            m, key = self.pair(n[1], n[2])
            self.cnt('mapidx_hit' if key in m else 'mapidx_miss')
            return m.get(key)
        if k == 'nileval':
            a = self.ev(n[1])
            if a is not None:
                self.cnt('nileval_short')
                self.skip(n[2])
                return a
            self.cnt('nileval_full')
            return self.ev(n[2])
        raise ValueError(n)

    def call(self, name, args):
        if name in ('f0', 'f1', 'f2', 'f3', 'f4'):
            self.log.append(" ".join([name] + [str(a) for a in args]))
            nn = int(name[1])
            if nn == 0:
                return 7
            if nn == 1:
                return self.chk(args[0] + 1)
            coef = (1, -2, 3, -4)
            return self.chk(sum(c * a for c, a in zip(coef, args)) + nn)
        if name == 'pb':
            self.log.append("pb %d %s" % (args[0], fmt(args[1])))
            return args[1]
        if name == 'po':
            self.log.append("po %d %s" % (args[0], fmt(args[1])))
            return args[0] if args[1] else None
        if name in ('ls1', 'ls2', 'ls3'):
            self.log.append(" ".join([name] + [str(a) for a in args]))
            return list(args)
        if name == 'lb2':
            self.log.append("lb2 %s %s" % (fmt(args[0]), fmt(args[1])))
            return list(args)
        if name == 'sl':
            self.log.append("sl %d" % len(args[0]))
            return self.chk(sum((i + 1) * x for i, x in enumerate(args[0])))
        if name == 'sm':
            self.log.append("sm %d" % len(args[0]))
            return len(args[0])
        raise ValueError(name)

    def rec(self, name, args):
        if name == 'ra':
            kk = args[0]
            self.log.append("ra %d" % kk)
            body = ('bin', '-', ('call', 'f2', [('t', kk * 10 + 1), ('t', kk * 10 + 2)]), ('t', kk * 10 + 3))
            return self.ev(body)
        if name == 'rb':
            kk, d = args
            self.log.append("rb %d %d" % (kk, d))
            if d <= 0:
                return self.ev(('t', kk))
            body = ('bin', '-', ('bin', '-', ('rec', 'rb', [('lit', kk * 2), ('lit', d - 1)]), ('t', kk)),
                    ('rec', 'rb', [('lit', kk * 2 + 1), ('lit', d - 1)]))
            return self.ev(body)
        body = self.helpers[name]
        self.log.append("%s %d" % (name, args[0]))
        return self.ev(body)


def first_line(n):
    """The log line that the evaluation of `n` emits first (its leftmost logging leaf), or None."""
    k = n[0]
    if k == 't':
        return "t %d" % n[1]
    if k == 'tb':
        return "tb %d" % n[1]
    if k == 'topt':
        return "topt %d" % n[1]
    if k in ('lit', 'blit', 'plit', 'slit', 'nil', 'var'):
        return None
    if k == 'mut':
        return "%s %d" % (MUT_LOG[n[1]], n[2])
    if k == 'rec':
        for a in n[2]:
            f = first_line(a)
            if f:
                return f
        return " ".join([n[1]] + [str(a[1]) for a in n[2]])      # all arguments are literals
    if k in ('bin',):
        return first_line(n[2]) or first_line(n[3])
    if k in ('and', 'or', 'nileval', 'index', 'mapidx'):
        return first_line(n[1]) or first_line(n[2])
    if k in ('not', 'neg'):
        return first_line(n[1])
    if k == 'call':
        for a in n[2]:
            f = first_line(a)
            if f:
                return f
        return n[1] if n[1] == 'f0' else None
    if k == 'meth':
        if n[1][0] == 'mk':
            f = first_line(n[1][1])
            if f:
                return f
        for a in n[3]:
            f = first_line(a)
            if f:
                return f
        return None
    if k in ('list', 'lenlit'):
        for a in n[1]:
            f = first_line(a)
            if f:
                return f
        return None
    if k in ('map', 'mlenlit'):
        for kv in n[1]:
            for a in kv:
                f = first_line(a)
                if f:
                    return f
        return None
    raise ValueError(n)


def evaluate(tree, helpers=None, mode='ltr', state=None):
    """-> (log lines, value text, skipped first-lines, stats).  Raises Overflow / BadCase.  `state` (the mutable
    places) is updated in place, so consecutive evaluations in one program see each other's mutations."""
    e = Ev(helpers, mode, state)
    v = e.ev(tree)
    return e.log, fmt(v), e.skipped, e.stats


# ----------------------------------------------------------------------------- rendering

BINARYISH = ('bin', 'and', 'or', 'not', 'neg', 'nileval')


def operand(n):
    s = render(n)
    if n[0] in BINARYISH or (n[0] in ('lit', 'plit') and n[1] < 0):
        return "(" + s + ")"
    return s


def render(n):
    k = n[0]
    if k == 't':
        return "t(%d)" % n[1]
    if k == 'tb':
        return "tb(%d, %s)" % (n[1], fmt(n[2]))
    if k == 'topt':
        return "topt(%d, %s)" % (n[1], fmt(n[2]))
    if k in ('lit', 'plit'):
        return str(n[1])
    if k == 'blit':
        return fmt(n[1])
    if k == 'nil':
        return "nil"
    if k == 'slit':
        return '"%s"' % n[1]
    if k == 'var':
        return VAR_SRC[n[1]]
    if k == 'mut':
        if n[1] == 'gv':
            return "bg(%d)" % n[2]
        if n[1] == 'gf':
            return "go.inc(%d)" % n[2]
        if n[1] == 'ge':
            return "bl(%d)" % n[2]
        if n[1] == 'gfb':
            return "gob.flip(%d, %s)" % (n[2], fmt(n[3]))
        if n[1] == 'geb':
            return "blb(%d, %s)" % (n[2], fmt(n[3]))
        return "fb(%d, %s)" % (n[2], fmt(n[3]))
    if k == 'rec':
        return "%s(%s)" % (n[1], ", ".join(render(a) for a in n[2]))
    if k == 'bin':
        return "%s %s %s" % (operand(n[2]), n[1], operand(n[3]))
    if k == 'and':
        return "%s && %s" % (operand(n[1]), operand(n[2]))
    if k == 'or':
        return "%s || %s" % (operand(n[1]), operand(n[2]))
    if k == 'not':
        return "!(%s)" % render(n[1])
    if k == 'neg':
        return "-(%s)" % render(n[1])
    if k == 'call':
        return "%s(%s)" % (n[1], ", ".join(render(a) for a in n[2]))
    if k == 'meth':
        args = ", ".join(render(a) for a in n[3])
        if n[1][0] == 'mk':
            return "(mk(%s)).m%d(%s)" % (render(n[1][1]), n[2], args)
        return "ov%d.m%d(%s)" % (n[1][1], n[2], args)
    if k == 'list':
        return "[" + ", ".join(render(a) for a in n[1]) + "]"
    if k == 'map':
        return "map[int, int] { " + ", ".join("%s: %s" % (render(a), render(b)) for a, b in n[1]) + " }"
    if k == 'index':
        base = render(n[1])
        if n[1][0] != 'list':
            base = "(" + base + ")"
        return "%s[%s]" % (base, render(n[2]))
    if k == 'mapidx':
        return "(%s)[%s]" % (render(n[1]), render(n[2]))
    if k == 'nileval':
        return "(%s) or %s" % (render(n[1]), operand(n[2]))
    if k == 'lenlit':
        return "[" + ", ".join(render(a) for a in n[1]) + "].len()"
    if k == 'mlenlit':
        return "(map[int, int] { " + ", ".join("%s: %s" % (render(a), render(b)) for a, b in n[1]) + " }).len()"
    raise ValueError(n)


def type_of(n):
    k = n[0]
    if k == 'index':
        return 'B' if n[1][0] == 'call' and n[1][1] == 'lb2' else 'I'
    if k in ('var', 'mut'):
        return 'B' if n[1] in BOOL_PLACES else 'I'
    if k == 'blit':
        return 'B'
    if k in ('nil', 'plit'):
        return 'O'
    if k == 'slit':
        return 'S'
    if k in ('t', 'lit', 'rec', 'neg', 'meth', 'lenlit', 'mlenlit'):
        return 'I'
    if k in ('tb', 'and', 'or', 'not'):
        return 'B'
    if k in ('topt', 'mapidx'):
        return 'O'
    if k == 'bin':
        if n[1] == '+' and type_of(n[2]) == 'S':
            return 'S'
        return 'B' if n[1] in CMP else 'I'
    if k == 'call':
        return {'pb': 'B', 'po': 'O', 'ls1': 'L', 'ls2': 'L', 'ls3': 'L', 'lb2': 'L'}.get(n[1], 'I')
    if k == 'list':
        return 'L'
    if k == 'map':
        return 'M'
    if k == 'nileval':
        return type_of(n[2])
    raise ValueError(n)


def yields_pointer(n, helpers=None):
    """An index / map-index expression evaluates to a pointer to the element, and a function that returns one
    directly hands the pointer on (C02 finding).  `neg` / `not` do not dereference it (pinned by
    pin:neg_of_index / pin:not_of_index), so such a node is never generated directly under unary minus / `!`
    (avoidance rule index_result_under_unary).  `(x) or y` dereferences x but passes y through."""
    if n[0] in ('index', 'mapidx'):
        return True
    if n[0] == 'nileval':
        return yields_pointer(n[2], helpers)
    if n[0] in ('and', 'or'):
        return yields_pointer(n[1], helpers)      # a deciding left operand is left on the stack as it is
    if n[0] == 'rec' and n[1].startswith('h'):
        body = (helpers or {}).get(n[1])
        return body is None or yields_pointer(body, helpers)
    return False


LEAFS = ('t', 'tb', 'topt', 'lit', 'blit', 'plit', 'slit', 'nil', 'var', 'mut')


def depth(n):
    k = n[0]
    if k in LEAFS:
        return 1
    kids = children(n)
    return 1 + max([depth(c) for c in kids] or [0])


def children(n):
    k = n[0]
    if k in LEAFS:
        return []
    if k == 'rec':
        return list(n[2])
    if k == 'bin':
        return [n[2], n[3]]
    if k in ('and', 'or', 'nileval', 'index', 'mapidx'):
        return [n[1], n[2]]
    if k in ('not', 'neg'):
        return [n[1]]
    if k == 'call':
        return list(n[2])
    if k == 'meth':
        return ([n[1][1]] if n[1][0] == 'mk' else []) + list(n[3])
    if k == 'list':
        return list(n[1])
    if k == 'map':
        return [x for kv in n[1] for x in kv]
    raise ValueError(n)


def count_ops(n, acc):
    k = n[0]
    key = k
    if k == 'bin':
        key = 'bin ' + n[1]
    elif k == 'call':
        key = 'call ' + n[1]
    elif k == 'meth':
        key = 'meth m%d %s' % (n[2], n[1][0])
    elif k == 'rec':
        key = 'rec ' + ('h' if n[1].startswith('h') else n[1])
    elif k in ('var', 'mut'):
        key = '%s %s' % (k, n[1])
    acc[key] = acc.get(key, 0) + 1
    for c in children(n):
        count_ops(c, acc)
    return acc


def root_op(n):
    k = n[0]
    if k == 'bin':
        return n[1]
    if k == 'call':
        return n[1]
    if k == 'meth':
        return "m%d" % n[2]
    if k == 'rec':
        return 'rec'
    if k == 'and':
        return '&&'
    if k == 'or':
        return '||'
    if k == 'nileval':
        return 'or'
    return k


# ----------------------------------------------------------------------------- exhaustive shapes

# Shape trees use placeholders:  'T' (t leaf)  'R' (ra(k) recursive leaf)  'TB' (tb leaf)  'TO' (topt leaf)
# and inner nodes (op, a, b) with op in:
#   sub lt f2 m1 idx orI and or bidx midx   and the root-only  list2 map1
# idx(a, b)  = (ls2(a, b))[t(k) % 2]          midx(a, b) = (map[int,int] { a: b })[t(k) - c]  (c: hit / miss)
# bidx(a, b) = (lb2(a, b))[t(k) % 2]   (a bool taken out of a list: operand of && / || / comparison roots)

I_OPS = ('sub', 'f2', 'm1', 'idx')


def shapes_by_type(levels):
    """All shape trees of depth <= levels (leaf = depth 1) per result type, over the reduced operator set."""
    I = ['T', 'R']
    B = ['TB']
    O = ['TO']
    seen = {'I': list(I), 'B': list(B), 'O': list(O)}
    for _ in range(levels - 1):
        nI = ['T', 'R'] + [(op, a, b) for op in I_OPS for a in seen['I'] for b in seen['I']]
        nI += [('orI', a, b) for a in seen['O'] for b in seen['I']]
        nB = ['TB'] + [('lt', a, b) for a in seen['I'] for b in seen['I']]
        nB += [(op, a, b) for op in ('and', 'or', 'bidx') for a in seen['B'] for b in seen['B']]
        nO = ['TO'] + [('midx', a, b) for a in seen['I'] for b in seen['I']]
        seen = {'I': nI, 'B': nB, 'O': nO}
    return seen


def shape_depth(s):
    if isinstance(s, str):
        return 1
    return 1 + max(shape_depth(s[1]), shape_depth(s[2]))


def shape_id(s):
    if isinstance(s, str):
        return {'T': 't', 'R': 'rec', 'TB': 'tb', 'TO': 'topt'}[s]
    return "%s(%s,%s)" % (s[0], shape_id(s[1]), shape_id(s[2]))


def all_shapes(levels=3):
    """[(shape id, shape, avoided_reason|None)] — every tree of depth <= levels, every result type, plus the
    root-only list / map literals over operands of depth <= levels-1."""
    by = shapes_by_type(levels)
    out = []
    for ty in ('I', 'B', 'O'):
        for s in by[ty]:
            if shape_depth(s) >= 2:
                out.append(s)
    low = shapes_by_type(levels - 1)
    for a in low['I']:
        for b in low['I']:
            out.append(('list2', a, b))
            out.append(('map1', a, b))
    for a in low['B']:
        for b in low['B']:
            out.append(('list2', a, b))
    res = []
    for s in out:
        res.append((shape_id(s), s, avoided(s)))
    return res


def avoided(s):
    """No enumerated shape is excluded any more: an index expression as a list-literal element was repaired in
    /repo (elements are stored by value); the reduced operator set has no unary operator."""
    return None


def shape_bits(s):
    """Number of two-valued choices of a shape: tb value, topt presence, midx hit."""
    if isinstance(s, str):
        return 1 if s in ('TB', 'TO') else 0
    return (1 if s[0] == 'midx' else 0) + shape_bits(s[1]) + shape_bits(s[2])


def instantiate(s, bits):
    """Shape + choice vector -> concrete tree; leaf ids are assigned in source order (= expected order)."""
    ctr = [0]
    bi = [0]

    def nid():
        ctr[0] += 1
        return ctr[0]

    def nb():
        b = bits[bi[0]]
        bi[0] += 1
        return b

    def go(x):
        if x == 'T':
            return ('t', nid())
        if x == 'R':
            return ('rec', 'ra', [('lit', nid())])
        if x == 'TB':
            return ('tb', nid(), nb())
        if x == 'TO':
            return ('topt', nid(), nb())
        op = x[0]
        if op == 'midx':
            hit = nb()
        a = go(x[1])
        b = go(x[2])
        if op == 'sub':
            return ('bin', '-', a, b)
        if op == 'lt':
            return ('bin', '<', a, b)
        if op == 'f2':
            return ('call', 'f2', [a, b])
        if op == 'm1':
            return ('meth', ('mk', a), 1, [b])
        if op == 'idx':
            return ('index', ('call', 'ls2', [a, b]), ('bin', '%', ('t', nid()), ('lit', 2)))
        if op == 'bidx':
            return ('index', ('call', 'lb2', [a, b]), ('bin', '%', ('t', nid()), ('lit', 2)))
        if op == 'orI':
            return ('nileval', a, b)
        if op == 'and':
            return ('and', a, b)
        if op == 'or':
            return ('or', a, b)
        if op == 'midx':
            kid = nid()
            keyval, = [pure_value(a)]
            c = kid - keyval if hit else kid - keyval - 1
            return ('mapidx', ('map', [(a, b)]), ('bin', '-', ('t', kid), ('lit', c)))
        if op == 'list2':
            return ('list', [a, b])
        if op == 'map1':
            return ('map', [(a, b)])
        raise ValueError(op)
    return go(s)


def pure_value(n, helpers=None):
    """Value of a sub-tree evaluated on a scratch log (leaves are pure apart from logging)."""
    e = Ev(helpers)
    return e.ev(n)


def valuations(s):
    n = shape_bits(s)
    return list(itertools.product((False, True), repeat=n))


# ----------------------------------------------------------------------------- arity catalogue

def arity_catalogue():
    """f0..f4 and (mk).m0..m4 and ov.m0..m4 with every argument drawn from {t, t - t, ra, rb(k, 1)}
    (arity <= 3 complete, arity 4 over {t, t - t, ra})."""
    out = []
    for kind in ('f', 'mk', 'ov'):
        for n in range(0, 5):
            pool = ('T', 'S', 'R', 'RB') if n <= 3 else ('T', 'S', 'R')
            for combo in itertools.product(pool, repeat=n):
                ctr = [0]

                def nid():
                    ctr[0] += 1
                    return ctr[0]

                def leaf(c):
                    if c == 'T':
                        return ('t', nid())
                    if c == 'S':
                        return ('bin', '-', ('t', nid()), ('t', nid()))
                    if c == 'R':
                        return ('rec', 'ra', [('lit', nid())])
                    return ('rec', 'rb', [('lit', nid()), ('lit', 1)])
                if kind == 'mk':
                    recv = ('mk', ('t', nid()))
                args = [leaf(c) for c in combo]
                if kind == 'f':
                    tree = ('call', 'f%d' % n, args)
                elif kind == 'mk':
                    tree = ('meth', recv, n, args)
                else:
                    tree = ('meth', ('ov', 1), n, args)
                sid = "arity:%s%d(%s)" % ({'f': 'f', 'mk': 'mk.m', 'ov': 'ov.m'}[kind], n,
                                          ",".join({'T': 't', 'S': 'sub', 'R': 'ra', 'RB': 'rb'}[c] for c in combo))
                out.append((sid, tree))
    # a built-in applied directly to a LITERAL whose elements log: the result may be known to the compiler, the
    # elements must still be evaluated, once, in order
    for n in range(0, 4):
        elems = [('t', k + 1) for k in range(n)]
        out.append(("literal:list%d.len" % n, ('lenlit', elems)))
        out.append(("literal:list%d.len+t" % n, ('bin', '+', ('lenlit', elems), ('t', n + 1))))
        out.append(("literal:f1(list%d.len)" % n, ('call', 'f1', [('lenlit', elems)])))
        pairs = [(('t', 2 * k + 1), ('t', 2 * k + 2)) for k in range(n)]
        out.append(("literal:map%d.len" % n, ('mlenlit', pairs)))
    out.append(("literal:list_of_sub.len", ('lenlit', [('bin', '-', ('t', 1), ('t', 2)), ('rec', 'ra', [('lit', 3)])])))
    out.append(("literal:nested_list.len", ('lenlit', [('lenlit', [('t', 1), ('t', 2)]), ('t', 3)])))
    return out


# ----------------------------------------------------------------------------- disturbance and folding families

def build_family_tree(shape, leaf):
    """Family shape (leaf codes / (op, a, b)) -> concrete tree.  `leaf(code, nid)` makes a leaf; ids in source order."""
    ctr = [0]

    def nid():
        ctr[0] += 1
        return ctr[0]

    def go(x):
        if isinstance(x, str):
            return leaf(x, nid)
        op = x[0]
        a = go(x[1])
        b = go(x[2])
        if op == 'sub':
            return ('bin', '-', a, b)
        if op == 'mul':
            return ('bin', '*', a, b)
        if op == 'lt':
            return ('bin', '<', a, b)
        if op == 'eq':
            return ('bin', '==', a, b)
        if op == 'f2':
            return ('call', 'f2', [a, b])
        if op == 'm1':
            return ('meth', ('mk', a), 1, [b])
        if op == 'idx':
            return ('index', ('call', 'ls2', [a, b]), ('bin', '%', ('t', nid()), ('lit', 2)))
        if op == 'lidx0':
            return ('index', ('list', [a, b]), ('lit', 0))
        if op == 'lidx1':
            return ('index', ('list', [a, b]), ('lit', 1))
        if op == 'list2':
            return ('list', [a, b])
        if op == 'map1':
            return ('map', [(a, b)])
        if op == 'cat':
            return ('bin', '+', ('bin', '+', ('slit', 'c'), a), b)
        if op == 'and':
            return ('and', a, b)
        if op == 'or':
            return ('or', a, b)
        if op == 'orI':
            return ('nileval', a, b)
        raise ValueError(op)
    return go(shape)


def family_shapes(leaves, inner_ops, root_ops):
    """All shapes of depth <= 3: root op over operands that are leaves or inner_op(leaf, leaf)."""
    low = list(leaves) + [(op, a, b) for op in inner_ops for a in leaves for b in leaves]
    return [(op, a, b) for op in root_ops for a in low for b in low]


def shape_leaves(s):
    if isinstance(s, str):
        return [s]
    return shape_leaves(s[1]) + shape_leaves(s[2])


def fam_id(s):
    if isinstance(s, str):
        return s
    return "%s(%s,%s)" % (s[0], fam_id(s[1]), fam_id(s[2]))


INT_ROOTS = ('sub', 'lt', 'eq', 'f2', 'm1', 'idx', 'lidx0', 'lidx1', 'list2', 'map1', 'cat')


def disturb_family():
    """A READ of a mutable place (V) and a sibling call that MUTATES exactly that place (M) at every position of
    every depth <= 3 shape: binary operators, comparison, call and method arguments, receiver argument, indexing,
    list / map literal elements, string concatenation; for the bool variable `&&`, `||`, list elements.
    Place kinds: gv (module variable read at module level), gv@fn (the same variable captured by a function),
    gf (object field go.gf, mutated through a method), ge (list element gl[0], mutated by `gl[0] = ..` in a helper),
    gb / gb@fn (bool variable).  Yields (kind, place, in_fn, [(shape id, shape)...])."""
    ishapes = [s for s in family_shapes(('V', 'M'), ('sub', 'f2', 'm1', 'idx'), INT_ROOTS)
               if 'V' in shape_leaves(s) and 'M' in shape_leaves(s)]
    bshapes = [s for s in family_shapes(('V', 'Mt', 'Mf'), ('and', 'or'), ('and', 'or', 'list2'))
               if 'V' in shape_leaves(s) and ('Mt' in shape_leaves(s) or 'Mf' in shape_leaves(s))]
    for kind, place, in_fn in (('gv', 'gv', False), ('gv@fn', 'gv', True), ('gf', 'gf', False), ('ge', 'ge', False)):
        yield kind, place, in_fn, [(fam_id(s), s) for s in ishapes]
    for kind, place, in_fn in (('gb', 'gb', False), ('gb@fn', 'gb', True), ('gfb', 'gfb', False), ('gfb@fn', 'gfb', True),
                               ('geb', 'geb', False), ('geb@fn', 'geb', True)):
        yield kind, place, in_fn, [(fam_id(s), s) for s in bshapes]


def disturb_leaf(place):
    def leaf(code, nid):
        if code == 'V':
            return ('var', place)
        if code == 'M':
            return ('mut', place, nid())
        if code == 'Mt':
            return ('mut', place, nid(), True)
        if code == 'Mf':
            return ('mut', place, nid(), False)
        raise ValueError(code)
    return leaf


def fold_family():
    """LITERAL leaves next to logging leaves at every position of every depth <= 3 shape (constant folding must not
    change which logging leaves run): ints T (t(k)), Z (0), N (2) under - * < == f2 m1 index list/map literal
    concatenation; bools Bt/Bf (tb(k, true|false)), Lt/Lf (true/false) under && || and list literals.
    Yields (kind, [(shape id, shape)...])."""
    ish = [s for s in family_shapes(('T', 'Z', 'N'), ('sub', 'mul', 'f2'), INT_ROOTS + ('mul',))
           if 'T' in shape_leaves(s) and ('Z' in shape_leaves(s) or 'N' in shape_leaves(s))]
    bsh = [s for s in family_shapes(('Bt', 'Bf', 'Lt', 'Lf'), ('and', 'or'), ('and', 'or', 'list2'))
           if any(c in shape_leaves(s) for c in ('Bt', 'Bf')) and any(c in shape_leaves(s) for c in ('Lt', 'Lf'))]
    yield 'int', [(fam_id(s), s) for s in ish]
    yield 'bool', [(fam_id(s), s) for s in bsh]


def fold_leaf(code, nid):
    if code == 'T':
        return ('t', nid())
    if code == 'Z':
        return ('lit', 0)
    if code == 'N':
        return ('lit', 2)
    if code == 'Bt':
        return ('tb', nid(), True)
    if code == 'Bf':
        return ('tb', nid(), False)
    if code == 'Lt':
        return ('blit', True)
    if code == 'Lf':
        return ('blit', False)
    raise ValueError(code)


def nil_catalogue():
    """`or` with literal operands: nil / present literal primary, literal fallback, nested."""
    T = lambda k: ('t', k)
    cases = [
        ('nil_or_t', ('nileval', ('nil',), T(1))),
        ('nil_or_lit', ('nileval', ('nil',), ('lit', 2))),
        ('present_or_t', ('nileval', ('plit', 5), T(1))),
        ('topt_present_or_lit', ('nileval', ('topt', 1, True), ('lit', 2))),
        ('topt_absent_or_lit', ('nileval', ('topt', 1, False), ('lit', 2))),
        ('sub(nil_or_t,t)', ('bin', '-', ('nileval', ('nil',), T(1)), T(2))),
        ('sub(t,present_or_t)', ('bin', '-', T(1), ('nileval', ('plit', 5), T(2)))),
        ('f2(topt_absent_or_lit,t)', ('call', 'f2', [('nileval', ('topt', 1, False), ('lit', 3)), T(2)])),
        ('f2(t,nil_or_lit)', ('call', 'f2', [T(1), ('nileval', ('nil',), ('lit', 3))])),
        ('list(nil_or_t,present_or_t)', ('list', [('nileval', ('nil',), T(1)), ('nileval', ('plit', 4), T(2))])),
        ('nil_or_(topt_absent_or_t)', ('nileval', ('nil',), ('nileval', ('topt', 1, False), T(2)))),
        ('nil_or_sub(t,lit)', ('nileval', ('nil',), ('bin', '-', T(1), ('lit', 2)))),
        ('and(tb,eq(nil_or_lit,lit))', ('and', ('tb', 1, True), ('bin', '==', ('nileval', ('nil',), ('lit', 2)), ('lit', 2)))),
    ]
    return cases


# ----------------------------------------------------------------------------- random trees (depth <= 4)

class Gen:
    def __init__(self, rng, max_depth=4):
        self.r = rng
        self.max_depth = max_depth
        self.k = 0
        self.helpers = {}        # name -> body tree
        self.in_helper = False

    def nid(self):
        self.k += 1
        return self.k

    def leaf(self, ty):
        r = self.r
        if ty == 'I':
            c = r.random()
            if not self.in_helper:
                v = r.random()
                if v < 0.10:
                    return ('var', r.choice(['gv', 'gf', 'ge']))
                if v < 0.18:
                    return ('mut', r.choice(['gv', 'gf', 'ge']), self.nid())
                if v < 0.24:
                    return ('lit', r.choice([0, 1, 2, 3]))
            if c < 0.70 or self.in_helper:
                return ('t', self.nid())
            if c < 0.80:
                return ('rec', 'ra', [('lit', self.nid())])
            if c < 0.88:
                return ('rec', 'rb', [('lit', self.nid()), ('lit', r.choice([1, 1, 2]))])
            if c < 0.93:
                return ('call', 'f0', [])
            return ('rec', self.new_helper(), [('lit', self.nid())])
        if ty == 'B':
            v = r.random()
            if v < 0.08:
                return ('var', r.choice(BOOL_PLACES))
            if v < 0.16:
                return ('mut', r.choice(BOOL_PLACES), self.nid(), r.random() < 0.5)
            if v < 0.24:
                return ('blit', r.random() < 0.5)
            return ('tb', self.nid(), r.random() < 0.5)
        if ty == 'O':
            v = r.random()
            if v < 0.10:
                return ('nil',)
            if v < 0.16:
                return ('plit', r.choice([4, 5, 6]))
            return ('topt', self.nid(), r.random() < 0.5)
        raise ValueError(ty)

    def new_helper(self):
        """A generated function h<j>(k) whose body is a depth-2/3 tree of its own (deeper frame, same
        temporary register numbers)."""
        name = "h%d" % (len(self.helpers) + 1)
        self.helpers[name] = None
        save = self.in_helper
        self.in_helper = True
        base = self.k
        self.k = 100 * len(self.helpers)
        body = self.tree('I', self.r.choice([2, 2, 3]), top=True)
        self.k = base
        self.in_helper = save
        self.helpers[name] = body
        return name

    def tree(self, ty, d, top=False):
        """A tree of type ty and depth <= d."""
        r = self.r
        if d <= 1 or (not top and r.random() < 0.12):
            return self.leaf(ty)
        sub = lambda t, **kw: self.tree(t, d - 1, **kw)
        if ty == 'I':
            opts = ['arith'] * 5 + ['call'] * 4 + ['meth'] * 3 + ['nileval'] * 2 + ['sl', 'sm', 'neg'] + ['index'] * 3
            c = r.choice(opts)
            if c == 'arith':
                op = r.choice(['+', '-', '-', '*'])
                return ('bin', op, sub('I'), sub('I'))
            if c == 'call':
                n = r.choice([1, 2, 2, 3, 3, 4])
                return ('call', 'f%d' % n, [sub('I') for _ in range(n)])
            if c == 'meth':
                n = r.choice([0, 1, 1, 2, 2, 3, 4])
                recv = ('mk', sub('I')) if r.random() < 0.75 else ('ov', r.choice([1, 2]))
                return ('meth', recv, n, [sub('I') for _ in range(n)])
            if c == 'index':
                if r.random() < 0.8:
                    n = r.choice([1, 2, 2, 3, 3])
                    base = ('call', 'ls%d' % n, [sub('I') for _ in range(n)])
                else:
                    n = 1
                    base = ('list', [self.elem('I', d - 1)])
                idx = ('bin', '%', self.tree('I', max(1, d - 2)), ('lit', n))
                return ('index', base, idx)
            if c == 'nileval':
                return ('nileval', sub('O'), sub('I'))
            if c == 'sl':
                return ('call', 'sl', [('list', [self.elem('I', d - 1) for _ in range(r.randint(1, 4))])])
            if c == 'sm':
                return ('call', 'sm', [self.map_lit(d - 1)])
            if c == 'neg':
                return ('neg', sub('I'))
        if ty == 'B':
            c = r.choice(['cmp'] * 4 + ['and'] * 4 + ['or'] * 4 + ['not', 'pb', 'bidx', 'bidx'])
            if c == 'cmp':
                return ('bin', r.choice(CMP), sub('I'), sub('I'))
            if c == 'and':
                return ('and', sub('B'), sub('B'))
            if c == 'or':
                return ('or', sub('B'), sub('B'))
            if c == 'not':
                return ('not', sub('B'))
            if c == 'bidx':
                return ('index', ('call', 'lb2', [sub('B'), sub('B')]),
                        ('bin', '%', self.tree('I', max(1, d - 2)), ('lit', 2)))
            return ('call', 'pb', [sub('I'), sub('B')])
        if ty == 'O':
            c = r.choice(['mapidx'] * 3 + ['po'] * 2)      # `(o) or o2` is not typable: the fallback must be the inner type
            if c == 'mapidx':
                m = self.map_lit(d - 1)
                key = self.tree('I', max(1, d - 2))
                return ('mapidx', m, ('bin', '-', key, ('lit', ('adj', r.random() < 0.6, r.randrange(8)))))
            return ('call', 'po', [sub('I'), sub('B')])
        if ty == 'L':
            et = r.choice(['I', 'I', 'B', 'L'] if d >= 3 else ['I', 'I', 'B'])
            n = r.randint(1, 4)
            if et == 'L':
                return ('list', [('list', [self.elem(r.choice(['I', 'B']), d - 2) for _ in range(r.randint(1, 3))])
                                 for _ in range(n)])
            return ('list', [self.elem(et, d - 1) for _ in range(n)])
        if ty == 'M':
            return self.map_lit(d)
        raise ValueError(ty)

    def elem(self, ty, d):
        """List-literal element (index expressions are allowed since elements are stored by value)."""
        return self.tree(ty, d)

    def noptr(self, ty, d):
        """Operand of unary minus / `!`: never a pointer-yielding expression (avoidance rule index_result_under_unary)."""
        for _ in range(20):
            e = self.tree(ty, d)
            if not yields_pointer(e, self.helpers):
                return e
        return self.leaf(ty)

    def map_lit(self, d):
        n = self.r.randint(1, 3)
        return ('map', [(self.tree('I', max(1, d - 1)), self.tree('I', max(1, d - 1))) for _ in range(n)])


def resolve_adjust(n, helpers):
    """Replace the ('adj', hit, salt) placeholders of map-index keys by the literal that makes the key hit
    (one of the map's keys) or miss."""
    k = n[0]
    if k in LEAFS:
        return n
    if k == 'mapidx':
        m = resolve_adjust(n[1], helpers)
        key = n[2]
        if key[0] == 'bin' and key[3][0] == 'lit' and isinstance(key[3][1], tuple):
            _, hit, salt = key[3][1]
            inner = resolve_adjust(key[2], helpers)
            kv = pure_value(inner, helpers)
            keys = [pure_value(a, helpers) for a, _ in m[1]]
            if hit:
                target = keys[salt % len(keys)]
            else:
                target = max(keys) + 1 + salt
            key = ('bin', '-', inner, ('lit', kv - target))
        else:
            key = resolve_adjust(key, helpers)
        return ('mapidx', m, key)
    if k == 'rec':
        return ('rec', n[1], [resolve_adjust(a, helpers) for a in n[2]])
    if k == 'bin':
        return ('bin', n[1], resolve_adjust(n[2], helpers), resolve_adjust(n[3], helpers))
    if k in ('and', 'or', 'nileval', 'index'):
        return (k, resolve_adjust(n[1], helpers), resolve_adjust(n[2], helpers))
    if k in ('not', 'neg'):
        return (k, resolve_adjust(n[1], helpers))
    if k == 'call':
        return ('call', n[1], [resolve_adjust(a, helpers) for a in n[2]])
    if k == 'meth':
        recv = ('mk', resolve_adjust(n[1][1], helpers)) if n[1][0] == 'mk' else n[1]
        return ('meth', recv, n[2], [resolve_adjust(a, helpers) for a in n[3]])
    if k == 'list':
        return ('list', [resolve_adjust(a, helpers) for a in n[1]])
    if k == 'map':
        return ('map', [(resolve_adjust(a, helpers), resolve_adjust(b, helpers)) for a, b in n[1]])
    raise ValueError(n)


CONTEXTS = ('print', 'assign', 'fn', 'block', 'loop', 'method', 'concat', 'closure')
TYPE_TEXT = {'I': 'int', 'B': 'bool', 'O': 'int?'}


def gen_random(seed, max_depth=4):
    """-> dict(tree, helpers, context, repeat) for the first attempt that stays inside the space
    (no overflow, no duplicate key, index in range), or None."""
    for attempt in range(30):
        rng = random.Random("%s/%d" % (seed, attempt))
        g = Gen(rng, max_depth)
        ty = rng.choice(['I'] * 5 + ['B'] * 4 + ['O'] * 2 + ['L'] * 2 + ['M'])
        try:
            tree = g.tree(ty, max_depth, top=True)
            helpers = {}
            for name in sorted(g.helpers):
                helpers[name] = resolve_adjust(g.helpers[name], helpers)
            tree = resolve_adjust(tree, helpers)
            st = dict(INIT_STATE)
            evaluate(tree, helpers, 'ltr', st)
            evaluate(tree, helpers, 'ltr', st)       # the loop context evaluates it twice on the changed state
        except (Overflow, BadCase):
            continue
        ok = ['print', 'assign', 'block', 'loop']
        if ty in TYPE_TEXT:
            ok += ['fn', 'method', 'closure']
        if ty == 'I':
            ok.append('concat')
        ctx = rng.choice(ok)
        return {"tree": tree, "helpers": helpers, "context": ctx, "type": ty}
    return None


def helper_src(helpers):
    out = []
    for name in sorted(helpers, key=lambda s: int(s[1:])):
        body = helpers[name]
        out.append("%s = fn(%sk: int) -> int {\n  print \"%s \" + %sk\n  return %s\n}\n" % (
            name, name, name, name, render(body)))
    return "".join(out)


def program(tree, helpers, context='print', ty=None):
    """-> (source, repeat) : the expression in its statement context; `repeat` = how often it is evaluated."""
    ty = ty or type_of(tree)
    e = render(tree)
    src = PRELUDE + helper_src(helpers)
    repeat = 1
    if context == 'print':
        src += "print %s\n" % e
    elif context == 'assign':
        const = "const " if tree[0] == 'list' else ""      # fixed-shape (>= 2 elements or all-literal) lists must be const
        src += "%srv = %s\nprint rv\n" % (const, e)
    elif context == 'fn':
        src += "wf = fn() -> %s {\n  return %s\n}\nprint wf()\n" % (TYPE_TEXT[ty], e)
    elif context == 'closure':
        src += ("wo = fn() -> %s {\n  wi = fn() -> %s {\n    return %s\n  }\n  return wi()\n}\nprint wo()\n"
                % (TYPE_TEXT[ty], TYPE_TEXT[ty], e))
    elif context == 'block':
        src += "gate = true\nif gate {\n  print %s\n}\n" % e
    elif context == 'loop':
        src += "from 0 to 2 {\n  print %s\n}\n" % e
        repeat = 2
    elif context == 'method':
        src += ("class Cx {\n  fn run(self) -> %s {\n    return %s\n  }\n}\ncxo = Cx()\nprint cxo.run()\n"
                % (TYPE_TEXT[ty], e))
    elif context == 'concat':
        src += "print \"v=\" + (%s)\n" % e
    else:
        raise ValueError(context)
    return src, repeat


# ----------------------------------------------------------------------------- comparison

def classify(exp_log, exp_val, obs_lines, skipped, ok):
    """None when the observed section agrees, else the deviation class."""
    if obs_lines and canon_value_line(obs_lines[-1]) == exp_val and obs_lines[:-1] == exp_log and ok:
        return None
    if not ok:
        return "failure"
    if not obs_lines:
        return "multiplicity"
    obs_log, obs_val = obs_lines[:-1], canon_value_line(obs_lines[-1])
    if obs_log == exp_log:
        return "value"
    extra = list(obs_log)
    missing = []
    for l in exp_log:
        if l in extra:
            extra.remove(l)
        else:
            missing.append(l)
    if any(l in skipped for l in extra):
        return "short_circuit"
    if (extra or missing) and [_head(l) for l in obs_log] == [_head(l) for l in exp_log]:
        return "value"          # the same calls in the same order, but a call logged other argument values
    if extra or missing:
        return "multiplicity"
    return "order"


_LEAF_HEADS = ('t', 'tb', 'topt', 'bg', 'bf', 'bl', 'fb', 'ra', 'rb')


def _head(line):
    w = line.split(" ")
    return line if w[0] in _LEAF_HEADS or w[0].startswith('h') else w[0]
