"""Exact model of MScript's numeric tower (properties C05, C06).

Kinds: int (i32), bigint (i128), float (IEEE-754 binary64), byte (u8).  A value is a pair (kind, v) with v a
Python int (integer kinds) or a Python float.  Every operation returns one of

    ("ok", kind, v)            the exact result and its promoted kind
    ("fail", reason)           the exact result is not representable / undefined: execution must stop
    ("undefined", reason)      the operator has no meaning for these kinds (bitwise/shift with a float, unary
                               minus of a byte, `!` of a number): the compiler may reject it; if it runs it
                               must stop, never print a value

The promotion table is the one of the C05 statement: same kinds keep their kind, byte yields to the other
operand, int yields to bigint, anything with float is float.  Python standard library only."""
import math
import re
import struct
from decimal import Decimal

KINDS = ("int", "bigint", "float", "byte")
INT_KINDS = ("int", "bigint", "byte")
RANGE = {"int": (-2 ** 31, 2 ** 31 - 1), "bigint": (-2 ** 127, 2 ** 127 - 1), "byte": (0, 255)}
WIDTH = {"int": 32, "bigint": 128, "byte": 8}
PRINT_KIND = {"int": "Int", "bigint": "BigInt", "float": "Float", "byte": "Byte", "bool": "Bool"}
KIND_OF_PRINT = {v: k for k, v in PRINT_KIND.items()}
TYPE_TEXT = {"int": "int", "bigint": "bigint", "float": "float", "byte": "byte", "bool": "bool"}

ARITH = ("+", "-", "*", "/", "%")
COMPARE = ("<", "<=", ">", ">=", "==", "!=")
BITWISE = ("&", "|", "xor")
SHIFT = ("<<", ">>")
BINARY_OPS = ARITH + COMPARE + BITWISE + SHIFT
OP_NAME = {"+": "add", "-": "sub", "*": "mul", "/": "div", "%": "rem", "<": "lt", "<=": "le", ">": "gt",
           ">=": "ge", "==": "eq", "!=": "ne", "&": "and", "|": "or", "xor": "xor", "<<": "shl", ">>": "shr",
           "neg": "neg", "!": "not", "negneg": "negneg", "notnot": "notnot"}

# Self-validation of the oracles (docs/notes_C05_C06.md): VERIF_MODEL_BREAK deliberately falsifies one cell of
# this model so that the engines must fire.  Never set in a real run (the engines report it in `assumptions`).
#   promote:int,byte=byte    flip one cell of the promotion table
#   no_range_check:int       wrap instead of failing on overflow of that kind
#   float_zero_guard         a float zero divisor is no longer a failure (IEEE inf/NaN expected instead)
_BREAK = {}


def _load_break():
    import os
    spec = os.environ.get("VERIF_MODEL_BREAK", "")
    for part in filter(None, spec.split(";")):
        name, _, arg = part.partition(":")
        if name == "promote":
            cell, _, to = arg.partition("=")
            _BREAK["promote"] = (tuple(cell.split(",")), to)
        elif name == "no_range_check":
            _BREAK["no_range_check"] = arg
        elif name == "float_zero_guard":
            _BREAK["float_zero_guard"] = True
        else:
            raise ValueError("unknown VERIF_MODEL_BREAK part %r" % part)


_load_break()


def promote(lk, rk):
    """Result kind of an arithmetic / bitwise / shift operator (the table of the C05 statement)."""
    if "promote" in _BREAK and (lk, rk) == _BREAK["promote"][0]:
        return _BREAK["promote"][1]
    if lk == "float" or rk == "float":
        return "float"
    if lk == rk:
        return lk
    if lk == "byte":
        return rk
    if rk == "byte":
        return lk
    return "bigint"            # int with bigint


def fits(kind, v):
    lo, hi = RANGE[kind]
    return lo <= v <= hi


def to_float(kind, v):
    """Integer -> double, correctly rounded (round-half-even; every i128 is within double range)."""
    return v if kind == "float" else float(v)


# ----------------------------------------------------------------------------- float helpers

def fbits(x):
    """Bit pattern of a double; every NaN is canonicalised (sign and payload of a NaN are not observable
    through `print`)."""
    if x != x:
        return 0x7ff8000000000000
    return struct.unpack("<Q", struct.pack("<d", x))[0]


def from_bits(b):
    return struct.unpack("<d", struct.pack("<Q", b))[0]


def same_value(kind, a, b):
    """Equality of two values of one kind: integers exactly, floats by bit pattern (-0 != 0, NaN == NaN)."""
    if kind == "float":
        return fbits(float(a)) == fbits(float(b))
    return a == b


def _fmod(x, y):
    if x != x or y != y:
        return float("nan")
    if math.isinf(x) or y == 0:
        return float("nan")
    if math.isinf(y):
        return x
    return math.fmod(x, y)


def _fdiv(x, y):
    if y == 0:                     # only reachable under VERIF_MODEL_BREAK=float_zero_guard
        if x != x or x == 0:
            return float("nan")
        return math.copysign(float("inf"), x) * math.copysign(1.0, y)
    return x / y


def _float_arith(op, x, y):
    if op == "+":
        return x + y
    if op == "-":
        return x - y
    if op == "*":
        return x * y
    if op == "/":
        return _fdiv(x, y)
    if op == "%":
        return _fmod(x, y)
    raise ValueError(op)


# ----------------------------------------------------------------------------- integer helpers

def _tdiv(a, b):
    """Truncating division (towards zero)."""
    q = abs(a) // abs(b)
    return q if (a < 0) == (b < 0) else -q


def _trem(a, b):
    """Remainder with the sign of the dividend: a - b * trunc(a / b)."""
    return a - b * _tdiv(a, b)


def _checked(kind, v, what):
    if "no_range_check" in _BREAK and kind == _BREAK["no_range_check"]:
        lo, hi = RANGE[kind]
        span = hi - lo + 1
        return ("ok", kind, (v - lo) % span + lo)
    if fits(kind, v):
        return ("ok", kind, v)
    return ("fail", "%s: exact result %d does not fit %s" % (what, v, kind))


# ----------------------------------------------------------------------------- operators

def binop(op, a, b):
    """Exact result of `a op b` for a = (kind, value), b = (kind, value)."""
    (lk, x), (rk, y) = a, b
    if op in COMPARE:
        return ("ok", "bool", _compare(op, lk, x, rk, y))
    if op in ARITH:
        if op in ("/", "%") and y == 0:      # Int 0, BigInt 0, Byte 0, Float +0.0 and -0.0
            if not ("float_zero_guard" in _BREAK and rk == "float"):
                return ("fail", "zero divisor (%s)" % rk)
        out = promote(lk, rk)
        if out == "float":
            return ("ok", "float", _float_arith(op, to_float(lk, x), to_float(rk, y)))
        if op == "+":
            v = x + y
        elif op == "-":
            v = x - y
        elif op == "*":
            v = x * y
        elif op == "/":
            v = _tdiv(x, y)
        else:
            v = _trem(x, y)
        return _checked(out, v, OP_NAME[op])
    if op in BITWISE or op in SHIFT:
        if lk == "float" or rk == "float":
            return ("undefined", "%s is not defined on float operands" % op)
        out = promote(lk, rk)
        if op == "&":
            return _checked(out, x & y, "and")          # Python ints are infinite two's complement:
        if op == "|":                                   # identical to sign-extended fixed-width operands
            return _checked(out, x | y, "or")
        if op == "xor":
            return _checked(out, x ^ y, "xor")
        if y < 0 or y >= WIDTH[out]:
            return ("fail", "shift amount %d out of range for %s" % (y, out))
        if op == "<<":
            return _checked(out, x * (2 ** y), "shl")
        return _checked(out, x >> y, "shr")             # floor(x / 2^y)
    raise ValueError("unknown operator %r" % (op,))


def _compare(op, lk, x, rk, y):
    if lk == "float" or rk == "float":
        x, y = to_float(lk, x), to_float(rk, y)         # the integer side is converted to double
    if op == "<":
        return x < y
    if op == "<=":
        return x <= y
    if op == ">":
        return x > y
    if op == ">=":
        return x >= y
    if op == "==":
        return x == y
    if op == "!=":
        return x != y
    raise ValueError(op)


def unary(op, a):
    """`neg` (unary minus) on numbers, `!` on booleans; `negneg` / `notnot`: the operator applied twice (each
    application is evaluated: `-(-x)` fails when `-x` is not representable)."""
    if op in ("negneg", "notnot"):
        inner = "neg" if op == "negneg" else "!"
        r = unary(inner, a)
        if r[0] != "ok":
            return r
        return unary(inner, (r[1], r[2]))
    k, x = a
    if op == "neg":
        if k == "float":
            return ("ok", "float", -x)
        if k == "byte":
            return ("undefined", "unary minus is not defined on byte")
        if k in ("int", "bigint"):
            return _checked(k, -x, "neg")
        return ("undefined", "unary minus of %s" % k)
    if op == "!":
        if k == "bool":
            return ("ok", "bool", not x)
        return ("undefined", "`!` of %s" % k)
    raise ValueError(op)


# ----------------------------------------------------------------------------- literals

def float_text(x):
    """Positional decimal text of a non-negative finite double that reads back to the same double
    (the grammar has no exponent form: `integer "." integer`)."""
    assert x == x and not math.isinf(x) and (x > 0 or fbits(x) == 0)
    r = repr(x)
    if "e" in r or "E" in r:
        r = format(Decimal(r), "f")
    if "." not in r:
        r += ".0"
    assert float(r) == x, (r, x)
    return r


def underscore(digits, every=3):
    """1234567 -> 1_234_567 (separators are legal between digits)."""
    out = []
    for i, ch in enumerate(reversed(digits)):
        if i and i % every == 0:
            out.append("_")
        out.append(ch)
    return "".join(reversed(out))


def literal(kind, v, style="plain"):
    """Source spelling of a NON-NEGATIVE value as a single literal token.
    styles: int: plain | hex | sep;  bigint: plain | hex | sep;  float: plain | suffix | sep;  byte: plain | sep | wide.
    Returns None when the style cannot spell the value."""
    if kind == "int":
        if not 0 <= v <= RANGE["int"][1]:
            return None
        if style == "hex":
            return "0x%x" % v
        if style == "sep":
            return underscore(str(v))
        return str(v)
    if kind == "bigint":
        if not 0 <= v <= RANGE["bigint"][1]:
            return None
        if style == "hex":
            return "B0x%x" % v
        if style == "sep":
            return "B" + underscore(str(v))
        return "B%d" % v
    if kind == "byte":
        if not 0 <= v <= 255:
            return None
        if style == "sep":
            return "0b" + underscore(format(v, "b"), 4)
        if style == "wide":
            return "0b" + format(v, "08b")
        return "0b" + format(v, "b")
    if kind == "float":
        if v != v or math.isinf(v) or v < 0 or fbits(v) == fbits(-0.0):
            return None
        if style == "suffix":
            if v != int(v) or v >= 2 ** 63:
                return None
            return "%df" % int(v)
        t = float_text(v)
        if style == "sep":
            whole, frac = t.split(".")
            return underscore(whole) + "." + frac
        return t
    raise ValueError(kind)


FLOAT_HUGE = 1e308


def source(kind, v):
    """A source expression made of literals whose value is exactly (kind, v), for binding an operand to a
    variable.  Negative integers are written as subtractions from zero so that the text does not depend on
    how the compiler folds a negated literal (a former C06 finding); the engines echo every operand to check it."""
    if kind == "bool":
        return "true" if v else "false"
    if kind == "byte":
        return literal("byte", v)
    if kind == "int":
        if v >= 0:
            return literal("int", v)
        if v == RANGE["int"][0]:
            return "(0 - 2147483647 - 1)"
        return "(0 - %d)" % -v
    if kind == "bigint":
        if v >= 0:
            return literal("bigint", v)
        if v == RANGE["bigint"][0]:
            return "(B0 - B%d - B1)" % RANGE["bigint"][1]
        return "(B0 - B%d)" % -v
    if kind == "float":
        if v != v:
            return "(%s * 10.0 - %s * 10.0)" % (float_text(FLOAT_HUGE), float_text(FLOAT_HUGE))
        if math.isinf(v):
            return ("(%s * 10.0)" if v > 0 else "(0.0 - %s * 10.0)") % float_text(FLOAT_HUGE)
        if fbits(v) == fbits(-0.0):
            return "-0.0"
        if v < 0:
            return "-" + float_text(-v)
        return float_text(v)
    raise ValueError(kind)


LITERAL_RE = re.compile(r"^(B0x[0-9a-fA-F_]+|B[0-9_]+|0x[0-9a-fA-F_]+|0b[01_]+|[0-9_]+\.[0-9_]+|[0-9_]+[fF]|[0-9_]+)$")


def literal_value(text):
    """(kind, value) denoted by a literal token, by the language rules: an integer literal that does not fit
    32 bits is a bigint; a literal that fits no kind is ("invalid", None)."""
    assert LITERAL_RE.match(text), text
    t = text.replace("_", "")
    if t.startswith("B0x"):
        v = int(t[3:], 16)
        return ("bigint", v) if fits("bigint", v) else ("invalid", None)
    if t.startswith("B"):
        v = int(t[1:])
        return ("bigint", v) if fits("bigint", v) else ("invalid", None)
    if t.startswith("0x"):
        v = int(t[2:], 16)
    elif t.startswith("0b"):
        v = int(t[2:], 2)
        return ("byte", v) if fits("byte", v) else ("invalid", None)
    elif t[-1] in "fF":
        return ("float", float(t[:-1]))
    elif "." in t:
        return ("float", float(t))
    else:
        v = int(t)
    if fits("int", v):
        return ("int", v)
    if fits("bigint", v):
        return ("bigint", v)
    return ("invalid", None)


# ----------------------------------------------------------------------------- printed values

LINE_RE = re.compile(r"^«([^»]*)» (.*)$", re.S)


def split_typed(line):
    """`«Int» 5` -> ("Int", "5"); None when the line has no kind prefix."""
    m = LINE_RE.match(line)
    return (m.group(1), m.group(2)) if m else None


def parse_value(kind, text):
    """Printed text -> value of the given model kind; raises ValueError when the text is not of that form."""
    if kind == "bool":
        if text in ("true", "false"):
            return text == "true"
        raise ValueError("not a bool: %r" % text)
    if kind == "byte":
        if not re.match(r"^0b[01]+$", text):
            raise ValueError("not a byte: %r" % text)
        return int(text[2:], 2)
    if kind in ("int", "bigint"):
        if not re.match(r"^-?[0-9]+$", text):
            raise ValueError("not an integer: %r" % text)
        return int(text)
    if kind == "float":
        if text in ("NaN", "-NaN", "nan"):
            return float("nan")
        if text == "inf":
            return float("inf")
        if text == "-inf":
            return float("-inf")
        if not re.match(r"^-?[0-9]+(\.[0-9]+)?(e-?[0-9]+)?$", text):
            raise ValueError("not a float: %r" % text)
        return float(text)
    raise ValueError(kind)


def parse_printed(line):
    """`«Kind» text` -> (model kind, value) for the five scalar kinds; (print kind, raw text) otherwise."""
    st = split_typed(line)
    if st is None:
        raise ValueError("no kind prefix: %r" % line)
    pk, text = st
    k = KIND_OF_PRINT.get(pk)
    if k is None:
        return (pk, text)
    return (k, parse_value(k, text))


def show(val):
    """JSON-able rendering of a model value / result for witnesses."""
    if val is None:
        return None
    if val[0] == "ok":
        return {"status": "value", "kind": val[1], "value": show_scalar(val[1], val[2])}
    if val[0] in ("fail", "undefined"):
        return {"status": "failure" if val[0] == "fail" else "undefined", "reason": val[1]}
    return {"kind": val[0], "value": show_scalar(val[0], val[1])}


def show_scalar(kind, v):
    if kind == "float":
        return "%r (bits 0x%016x)" % (v, fbits(v))
    if kind == "bool":
        return bool(v)
    return str(v)
