"""Report-only sanitizer lane (DESIGN §3.3): Miri over `compiler::eval` for a sample of catalogue programs of the
properties whose anchored mechanisms live in `unsafe` code (static mut OBJECT_BUILDER, raw register counters,
`call_stack.as_ptr()`, gc cells).  Findings are *reported in evidence*, never turned into a violation: undefined
behaviour that does not change what a property talks about does not refute it."""
import os
import re
import shutil
import subprocess
import time

from . import core

CRATE = os.path.join(core.VERIF, "miri_harness")
TARGET = os.path.join(core.WORK, "target_miri")
FLAGS = "-Zmiri-disable-isolation -Zmiri-ignore-leaks"


def _crate_dir():
    if os.path.realpath(core.REPO) == "/repo":
        return CRATE
    d = os.path.join(core.WORK, "miri_harness_src")
    os.makedirs(os.path.join(d, "src"), exist_ok=True)
    toml = open(os.path.join(CRATE, "Cargo.toml")).read().replace('path = "/repo/compiler"', 'path = "%s/compiler"' % os.path.realpath(core.REPO))
    open(os.path.join(d, "Cargo.toml"), "w").write(toml)
    shutil.copy(os.path.join(CRATE, "src", "main.rs"), os.path.join(d, "src", "main.rs"))
    return d


def _env():
    env = dict(os.environ)
    env["CARGO_TARGET_DIR"] = TARGET
    env["CARGO_NET_OFFLINE"] = "true"
    env["MIRIFLAGS"] = FLAGS
    env["RUST_BACKTRACE"] = "0"
    env.pop("RUSTFLAGS", None)
    return env


def _one(item):
    crate, name, src = item
    d = core.case_dir("miri")
    path = os.path.join(d, "p.ms")
    with open(path, "w") as f:
        f.write(src)
    t0 = time.time()
    try:
        p = subprocess.run(["cargo", "+nightly", "miri", "run", "--offline", "-q", "--", path], cwd=crate, env=_env(),
                           stdout=subprocess.PIPE, stderr=subprocess.PIPE, text=True, timeout=600)
        out, err, rc = p.stdout, p.stderr, p.returncode
    except subprocess.TimeoutExpired:
        out, err, rc = "", "timeout", None
    finally:
        core.rm(d)
    reports = []
    for m in re.finditer(r"error: (Undefined Behavior|unsupported operation|memory leaked|data race)[^\n]*\n(?:.*\n){0,12}", err):
        first = m.group(0).split("\n")[0]
        frame = re.search(r"-->\s*(/repo/[^\s:]+|[^\s:]*(?:bytecode|compiler)/src/[^\s:]+):(\d+)", m.group(0))
        reports.append({"error": first[:200], "at": (frame.group(1) if frame else "?")})
    return {"name": name, "rc": rc, "ran": "@@MIRI-HARNESS" in out, "reports": reports, "secs": round(time.time() - t0, 1),
            "stderr_tail": err[-300:] if (rc not in (0,) and not reports) else ""}


def samples_for(prop, n):
    """(name, source) single-file programs of the property's own deterministic catalogue."""
    try:
        if prop == "C07":
            from .engines import c07
            return [(a, b) for a, b in c07.CATALOGUE][:n]
        if prop == "C08":
            from .engines import c08
            return [(a, b) for a, b in c08.CATALOGUE][:n]
        if prop == "C13":
            from .engines import c13
            cat = c13.catalogue()
            step = max(1, len(cat) // n)
            return [(c["id"], c["source"]) for c in cat[::step]][:n]
        if prop == "C15":
            from .models import evalorder as eo
            out = []
            seed = 1
            n = min(n, 4)          # Miri needs minutes for the deep trees
            while len(out) < n and seed < 40 * n:
                g = eo.gen_random(seed, 3)
                seed += 1
                if g is None:
                    continue
                src, _ = eo.program(g["tree"], g["helpers"], g["context"], g["type"])
                out.append(("random_tree_%d" % (seed - 1), src))
            return out
    except Exception:
        pass
    # fall back to the repository's examples
    from . import corpus
    want = {"C07": "closures", "C08": "classes", "C13": "list", "C15": "math"}.get(prop, "")
    out = [(name, files[entry]) for name, files, entry in corpus.example_programs() if want in name and len(files) == 1]
    return out[:n]


def lane(prop, n=12):
    """Runs the lane; returns the evidence dict (never raises)."""
    t0 = time.time()
    try:
        crate = _crate_dir()
        lock = os.path.join(crate, "Cargo.lock")
        shutil.copy(os.path.join(core.REPO, "Cargo.lock"), lock)
        progs = samples_for(prop, n)
        if not progs:
            return {"tool": "miri", "status": "no single-file samples"}
        # build once (serial), then run in parallel
        first = _one((crate, progs[0][0], progs[0][1]))
        rest = core.pmap(_one, [(crate, a, b) for a, b in progs[1:]], procs=min(12, core.NPROC))
        results = [first] + [r for s, r in rest if s == "ok"]
        reports = {}
        for r in results:
            for rep in r["reports"]:
                key = rep["error"] + " @ " + rep["at"]
                reports.setdefault(key, []).append(r["name"])
        return {"tool": "cargo +nightly miri run (MIRIFLAGS=%s) on compiler::eval" % FLAGS, "programs": len(results),
                "programs_interpreted_to_completion": sum(1 for r in results if r["ran"]),
                "distinct_reports": [{"report": k, "programs": v[:5]} for k, v in sorted(reports.items())],
                "not_run": [r["name"] + ": " + r["stderr_tail"][-120:] for r in results if not r["ran"] and not r["reports"]][:5],
                "wall_s": round(time.time() - t0, 1), "verdict": "report-only (does not affect the property's verdict)"}
    except Exception as ex:      # the lane must never break a check
        return {"tool": "miri", "status": "lane failed: %r" % (ex,)}


# ----------------------------------------------------------------------------- AddressSanitizer lane
# A second build of /repo's working tree (nightly, -Zsanitizer=address, hooks on) runs a sample of a property's own
# workload.  A red-zone / use-after-free report is a memory error of the interpreter or compiler on a program the
# compiler accepted.  For C02 this is part of the verdict (the statement lists the only failures an accepted program
# may have; "the interpreter corrupted its heap" is not one of them); for the other properties it is report-only.

ASAN_TARGET = os.path.join(core.WORK, "target_asan")
ASAN_BIN = os.path.join(ASAN_TARGET, "x86_64-unknown-linux-gnu", "debug", "mscript")
ASAN_OPTIONS = "detect_leaks=0:halt_on_error=1:abort_on_error=0:exitcode=97:allocator_may_return_null=1"


def asan_build():
    """Returns the path of the ASan binary, or None (with a reason) when this toolchain cannot build it."""
    env = dict(os.environ)
    env["RUSTFLAGS"] = "-Zsanitizer=address -Cforce-frame-pointers=yes " + core.RUSTFLAGS
    env["CARGO_TARGET_DIR"] = ASAN_TARGET
    env["CARGO_NET_OFFLINE"] = "true"
    env.pop("RUST_BACKTRACE", None)
    try:
        p = subprocess.run(["cargo", "+nightly", "build", "--offline", "--bin", "mscript", "--target",
                            "x86_64-unknown-linux-gnu"], cwd=core.REPO, env=env, stdout=subprocess.PIPE,
                           stderr=subprocess.STDOUT, text=True, timeout=1800)
    except (OSError, subprocess.TimeoutExpired) as ex:
        return None, "asan build not possible: %r" % (ex,)
    if p.returncode != 0 or not os.path.exists(ASAN_BIN):
        return None, "asan build failed: " + p.stdout[-300:]
    return ASAN_BIN, ""


_ASAN_RE = re.compile(r"ERROR: AddressSanitizer: ([^\n]*)")


def asan_report(err):
    """(kind, first in-repo frame) of an ASan report in `err`, or None."""
    m = _ASAN_RE.search(err or "")
    if not m:
        return None
    kind = m.group(1).split(" on address")[0].split(" on unknown")[0].strip()[:80]
    frame = "?"
    for fm in re.finditer(r"#\d+ 0x[0-9a-f]+ in (\S+) (\S+)", err):
        fn, where = fm.group(1), fm.group(2)
        if "/bytecode/src/" in where or "/compiler/src/" in where or where.startswith(core.REPO + "/src/"):
            frame = re.sub(r"::h[0-9a-f]{16}$", "", fn)[:120]
            break
    return kind, frame


def _asan_one(item):
    name, files, entry, env = item
    d = core.case_dir("asan")
    try:
        core.write_files(d, files)
        e = {"ASAN_OPTIONS": ASAN_OPTIONS}
        e.update(env or {})
        ra = core.run([ASAN_BIN, "run", entry, "-q"], d, e, cpu=60)
        rn = core.run(core.ms("run", entry, "-q"), d, env or {}, cpu=20)
    finally:
        core.rm(d)
    rep = asan_report(ra.err)
    same = (ra.cls == rn.cls)   # texts may differ legitimately (hash order, addresses)
    return {"name": name, "report": rep, "same_as_plain_build": same, "cls": ra.cls, "plain_cls": rn.cls,
            "err_tail": ra.err[-1500:] if rep else "", "files": files if rep else None}


def asan_lane(programs, env=None):
    """programs: [(name, {file: text}, entry)].  Returns (evidence dict, [reports with program])."""
    t0 = time.time()
    try:
        binp, why = asan_build()
        if not binp:
            return {"tool": "asan", "status": why}, []
        res = core.pmap(_asan_one, [(n, f, en, env) for n, f, en in programs], chunksize=4)
        ok = [r for s, r in res if s == "ok"]
        reports = {}
        hits = []
        for r in ok:
            if r["report"]:
                key = "%s @ %s" % r["report"]
                reports.setdefault(key, []).append(r["name"])
                hits.append(r)
        diff = [r["name"] for r in ok if not r["report"] and not r["same_as_plain_build"] and r["cls"] not in ("cpu_timeout", "wall_timeout") and r["plain_cls"] not in ("signal",)]
        return {"tool": "rustc +nightly -Zsanitizer=address build of the working tree (hooks on), ASAN_OPTIONS=" + ASAN_OPTIONS,
                "programs_run_under_asan": len(ok), "exit_classes": _count(r["cls"] for r in ok),
                "distinct_reports": [{"report": k, "programs": v[:5], "count": len(v)} for k, v in sorted(reports.items())],
                "exit_class_differs_from_plain_build_without_report": diff[:10],
                "wall_s": round(time.time() - t0, 1)}, hits
    except Exception as ex:      # the lane must never break a check
        return {"tool": "asan", "status": "lane failed: %r" % (ex,)}, []


def _count(it):
    c = {}
    for x in it:
        c[x] = c.get(x, 0) + 1
    return c
