"""Report-only sanitizer lane (DESIGN §3.3): Miri over `compiler::eval` for a sample of catalogue programs of the
properties whose anchored mechanisms live in `unsafe` code (static mut OBJECT_BUILDER, raw register counters,
`call_stack.as_ptr()`, gc cells).  Findings are *reported in evidence*, never turned into a violation: undefined
behaviour that does not change what a property talks about does not refute it."""
import os
import re
import shutil
import subprocess
import time

from . import core

CRATE = os.path.join(core.VERIF, "miri_harness")
TARGET = os.path.join(core.WORK, "target_miri")
FLAGS = "-Zmiri-disable-isolation -Zmiri-ignore-leaks"


def _crate_dir():
    if os.path.realpath(core.REPO) == "/repo":
        return CRATE
    d = os.path.join(core.WORK, "miri_harness_src")
    os.makedirs(os.path.join(d, "src"), exist_ok=True)
    toml = open(os.path.join(CRATE, "Cargo.toml")).read().replace('path = "/repo/compiler"', 'path = "%s/compiler"' % os.path.realpath(core.REPO))
    open(os.path.join(d, "Cargo.toml"), "w").write(toml)
    shutil.copy(os.path.join(CRATE, "src", "main.rs"), os.path.join(d, "src", "main.rs"))
    return d


def _env():
    env = dict(os.environ)
    env["CARGO_TARGET_DIR"] = TARGET
    env["CARGO_NET_OFFLINE"] = "true"
    env["MIRIFLAGS"] = FLAGS
    env["RUST_BACKTRACE"] = "0"
    env.pop("RUSTFLAGS", None)
    return env


def _one(item):
    crate, name, src = item
    d = core.case_dir("miri")
    path = os.path.join(d, "p.ms")
    with open(path, "w") as f:
        f.write(src)
    t0 = time.time()
    try:
        p = subprocess.run(["cargo", "+nightly", "miri", "run", "--offline", "-q", "--", path], cwd=crate, env=_env(),
                           stdout=subprocess.PIPE, stderr=subprocess.PIPE, text=True, timeout=600)
        out, err, rc = p.stdout, p.stderr, p.returncode
    except subprocess.TimeoutExpired:
        out, err, rc = "", "timeout", None
    finally:
        core.rm(d)
    reports = []
    for m in re.finditer(r"error: (Undefined Behavior|unsupported operation|memory leaked|data race)[^\n]*\n(?:.*\n){0,12}", err):
        first = m.group(0).split("\n")[0]
        frame = re.search(r"-->\s*(/repo/[^\s:]+|[^\s:]*(?:bytecode|compiler)/src/[^\s:]+):(\d+)", m.group(0))
        reports.append({"error": first[:200], "at": (frame.group(1) if frame else "?")})
    return {"name": name, "rc": rc, "ran": "@@MIRI-HARNESS" in out, "reports": reports, "secs": round(time.time() - t0, 1),
            "stderr_tail": err[-300:] if (rc not in (0,) and not reports) else ""}


def samples_for(prop, n):
    """(name, source) single-file programs of the property's own deterministic catalogue."""
    try:
        if prop == "C07":
            from .engines import c07
            return [(a, b) for a, b in c07.CATALOGUE][:n]
        if prop == "C08":
            from .engines import c08
            return [(a, b) for a, b in c08.CATALOGUE][:n]
        if prop == "C13":
            from .engines import c13
            cat = c13.catalogue()
            step = max(1, len(cat) // n)
            return [(c["id"], c["source"]) for c in cat[::step]][:n]
        if prop == "C15":
            from .models import evalorder as eo
            out = []
            seed = 1
            n = min(n, 4)          # Miri needs minutes for the deep trees
            while len(out) < n and seed < 40 * n:
                g = eo.gen_random(seed, 3)
                seed += 1
                if g is None:
                    continue
                src, _ = eo.program(g["tree"], g["helpers"], g["context"], g["type"])
                out.append(("random_tree_%d" % (seed - 1), src))
            return out
    except Exception:
        pass
    # fall back to the repository's examples
    from . import corpus
    want = {"C07": "closures", "C08": "classes", "C13": "list", "C15": "math"}.get(prop, "")
    out = [(name, files[entry]) for name, files, entry in corpus.example_programs() if want in name and len(files) == 1]
    return out[:n]


def lane(prop, n=12):
    """Runs the lane; returns the evidence dict (never raises)."""
    t0 = time.time()
    try:
        crate = _crate_dir()
        lock = os.path.join(crate, "Cargo.lock")
        shutil.copy(os.path.join(core.REPO, "Cargo.lock"), lock)
        progs = samples_for(prop, n)
        if not progs:
            return {"tool": "miri", "status": "no single-file samples"}
        # build once (serial), then run in parallel
        first = _one((crate, progs[0][0], progs[0][1]))
        rest = core.pmap(_one, [(crate, a, b) for a, b in progs[1:]], procs=min(12, core.NPROC))
        results = [first] + [r for s, r in rest if s == "ok"]
        reports = {}
        for r in results:
            for rep in r["reports"]:
                key = rep["error"] + " @ " + rep["at"]
                reports.setdefault(key, []).append(r["name"])
        return {"tool": "cargo +nightly miri run (MIRIFLAGS=%s) on compiler::eval" % FLAGS, "programs": len(results),
                "programs_interpreted_to_completion": sum(1 for r in results if r["ran"]),
                "distinct_reports": [{"report": k, "programs": v[:5]} for k, v in sorted(reports.items())],
                "not_run": [r["name"] + ": " + r["stderr_tail"][-120:] for r in results if not r["ran"] and not r["reports"]][:5],
                "wall_s": round(time.time() - t0, 1), "verdict": "report-only (does not affect the property's verdict)"}
    except Exception as ex:      # the lane must never break a check
        return {"tool": "miri", "status": "lane failed: %r" % (ex,)}
