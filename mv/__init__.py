"""Runtime-monitoring framework for mrodz/mscript (see /verif/DESIGN.md)."""
