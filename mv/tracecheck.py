"""Offline checkers over the hook event logs (H-TRACE / H-DUMP, see DESIGN §1.1).

Trace records:  E <id> <depth> "<file#fn>"      activation entered (depth after its frame push)
                I <id> <ip> <opcode> <depth> <oplen>   before each instruction
                X <id> ret|fall|err|panic <depth>      activation left
                M hit|miss "<path>" ; L "<lib>" "<fn>" <n> "<arg>".. ; R "<result>"
Dump records:   F "<file>" "<fn>" <n>   then n x   i <opcode> "<arg>"...
"""
import json
import re

OPNAMES = ["nop", "while_loop", "stack_dump", "pop", "bin_op", "vec_op", "make_bool", "make_str", "make_bigint",
           "make_int", "make_float", "make_byte", "make_function", "make_object", "make_vector", "void",
           "breakpoint", "ret", "printn", "call", "call_object", "stack_size", "store", "store_object", "load",
           "load_fast", "if_stmt", "jmp", "equ", "arg", "mutate", "load_callback", "call_lib", "done", "else_stmt",
           "neg", "neq", "not", "call_self", "store_skip", "fast_rev2", "jmp_pop", "store_fast",
           "delete_name_scoped", "delete_name_reference_scoped", "ptr_mut", "assert", "reserve_primitive", "lookup",
           "ld_self", "export_name", "export_special", "load_self_export", "unwrap_into", "unwrap", "jmp_not_nil",
           "bin_op_assign", "ret_mod", "module_entry", "split_lookup_store", "make_map", "fast_map_insert", "map_op"]
OP = {n: i for i, n in enumerate(OPNAMES)}

JUMP_ARG = {OP["while_loop"]: 0, OP["if_stmt"]: 0, OP["jmp"]: 0, OP["jmp_pop"]: 0, OP["jmp_not_nil"]: 0,
            OP["store_skip"]: 2}
OPENERS = (OP["if_stmt"], OP["else_stmt"], OP["while_loop"])

# operand-stack shape each instruction requires (lower bound / exact), from its implementation
OPLEN_MIN = {OP["bin_op"]: 2, OP["equ"]: 2, OP["neq"]: 2, OP["fast_rev2"]: 2, OP["ptr_mut"]: 2, OP["if_stmt"]: 1,
             OP["while_loop"]: 1, OP["neg"]: 1, OP["not"]: 1, OP["unwrap"]: 1, OP["unwrap_into"]: 1,
             OP["jmp_not_nil"]: 1, OP["lookup"]: 1, OP["store"]: 1, OP["store_fast"]: 1, OP["store_object"]: 1,
             OP["store_skip"]: 1, OP["assert"]: 1, OP["bin_op_assign"]: 1, OP["mutate"]: 1, OP["call_object"]: 1,
             OP["pop"]: 0}
OPLEN_EXACT = {OP["store"]: 1, OP["store_fast"]: 1, OP["store_object"]: 1, OP["store_skip"]: 1, OP["assert"]: 1,
               OP["equ"]: 2, OP["neq"]: 2, OP["ret_mod"]: 0}
OPLEN_MAX = {OP["ret"]: 1}

_STR = re.compile(r'"((?:[^"\\]|\\.)*)"')

# The numeric opcodes in `I` / `i` records are those of the binary under test.  Its hook output starts with the
# binary's own table (`O <byte> "<name>"`); every reader maps the byte to the CANONICAL index used in this harness
# (position in OPNAMES) through the name, so that a renumbering of the opcodes changes nothing here.
EXTRA_NAMES = {}      # canonical index >= 1000 -> name of an opcode this harness has no entry for


def canon_op(name):
    if name in OP:
        return OP[name]
    import zlib
    idx = 1000 + zlib.crc32(name.encode()) % 100000
    EXTRA_NAMES[idx] = name
    return idx


def opname(opc):
    if 0 <= opc < len(OPNAMES):
        return OPNAMES[opc]
    return EXTRA_NAMES.get(opc, "op%d" % opc)


def o_record(line, omap):
    """`O <byte> "<name>"` -> omap[byte] = canonical index."""
    parts = line.split(" ", 2)
    try:
        omap[int(parts[1])] = canon_op(_unq(_STR.findall(parts[2])[0]))
    except (IndexError, ValueError):
        pass


_REAL = {}


def real_table():
    """name -> opcode byte of the binary under test (read once from the `O` records of its hook output)."""
    if not _REAL:
        from . import core
        _, _, ex = core.run_program({"main.ms": "x = 1\n"}, dump=True)
        for line in (ex.get("dump") or "").split("\n"):
            if line.startswith("O "):
                parts = line.split(" ", 2)
                try:
                    _REAL[_unq(_STR.findall(parts[2])[0])] = int(parts[1])
                except (IndexError, ValueError):
                    pass
        if not _REAL:
            raise core.Inconclusive("the hook output of the binary carries no opcode table (`O` records)")
    return _REAL


def real_byte(canon):
    return real_table()[opname(canon)]


def _unq(s):
    return json.loads('"' + s + '"')


def parse_dump(text):
    """{ 'file#fn': [(opcode, [args])] } ; the last definition of a function wins (as the loader does)."""
    fns = {}
    cur = None
    omap = {}
    for line in text.split("\n"):
        if not line:
            continue
        if line[0] == 'O':
            o_record(line, omap)
        elif line[0] == 'F':
            strs = _STR.findall(line)
            if len(strs) < 2:
                continue
            cur = []
            fns[_unq(strs[0]) + "#" + _unq(strs[1])] = cur
        elif line[0] == 'i' and cur is not None:
            parts = line.split(" ", 2)
            opcode = int(parts[1])
            opcode = omap.get(opcode, opcode)
            args = [_unq(a) for a in _STR.findall(parts[2])] if len(parts) > 2 else []
            cur.append((opcode, args))
    return fns


def static_depth(code):
    """Scope-frame depth of every *reachable* instruction, by data-flow over the control-flow graph of the
    function (both outcomes of every conditional jump are followed, executed or not).  Effects: `if_stmt` /
    `while_loop` open a frame on the fall-through edge only, `else_stmt` opens one, `done` closes one,
    `jmp_pop off n` closes n on its jump edge, `ret`/`ret_mod` leave the function (any frames still open are
    discarded by the interpreter's pop_until_function, which is how a `return` closes them).
    Returns (depths, problems); depths[i] is None for unreachable instructions."""
    n = len(code)
    depths = [None] * n
    problems = []
    seen_problem = set()

    def bad(msg):
        if msg not in seen_problem and len(problems) < 6:
            seen_problem.add(msg)
            problems.append(msg)

    work = [(0, 0)] if n else []
    while work:
        ip, d = work.pop()
        if ip == n:
            # falling off the end: Function::run pops exactly one frame (the function's own)
            if d != 0:
                bad("a path falls off the end of the function with %d scope(s) still open" % d)
            continue
        if ip < 0 or ip > n:
            continue          # reported by jump_targets
        if d < 0:
            bad("a path closes more scopes than it opened before instruction %d" % ip)
            continue
        if depths[ip] is not None:
            if depths[ip] != d:
                bad("instruction %d (%s) is reached with %d and with %d open scope(s)" % (ip, opname(code[ip][0]), depths[ip], d))
            continue
        depths[ip] = d
        opc, args = code[ip]
        if opc in (OP["ret"], OP["ret_mod"]):
            continue
        off = None
        if opc in JUMP_ARG:
            try:
                off = int(args[JUMP_ARG[opc]])
            except (IndexError, ValueError):
                bad("%s at %d lacks a numeric offset" % (opname(opc), ip))
        if opc in (OP["if_stmt"], OP["while_loop"]):
            work.append((ip + 1, d + 1))
            if off is not None:
                work.append((ip + off, d))
        elif opc == OP["else_stmt"]:
            work.append((ip + 1, d + 1))
        elif opc == OP["done"]:
            if d - 1 < 0:
                bad("`done` at %d closes a scope that is not open on some path" % ip)
            else:
                work.append((ip + 1, d - 1))
        elif opc == OP["jmp"]:
            if off is not None:
                work.append((ip + off, d))
        elif opc == OP["jmp_pop"]:
            k = 1
            if len(args) > 1:
                try:
                    k = int(args[1])
                except ValueError:
                    k = 1
            if off is not None:
                if d - k < 0:
                    bad("jmp_pop at %d pops %d scope(s) with %d open on some path" % (ip, k, d))
                else:
                    work.append((ip + off, d - k))
        elif opc in (OP["jmp_not_nil"], OP["store_skip"]):
            work.append((ip + 1, d))
            if off is not None:
                work.append((ip + off, d))
        else:
            work.append((ip + 1, d))
    return depths, problems


def jump_targets(code):
    """Static jump well-formedness: every jump lands inside the function."""
    problems = []
    n = len(code)
    for ip, (opc, args) in enumerate(code):
        if opc in JUMP_ARG:
            try:
                off = int(args[JUMP_ARG[opc]])
            except (IndexError, ValueError):
                problems.append("%s at %d lacks a numeric offset" % (opname(opc), ip))
                continue
            tgt = ip + off
            # a forward jump may land exactly on the end only when the interpreter would then fall off the
            # function; Function::run rejects new_val >= len, so this is malformed too.
            if not (0 <= tgt < n):
                problems.append("%s at %d jumps to %d outside 0..%d" % (opname(opc), ip, tgt, n - 1))
    return problems


class Act:
    __slots__ = ("id", "name", "entry", "shadow", "code", "sdepth", "last", "heads", "caller_depth", "n")

    def __init__(self, aid, name, entry, code, sdepth, caller_depth):
        self.id, self.name, self.entry, self.code, self.sdepth = aid, name, entry, code, sdepth
        self.shadow = 0
        self.last = None          # (ip, opcode) of the previous instruction of this activation
        self.heads = {}
        self.caller_depth = caller_depth
        self.n = 0


def check_trace(trace_text, dump_fns=None, normal_exit=True, max_problems=5):
    """Replays the event log against a shadow scope stack and the static nesting of the dumped code.
    Returns (problems, stats).  problems: list of (class, detail)."""
    problems = []
    stats = {"events": 0, "instructions": 0, "activations": 0, "jumps_checked": 0, "loop_head_visits": 0,
             "states": set(), "max_depth": 0, "call_returns_checked": 0, "static_checked": 0, "opcodes": set(),
             "truncated": False, "modules": [], "ffi": []}
    static_cache = {}
    ret_seen = {}  # function -> {operand count at an executed `ret`: ip}
    stack = []     # active activations
    unwinding = False
    final_depth = None

    def bad(cls, detail):
        if len(problems) < max_problems:
            problems.append((cls, detail))

    lines = trace_text.split("\n")
    if lines and lines[-1] != "":
        stats["truncated"] = True       # last record incomplete (process died mid-write)
        lines = lines[:-1]
    omap = {}
    for line in lines:
        if not line:
            continue
        t = line[0]
        if t == 'O':
            o_record(line, omap)
            continue
        stats["events"] += 1
        if t == 'I':
            try:
                _, aid, ip, opc, depth, oplen = line.split(" ")
                aid, ip, opc, depth, oplen = int(aid), int(ip), int(opc), int(depth), int(oplen)
            except ValueError:
                stats["truncated"] = True
                continue
            opc = omap.get(opc, opc)
            stats["instructions"] += 1
            if unwinding:
                continue
            if not stack or stack[-1].id != aid:
                bad("interleave", "instruction of activation %d while %s is on top" % (aid, stack[-1].id if stack else None))
                continue
            a = stack[-1]
            a.n += 1
            stats["opcodes"].add(opc)
            # -- resolve the effect of the previous instruction now that the successor is known
            if a.last is not None:
                lip, lop = a.last
                allowed = {lip + 1}
                if a.code is not None and lop in JUMP_ARG and lip < len(a.code):
                    try:
                        allowed.add(lip + int(a.code[lip][1][JUMP_ARG[lop]]))
                    except (IndexError, ValueError):
                        pass
                    stats["jumps_checked"] += 1
                    if ip not in allowed:
                        bad("jump", "%s: after %s at %d execution continued at %d (allowed %s)" % (
                            a.name, opname(lop), lip, ip, sorted(allowed)))
                elif a.code is not None and ip != lip + 1:
                    bad("jump", "%s: after %s at %d execution continued at %d" % (a.name, opname(lop), lip, ip))
                if lop in (OP["if_stmt"], OP["while_loop"]):
                    if ip == lip + 1:
                        a.shadow += 1
                elif lop == OP["else_stmt"]:
                    a.shadow += 1
                elif lop == OP["done"]:
                    if a.shadow <= 0:
                        bad("close_unopened", "%s: `done` at %d closes a scope that is not open" % (a.name, lip))
                    else:
                        a.shadow -= 1
                elif lop == OP["jmp_pop"]:
                    n = 1
                    if a.code is not None and lip < len(a.code) and len(a.code[lip][1]) > 1:
                        try:
                            n = int(a.code[lip][1][1])
                        except ValueError:
                            n = 1
                    if a.shadow < n:
                        bad("close_unopened", "%s: jmp_pop at %d pops %d scopes, %d open" % (a.name, lip, n, a.shadow))
                        a.shadow = 0
                    else:
                        a.shadow -= n
            # -- invariants at this instruction
            if a.code is not None:
                if not (0 <= ip < len(a.code)):
                    bad("ip_range", "%s: instruction index %d outside 0..%d" % (a.name, ip, len(a.code) - 1))
                elif a.code[ip][0] != opc:
                    bad("dump_mismatch", "%s: trace opcode %d at %d, dump has %d" % (a.name, opc, ip, a.code[ip][0]))
                elif a.sdepth is not None and a.sdepth[ip] is None:
                    bad("static_unreachable", "%s: instruction %d (%s) executed although no path of the control-flow graph reaches it" % (a.name, ip, opname(opc)))
                elif a.sdepth is not None:
                    stats["static_checked"] += 1
                    if depth - a.entry != a.sdepth[ip]:
                        bad("static_depth", "%s: %d scope frame(s) open at instruction %d (%s), every static path reaches it with %d" % (
                            a.name, depth - a.entry, ip, opname(opc), a.sdepth[ip]))
            if depth != a.entry + a.shadow:
                bad("shadow_depth", "%s: frame depth %d at instruction %d (%s), shadow scope stack says %d" % (
                    a.name, depth, ip, opname(opc), a.entry + a.shadow))
                a.shadow = depth - a.entry        # resynchronise: report once
            if opc == OP["while_loop"]:
                stats["loop_head_visits"] += 1
                prev = a.heads.get(ip)
                if prev is None:
                    a.heads[ip] = depth
                elif prev != depth:
                    bad("loop_accumulates", "%s: loop head %d visited at depth %d and %d" % (a.name, ip, prev, depth))
            mn = OPLEN_MIN.get(opc)
            if mn is not None and oplen < mn:
                bad("operand_shape", "%s: %s at %d with %d operand(s), needs >= %d" % (a.name, opname(opc), ip, oplen, mn))
            ex = OPLEN_EXACT.get(opc)
            if ex is not None and oplen != ex:
                bad("operand_shape", "%s: %s at %d with %d operand(s), needs exactly %d" % (a.name, opname(opc), ip, oplen, ex))
            mx = OPLEN_MAX.get(opc)
            if mx is not None and oplen > mx:
                bad("operand_shape", "%s: %s at %d with %d operand(s), allows <= %d" % (a.name, opname(opc), ip, oplen, mx))
            if opc == OP["ret"]:
                # a function hands back a value from every `return` or from none (void): a `ret` that finds no
                # operand in a function whose other returns carry one was reached by a wrong jump
                rs = ret_seen.setdefault(a.name, {})
                if oplen not in rs:
                    rs[oplen] = ip
                    if len(rs) == 2:
                        (o1, i1), (o2, i2) = sorted(rs.items())
                        bad("ret_shape", "%s: `ret` at %d executed with %d operand(s) and `ret` at %d with %d: the "
                            "function returns a value on some paths only" % (a.name, i1, o1, i2, o2))
            stats["states"].add((opc, depth - a.entry))
            if depth > stats["max_depth"]:
                stats["max_depth"] = depth
            a.last = (ip, opc)
        elif t == 'E':
            m = re.match(r'E (\d+) (-?\d+) "((?:[^"\\]|\\.)*)"$', line)
            if not m:
                stats["truncated"] = True
                continue
            aid, depth, name = int(m.group(1)), int(m.group(2)), _unq(m.group(3))
            stats["activations"] += 1
            code = sdepth = None
            if dump_fns is not None:
                code = dump_fns.get(name)
                if code is not None:
                    if name not in static_cache:
                        sd, probs = static_depth(code)
                        for p in probs:
                            bad("static_shape", "%s: %s" % (name, p))
                        for p in jump_targets(code):
                            bad("jump_target", "%s: %s" % (name, p))
                        static_cache[name] = sd
                    sdepth = static_cache[name]
            caller_depth = None
            if stack and not unwinding:
                c = stack[-1]
                caller_depth = c.entry + c.shadow
                if depth != caller_depth + 1:
                    bad("call_depth", "%s entered at depth %d from %s whose depth was %d" % (name, depth, c.name, caller_depth))
            elif not stack and depth != 1:
                bad("call_depth", "first activation %s entered at depth %d" % (name, depth))
            stack.append(Act(aid, name, depth, code, sdepth, caller_depth))
        elif t == 'X':
            parts = line.split(" ")
            if len(parts) != 4:
                stats["truncated"] = True
                continue
            aid, how, depth = int(parts[1]), parts[2], int(parts[3])
            if not stack or stack[-1].id != aid:
                if not unwinding:
                    bad("interleave", "exit of activation %d while %s is on top" % (aid, stack[-1].id if stack else None))
                while stack and stack[-1].id != aid:
                    stack.pop()
            a = stack.pop() if stack else None
            if how in ("err", "panic"):
                unwinding = True
                continue
            if unwinding or a is None:
                continue
            if how == "fall":
                if a.shadow != 0:
                    bad("leave_open", "%s falls off its end with %d scope frame(s) open" % (a.name, a.shadow))
            if depth != a.entry - 1:
                bad("return_depth", "%s (%s) left the call stack at depth %d, entered at %d" % (a.name, how, depth, a.entry))
            elif a.caller_depth is not None:
                stats["call_returns_checked"] += 1
            if not stack:
                final_depth = depth
        elif t == 'M':
            m = re.match(r'M (hit|miss) "((?:[^"\\]|\\.)*)"$', line)
            if m:
                stats["modules"].append((m.group(1), _unq(m.group(2))))
        elif t == 'L':
            strs = [_unq(s) for s in _STR.findall(line)]
            stats["ffi"].append(("L", strs))
        elif t == 'R':
            strs = [_unq(s) for s in _STR.findall(line)]
            stats["ffi"].append(("R", strs))
    if normal_exit and not unwinding and not stats["truncated"]:
        if stack:
            bad("unfinished", "%d activation(s) never exited although the program ended normally" % len(stack))
        elif final_depth not in (None, 0):
            bad("final_depth", "program ended normally with %d frame(s) on the call stack" % final_depth)
    return problems, stats


def active_stack_at_error(trace_text):
    """Function names (innermost first) of the activations that were active when the first err/panic exit
    happened — the shadow call stack for C17."""
    stack = []
    for line in trace_text.split("\n"):
        if not line:
            continue
        if line[0] == 'E':
            m = re.match(r'E (\d+) (-?\d+) "((?:[^"\\]|\\.)*)"$', line)
            if m:
                stack.append((int(m.group(1)), _unq(m.group(3))))
        elif line[0] == 'X':
            parts = line.split(" ")
            if len(parts) == 4:
                if parts[2] in ("err", "panic"):
                    return [n for _, n in reversed(stack)]
                aid = int(parts[1])
                while stack and stack[-1][0] != aid:
                    stack.pop()
                if stack:
                    stack.pop()
    return None
