"""Build of the C19 probe library (/verif/ffi_probe, a `cdylib` linked against /repo/bytecode).

The probe is rebuilt on every run against the *current working tree* of the repository (cargo's own
freshness check makes a warm build ≈ 0.3 s).  Host and probe must be produced by the same rustc with
the same RUSTFLAGS: the FFI boundary of mscript passes Rust types (`&[Primitive]`, `ReturnValue`)
whose layout is only defined per compiler invocation flags."""
import os
import shutil
import subprocess
import time

from . import core

CRATE = os.path.join(core.VERIF, "ffi_probe")
TARGET = os.path.join(core.WORK, "target_probe")
LIB = os.path.join(TARGET, "debug", "libffi_probe.so")

FUNCTIONS = ["echo_first", "echo_last", "const_int", "const_bigint", "const_float", "const_byte", "const_bool",
             "const_str", "no_value", "raise"]


def _crate_dir():
    """The crate to build.  With MSCRIPT_REPO overridden (scratch mutation runs) a copy of the crate whose
    `bytecode` dependency points at that tree is kept under the work directory."""
    if os.path.realpath(core.REPO) == "/repo":
        return CRATE
    d = os.path.join(core.WORK, "ffi_probe_src")
    os.makedirs(os.path.join(d, "src"), exist_ok=True)
    with open(os.path.join(CRATE, "Cargo.toml")) as f:
        toml = f.read().replace('path = "/repo/bytecode"', 'path = "%s/bytecode"' % os.path.realpath(core.REPO))
    _write_if_changed(os.path.join(d, "Cargo.toml"), toml)
    with open(os.path.join(CRATE, "src", "lib.rs")) as f:
        _write_if_changed(os.path.join(d, "src", "lib.rs"), f.read())
    return d


def _write_if_changed(path, text):
    try:
        with open(path) as f:
            if f.read() == text:
                return
    except OSError:
        pass
    with open(path, "w") as f:
        f.write(text)


def _cargo(crate):
    env = core.cargo_env()
    env["CARGO_TARGET_DIR"] = TARGET
    return subprocess.run(["cargo", "build", "--offline"], cwd=crate, env=env, stdout=subprocess.PIPE,
                          stderr=subprocess.STDOUT, text=True)


def build_probe(quiet=True):
    """Build the probe against the repository's working tree; returns the path of the shared object."""
    os.makedirs(core.WORK, exist_ok=True)
    crate = _crate_dir()
    lock = os.path.join(crate, "Cargo.lock")
    repo_lock = os.path.join(core.REPO, "Cargo.lock")
    if not os.path.exists(lock) and os.path.exists(repo_lock):
        shutil.copyfile(repo_lock, lock)          # pins the registry versions: resolves offline
    t0 = time.time()
    p = _cargo(crate)
    if p.returncode != 0 and os.path.exists(repo_lock):
        shutil.copyfile(repo_lock, lock)          # the repository's lock file may have moved on
        p = _cargo(crate)
    if p.returncode != 0 or not os.path.exists(LIB):
        tail = "\n".join(p.stdout.splitlines()[-40:])
        raise core.Inconclusive("cargo build of the FFI probe failed (exit %d):\n%s" % (p.returncode, tail))
    if not quiet:
        print("ffi probe ok in %.1fs: %s" % (time.time() - t0, LIB))
    return LIB
