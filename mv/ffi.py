"""Build of the C19 probe library (/verif/ffi_probe, a `cdylib` linked against /repo/bytecode).

The probe is rebuilt on every run against the *current working tree* of the repository (cargo's own
freshness check makes a warm build ≈ 0.3 s).  Host and probe must be produced by the same rustc with
the same RUSTFLAGS: the FFI boundary of mscript passes Rust types (`&[Primitive]`, `ReturnValue`)
whose layout is only defined per compiler invocation flags."""
import os
import shutil
import subprocess
import time

from . import core

CRATE = os.path.join(core.VERIF, "ffi_probe")
TARGET = os.path.join(core.WORK, "target_probe")
LIB = os.path.join(TARGET, "debug", "libffi_probe.so")

FUNCTIONS = ["echo_first", "echo_last", "const_int", "const_bigint", "const_float", "const_byte", "const_bool",
             "const_str", "no_value", "raise"]


def _crate_dir():
    """The crate to build.  With MSCRIPT_REPO overridden (scratch mutation runs) a copy of the crate whose
    `bytecode` dependency points at that tree is kept under the work directory."""
    if os.path.realpath(core.REPO) == "/repo":
        return CRATE
    d = os.path.join(core.WORK, "ffi_probe_src")
    os.makedirs(os.path.join(d, "src"), exist_ok=True)
    with open(os.path.join(CRATE, "Cargo.toml")) as f:
        toml = f.read().replace('path = "/repo/bytecode"', 'path = "%s/bytecode"' % os.path.realpath(core.REPO))
    _write_if_changed(os.path.join(d, "Cargo.toml"), toml)
    with open(os.path.join(CRATE, "src", "lib.rs")) as f:
        _write_if_changed(os.path.join(d, "src", "lib.rs"), f.read())
    return d


def _write_if_changed(path, text):
    try:
        with open(path) as f:
            if f.read() == text:
                return
    except OSError:
        pass
    with open(path, "w") as f:
        f.write(text)


def _cargo(crate, target=None, features=None):
    env = core.cargo_env()
    env["CARGO_TARGET_DIR"] = target or TARGET
    argv = ["cargo", "build", "--offline"] + (["--features", features] if features else [])
    return subprocess.run(argv, cwd=crate, env=env, stdout=subprocess.PIPE, stderr=subprocess.STDOUT, text=True)


def build_probe(quiet=True):
    """Build the probe against the repository's working tree; returns the path of the shared object."""
    os.makedirs(core.WORK, exist_ok=True)
    crate = _crate_dir()
    lock = os.path.join(crate, "Cargo.lock")
    repo_lock = os.path.join(core.REPO, "Cargo.lock")
    if not os.path.exists(lock) and os.path.exists(repo_lock):
        shutil.copyfile(repo_lock, lock)          # pins the registry versions: resolves offline
    t0 = time.time()
    p = _cargo(crate)
    if p.returncode != 0 and os.path.exists(repo_lock):
        shutil.copyfile(repo_lock, lock)          # the repository's lock file may have moved on
        p = _cargo(crate)
    if p.returncode != 0 or not os.path.exists(LIB):
        tail = "\n".join(p.stdout.splitlines()[-40:])
        raise core.Inconclusive("cargo build of the FFI probe failed (exit %d):\n%s" % (p.returncode, tail))
    if not quiet:
        print("ffi probe ok in %.1fs: %s" % (time.time() - t0, LIB))
    return LIB


# ----------------------------------------------------------------------------- tagged builds, library layout

VARIANTS = {"A": None, "B": "variant_b", "C": "variant_c"}
ONLY = {"only_in_a": "A", "only_in_b": "B"}          # symbols that exist in one build only


def _variant_target(v):
    return TARGET if v == "A" else TARGET + "_" + v.lower()


def build_variants(quiet=True):
    """Builds the plain probe (A) and the tagged builds B and C (cargo features `variant_b` / `variant_c`, one
    target directory each so that warm builds are no-ops; B and C are built concurrently).
    Returns {variant: path of the shared object}."""
    import threading
    libs = {"A": build_probe(quiet)}
    crate = _crate_dir()
    results = {}

    def one(v):
        results[v] = _cargo(crate, _variant_target(v), VARIANTS[v])
    threads = [threading.Thread(target=one, args=(v,)) for v in ("B", "C")]
    t0 = time.time()
    for t in threads:
        t.start()
    for t in threads:
        t.join()
    for v in ("B", "C"):
        p = results[v]
        so = os.path.join(_variant_target(v), "debug", "libffi_probe.so")
        if p.returncode != 0 or not os.path.exists(so):
            raise core.Inconclusive("cargo build of the FFI probe variant %s failed (exit %d):\n%s" % (
                v, p.returncode, "\n".join(p.stdout.splitlines()[-30:])))
        libs[v] = so
    if not quiet:
        print("ffi probe variants ok in %.1fs" % (time.time() - t0))
    return libs


def install_layout(libs):
    """Installs the builds under <work>/ffi_libs: the SAME file name in different directories and different file
    names in the same directory, plus places where a file of that name is missing.
    Returns {key: (path, variant or None)}."""
    root = os.path.join(core.WORK, "ffi_libs")
    shutil.rmtree(root, ignore_errors=True)
    layout = {"a/plugin": ("a/libplugin.so", "A"), "b/plugin": ("b/libplugin.so", "B"), "c/plugin": ("c/libplugin.so", "C"),
              "same/one": ("same/libone.so", "A"), "same/two": ("same/libtwo.so", "B"), "same/three": ("same/libthree.so", "C"),
              "deep/a/plugin": ("deep/x/y/libplugin.so", "C")}
    out = {}
    for key, (rel, v) in layout.items():
        path = os.path.join(root, rel)
        os.makedirs(os.path.dirname(path), exist_ok=True)
        shutil.copyfile(libs[v], path)
        out[key] = (path, v)
    os.makedirs(os.path.join(root, "empty"), exist_ok=True)
    out["empty/plugin"] = (os.path.join(root, "empty", "libplugin.so"), None)        # directory exists, file does not
    out["nodir/plugin"] = (os.path.join(root, "no", "such", "dir", "libplugin.so"), None)
    out["same/missing"] = (os.path.join(root, "same", "libfour.so"), None)
    # a library named WITHOUT a directory: the dynamic loader finds it on its search path (the checks run the
    # interpreter with LD_LIBRARY_PATH=<root>/search); a bare name that is nowhere on the path is a missing library
    os.makedirs(os.path.join(root, "search"), exist_ok=True)
    shutil.copyfile(libs["B"], os.path.join(root, "search", "libsearchonly.so"))
    out["search/bare"] = ("libsearchonly.so", "B")
    out["search/bare_missing"] = ("libnowhere_on_the_search_path.so", None)
    # a library in the working directory of the run, named `./libcwd.so` (every case directory gets a link to build B)
    out["cwd/dot"] = ("./libcwd.so", "B")
    out["cwd/dot_missing"] = ("./libcwd_missing.so", None)
    return out


def cwd_source():
    return os.path.join(core.WORK, "ffi_libs", "search", "libsearchonly.so")


def search_dir():
    return os.path.join(core.WORK, "ffi_libs", "search")
