"""The repository's own programs: examples/**/*.ms and the programs embedded in compiler/src/tests/*.rs."""
import glob
import os
import re

from . import core

_EVAL = re.compile(r'eval\(\s*r#"(.*?)"#', re.S)
_ENV = re.compile(r'EvalEnvironment::entrypoint\((.*?)\.run\(\)', re.S)
_FILE = re.compile(r'"([^"]+\.ms)"\s*,\s*r#"(.*?)"#', re.S)


def test_programs():
    """[(name, {file: text}, entry)]"""
    out = []
    for path in sorted(glob.glob(os.path.join(core.REPO, "compiler/src/tests/*.rs"))):
        text = open(path, encoding="utf-8").read()
        base = os.path.basename(path)[:-3]
        for i, m in enumerate(_EVAL.finditer(text)):
            out.append(("test:%s:%d" % (base, i), {"main.ms": m.group(1)}, "main.ms"))
        for i, m in enumerate(_ENV.finditer(text)):
            files = _FILE.findall(m.group(1))
            if files:
                out.append(("testenv:%s:%d" % (base, i), {n: t for n, t in files}, files[0][0]))
    return out


def example_programs():
    """Every examples/<dir>: one case per .ms file of the directory as entry, whole directory copied."""
    out = []
    root = os.path.join(core.REPO, "examples")
    for d in sorted(os.listdir(root)):
        dp = os.path.join(root, d)
        if not os.path.isdir(dp):
            continue
        files = {}
        for dirpath, _, names in os.walk(dp):
            for n in names:
                if n.endswith(".ms"):
                    p = os.path.join(dirpath, n)
                    try:
                        files[os.path.relpath(p, dp)] = open(p, encoding="utf-8").read()
                    except (OSError, UnicodeDecodeError):
                        pass
        for entry in sorted(files):
            out.append(("example:%s/%s" % (d, entry), files, entry))
    return out


def all_programs():
    return example_programs() + test_programs()
