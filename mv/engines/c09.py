"""C09 — compiled code is structurally well-formed on every control-flow path.

Monitor: H-TRACE + H-DUMP event logs of the real interpreter; oracle: mv/tracecheck.py (shadow scope
stack + static nesting cross-check + jump / operand-shape invariants).  All branch outcomes are reached
by making them taken: every driver outcome vector of every skeleton is a concrete execution."""
import json
import os
import random

from .. import core, cf, corpus, tracecheck

INTERNAL_OK = ("defined", "panic_defined", "stack", "compile", "timeout")


def run_traced(files, entry, expect_ok=None, cpu=10):
    r, _, ex = core.run_program(files, entry=entry, cpu=cpu, trace=True, dump=True)
    return r, ex.get("trace"), ex.get("dump")


def check_one(files, entry, cpu=10):
    """Returns dict(problems=[(cls, detail)], stats, run) or dict(skip=...)."""
    r, trace, dump = run_traced(files, entry, cpu=cpu)
    if r.cls in ("wall_timeout", "spawn_error"):
        return {"inconclusive": r.cls}
    if core.compile_rejected(r):
        return {"skip": "rejected"}
    if trace is None or dump is None:
        if r.cls == "ok" or core.BANNER in r.err:
            return {"inconclusive": "hook log missing (trace=%s dump=%s)" % (trace is not None, dump is not None)}
        return {"skip": "no execution (%s)" % r.cls}
    fns = tracecheck.parse_dump(dump)
    problems, stats = tracecheck.check_trace(trace, fns, normal_exit=(r.cls == "ok"))
    # static well-formedness of every loaded function, executed or not
    for name, code in fns.items():
        _, probs = tracecheck.static_depth(code)
        for p in probs:
            problems.append(("static_shape", "%s: %s" % (name, p)))
        for p in tracecheck.jump_targets(code):
            problems.append(("jump_target", "%s: %s" % (name, p)))
    stats["functions_loaded"] = len(fns)
    if core.MISMATCH in r.err:
        problems.append(("stack_mismatch", "interpreter reported STACK MISMATCH at exit"))
    if r.cls not in ("ok",):
        cls = core.classify_failure(r)
        if cls[0] == "internal":
            problems.append(("internal_error", cls[1]))
    return {"problems": problems[:6], "stats": stats, "run": r.brief(), "cls": r.cls}


def work(item):
    kind, arg, max_dec, max_paths, salt = item
    res = {"kind": kind, "runs": 0, "problems": [], "inconclusive": [], "skipped": 0, "agg": None, "shape": None,
           "sample": None}
    agg = {"events": 0, "instructions": 0, "activations": 0, "jumps_checked": 0, "loop_head_visits": 0,
           "call_returns_checked": 0, "static_checked": 0, "functions_loaded": 0, "max_depth": 0}
    states, opcodes = set(), set()

    def absorb(out, files, tag):
        if "inconclusive" in out:
            res["inconclusive"].append("%s: %s" % (tag, out["inconclusive"]))
            return
        if "skip" in out:
            res["skipped"] += 1
            return
        res["runs"] += 1
        st = out["stats"]
        for k in agg:
            if k == "max_depth":
                agg[k] = max(agg[k], st[k])
            else:
                agg[k] += st.get(k, 0)
        states.update(st["states"])
        opcodes.update(st["opcodes"])
        for cls, detail in out["problems"]:
            res["problems"].append({"class": cls, "detail": detail, "files": files, "tag": tag, "run": out["run"]})

    if kind == "corpus":
        name, files, entry = arg
        res["shape"] = [name]
        # long-running examples would produce enormous traces: measure first
        r0, _, _ = core.run_program(files, entry=entry, cpu=5)
        if r0.cpu > 0.4 or r0.cls in ("cpu_timeout", "wall_timeout"):
            res["skipped"] += 1
        else:
            absorb(check_one(files, entry), files, name)
    else:
        if kind == "rand":
            prog, uses_take, shape = cf.gen_program(arg, max_depth=4, max_stmts=60)
        else:
            prog, uses_take, shape = arg
        res["shape"] = shape
        paths, dropped = cf.enumerate_paths(prog, uses_take, max_dec, max_runs=2500)
        if len(paths) > max_paths:
            rng = random.Random(core.h([salt, shape]))
            paths.sort(key=lambda p: (len(p[0]), p[0]))
            paths = paths[:2] + paths[-2:] + rng.sample(paths[2:-2], max_paths - 4)
        for dec, st, lines, fk, stats in paths:
            src = cf.render(prog, dec, uses_take)
            files = {"main.ms": src}
            out = check_one(files, "main.ms")
            absorb(out, files, "/".join(shape[:6]) + " decisions=%s" % (list(dec),))
            if res["sample"] is None and "stats" in out and out["stats"]["loop_head_visits"] > 1 and len(src) < 1200:
                res["sample"] = {"source": src, "decisions": list(dec), "instructions_checked": out["stats"]["instructions"],
                                 "loop_head_visits": out["stats"]["loop_head_visits"]}
            if len(res["problems"]) >= 3:
                break
    agg["states"] = sorted(states)
    agg["opcodes"] = sorted(opcodes)
    res["agg"] = agg
    return res


def signature(res, prob):
    shape = res["shape"] or ["?"]
    if res["kind"] == "sys":
        return "C09:%s:%s" % ("/".join(shape), prob["class"])
    if res["kind"] == "corpus":
        return "C09:%s:%s" % (shape[0], prob["class"])
    return "C09:random:%s" % prob["class"]


def run(ctx):
    out = core.Outcome()
    max_dec = ctx.n(7, 10)
    items = []
    sysprogs = cf.systematic_programs(2 if ctx.quick else 3)
    for p in sysprogs:
        items.append(("sys", p, max_dec, ctx.n(8, 30), ctx.seed))
    base = ctx.seed * 1000003 + 17
    for i in range(ctx.n(800, 8000)):
        items.append(("rand", base + i, max_dec, ctx.n(5, 12), ctx.seed))
    for prog in corpus.all_programs():
        items.append(("corpus", prog, 0, 0, ctx.seed))
    results = core.pmap(work, items, chunksize=2)
    tot = {"events": 0, "instructions": 0, "activations": 0, "jumps_checked": 0, "loop_head_visits": 0,
           "call_returns_checked": 0, "static_checked": 0, "functions_loaded": 0, "max_depth": 0}
    states, opcodes = set(), set()
    skipped = 0
    corpus_runs = 0
    for status, res in results:
        if status != "ok":
            out.inconclusive.append(str(res)[-500:])
            continue
        out.evaluations += res["runs"]
        skipped += res["skipped"]
        out.inconclusive.extend(res["inconclusive"])
        if res["kind"] == "corpus":
            corpus_runs += res["runs"]
        a = res["agg"]
        for k in tot:
            if k == "max_depth":
                tot[k] = max(tot[k], a[k])
            else:
                tot[k] += a[k]
        states.update(tuple(s) for s in a["states"])
        opcodes.update(a["opcodes"])
        if res["runs"] and a["loop_head_visits"] > 0:
            out.distinct.add(core.h(res["shape"]))
        if res["sample"] and len(out.samples) < 3:
            out.samples.append(res["sample"])
        for prob in res["problems"]:
            out.violations.append(core.Violation(signature(res, prob), "%s: %s" % (prob["class"], prob["detail"]),
                                                 {"files": prob["files"], "class": prob["class"], "detail": prob["detail"],
                                                  "case": prob["tag"], "run": prob["run"]}))
    out.coverage.update(tot)
    out.coverage.update({"distinct_opcode_x_scope_depth_states": len(states),
                         "distinct_opcodes_executed": [tracecheck.opname(o) for o in sorted(opcodes)],
                         "corpus_programs_traced": corpus_runs, "programs_skipped(rejected/long-running)": skipped})
    out.rule = ("traced executions of: systematic skeletons (constructs nested 2%s levels x break/continue/return, "
                "from-loop matrix) and seeded random programs (depth<=4), each once per driver outcome vector (<=%d "
                "decisions), plus the example corpus and the programs embedded in the test sources. Every I/E/X event "
                "is checked against the shadow scope stack, the static nesting of the dumped code, jump offsets and "
                "operand-shape preconditions. Distinct non-trivial = distinct program shape with >=1 loop-head visit."
                % ("-3" if not ctx.quick else "", max_dec))
    out.assumptions = ["paths whose reachability depends on data the driver does not control (corpus programs) are covered "
                       "only as far as they execute", "the hook logs are faithful (hooks are additive observation code)"]
    if tot["instructions"] == 0:
        out.observed_nothing = "the trace hook produced no instruction events"
    return out


def replay(path):
    with open(os.path.join(path, "case.json")) as f:
        case = json.load(f)
    files = {}
    root = os.path.join(path, "files")
    for dirpath, _, names in os.walk(root):
        for n in names:
            p = os.path.join(dirpath, n)
            files[os.path.relpath(p, root)] = open(p).read()
    entry = "main.ms" if "main.ms" in files else sorted(files)[0]
    out = check_one(files, entry)
    print(json.dumps({k: v for k, v in out.items() if k != "stats"}, indent=1, default=str))
    return 1 if out.get("problems") else 0
