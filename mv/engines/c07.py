"""C07 — closures capture variables by reference; `modify` writes through.

Workload: a deterministic catalogue of hand-shaped worlds (stable case ids) + seeded random worlds/histories
(mv/models/closures.py).  Oracle: the cell model (lexically scoped reference interpreter) predicts the exact
stdout lines of every program.  Programs whose model run meets the *known* dynamic-name-search defect
(a frame on the call stack holds a same-named variable that is not the captured one) are discarded by the random
part (avoidance rule `caller_local_shadow`); the catalogue pins that defect with two cases."""
import json
import os

from .. import core
from ..models import closures as M

MUTATION = os.environ.get("VERIF_MODEL_MUTATION") or None     # validation of the oracle only (see notes)

# avoidance rule of the random generator -> signature of the catalogue case that pins the defect.  A rule is in
# force only while its finding is listed in known_findings.json: once the defect is repaired in /repo (and the entry
# removed) the generator exercises the construct again.
PINS = {
    "opassign_escaped": "C07:opassign_captured_after_owner_returned:internal_error",
    "dotcall_arg": "C07:captured_only_as_method_call_argument:internal_error",
    "reassign_target": "C07:captured_only_as_reassignment_target:internal_error",
    "modify_type_refinement": "C07:modify_str_changes_known_length:internal_error",
}
PINS_DYNAMIC_LOOKUP = ("C07:caller_local_shadows_captured_read:wrong_value",
                       "C07:caller_local_shadows_captured_opassign:wrong_value")


def dynamic_lookup_defect_listed():
    """The rule `caller_local_shadow` (discard histories in which the whole-stack name search would meet another
    cell than the lexical one) is in force only while that defect is a listed finding; once it is repaired in /repo
    and un-listed such histories are ordinary test cases."""
    listed = {f.get("signature") for f in core.load_findings().get("findings", [])}
    return any(p in listed for p in PINS_DYNAMIC_LOOKUP) or "caller_local_shadow" in os.environ.get("C07_AVOID", "")


# development / validation aid: C07_AVOID=all | rule,rule  behaves as if those pinned findings were listed
_force = os.environ.get("C07_AVOID", "")
FORCE_AVOID = set(PINS) if _force == "all" else set(x for x in _force.split(",") if x in PINS)

# ----------------------------------------------------------------------------- catalogue

CATALOGUE = [
    # third session (area round): a captured variable whose ONLY mention inside the function literal is an argument
    # of a later call of a method chain / the fallback of `(x) or y`
    ("captured_only_in_later_chain_call_argument", """
class Acc {
  v: int
  constructor(self) {
    self.v = 0
  }
  fn add(self, k: int) -> Self {
    self.v += k
    return self
  }
  fn value(self) -> int {
    return self.v
  }
}
second = 40
mk = fn() -> fn() -> int {
  first = 1
  second = 2
  third = 3
  return fn() -> int {
    a = Acc()
    return a.add(first).add(second).add(third).value()
  }
}
g = mk()
print g()
second = 41
print g()
"""),
    ("captured_only_in_or_fallback", """
mk = fn(fallback: int) -> fn(int?) -> int {
  return fn(x: int?) -> int {
    return (x) or fallback
  }
}
d = mk(7)
n: int? = nil
p: int? = 3
print d(p)
print d(n)
e = mk(9)
print e(n)
print d(n)
"""),
    ("captured_only_in_or_fallback_modified_later", """
mk = fn() -> [fn(int?) -> int, fn()] {
  fb = 1
  const r = [fn(x: int?) -> int {
    return (x) or fb
  }, fn() {
    modify fb = fb + 10
  }]
  return r
}
[rd, bump] = mk()
n: int? = nil
print rd(n)
bump()
print rd(n)
"""),
    ("reader_sees_owner_assignment", """
x = 5
f = fn() -> int {
  return x
}
print f()
x = 9
print f()
x = x + 1
print f()
"""),
    ("reader_sees_owner_opassign", """
x = 5
s = "a"
f = fn() -> str {
  return s + x
}
print f()
x += 2
s += "b"
print f()
x *= 3
print f()
"""),
    ("modify_visible_to_owner_and_other_closure", """
x = 1
inc = fn(d: int) -> int {
  modify x = x + d
  return x
}
rd = fn() -> int {
  return x * 10
}
print inc(2)
print x
print rd()
x = 100
print inc(1)
print rd()
print x
"""),
    ("plain_assign_creates_local", """
x = 17
sh = fn() -> int {
  x = 2
  return x
}
print sh()
print x
print sh()
print x
"""),
    ("plain_assign_after_read_creates_local", """
x = 1
sh = fn(d: int) -> int {
  t = x
  x = t + d
  return x * 100 + t
}
print sh(5)
print x
x = 3
print sh(5)
print x
"""),
    ("plain_assign_in_block_then_read_captured", """
x = 5
sh = fn(d: int) -> int {
  acc = 0
  tk = true
  if tk {
    x = d
    acc = x
  }
  return acc * 1000 + x
}
print sh(7)
print x
x = 6
print sh(8)
"""),
    ("shadow_with_other_type", """
x = 5
sh = fn(d: int) -> int {
  x = "s" + d
  return x.len()
}
print sh(77)
print x
"""),
    ("shadow_in_loop_body_each_iteration", """
x = 5
sh = fn(d: int) -> int {
  acc = 0
  k = 0
  while k < 3 {
    x = d + k
    acc = acc + x
    k = k + 1
  }
  return acc * 100 + x
}
print sh(1)
print x
"""),
    ("opassign_in_closure_writes_through_module_variable", """
x = 1
s = "a"
oa = fn(d: int) -> int {
  x += d
  s += "z"
  return x
}
print oa(4)
print x
print s
print oa(1)
print x
print s
"""),
    ("opassign_on_local_shadow_stays_local", """
x = 1
f = fn(d: int) -> int {
  x = 10
  x += d
  return x
}
print f(5)
print x
"""),
    ("shadow_local_then_modify_writes_captured_module_owner", """
level = 1
raise = fn() -> int {
  level = 10
  modify level = 20
  return level
}
print raise()
print level
plain = fn() -> int {
  modify level = level + 1
  return level
}
print plain()
print level
print raise()
print level
"""),
    ("shadow_local_then_modify_in_factory_step_idiom", """
make = fn() -> [fn() -> int...] {
  counter = 0
  bump = fn() -> int {
    counter = counter + 1
    modify counter = counter
    return counter
  }
  peek = fn() -> int {
    return counter
  }
  return [bump, peek]
}
fs = make()
bump = fs[0]
peek = fs[1]
print bump()
print peek()
print bump()
print bump()
print peek()
"""),
    ("modify_then_shadow_local_same_activation", """
x = 5
f = fn(d: int) -> int {
  modify x = x + d
  x = 100
  x += d
  return x
}
print f(2)
print x
print f(3)
print x
"""),
    ("shadow_in_block_then_modify_outside_block", """
x = 5
f = fn(d: int) -> int {
  t = true
  if t {
    x = d
    modify x = x * 3
  }
  modify x = x + 1
  return x
}
print f(2)
print x
print f(4)
print x
"""),
    ("closure_written_before_a_later_local_of_the_same_name", """
x = 0
f = fn() -> int {
  g = fn() -> int {
    x += 1
    return x
  }
  x = 7
  return g() * 100 + x
}
h = fn() -> int {
  x = 100
  r = f()
  print r
  return x
}
print h()
print x
print f()
print x
"""),
    ("reader_written_before_a_later_local_of_the_same_name_in_factory", """
mk = fn(k: int) -> fn() -> int {
  x = k
  mid = fn() -> fn() -> int {
    rd = fn() -> int {
      return x
    }
    x = 50
    return rd
  }
  return mid()
}
r1 = mk(1)
r2 = mk(2)
x = 9
print r1()
print r2()
print x
"""),
    ("modify_from_list_element_copies_the_value", """
items: [int...] = [10, 20, 30]
cur = 0
pick = fn(i: int) -> int {
  modify cur = items[i]
  return cur
}
flip = fn() -> int {
  items.reverse()
  return items[0]
}
print pick(0)
print flip()
print cur
items.push(5)
print flip()
print cur
print pick(2)
print cur
"""),
    ("modify_from_object_field_copies_the_value", """
class Bx {
  v: int
  constructor(self, a: int) {
    self.v = a
  }
}
b = Bx(5)
cur = 0
take = fn() -> int {
  modify cur = b.v
  return cur
}
print take()
b.v = 9
print cur
print take()
b.v = 1
print cur
"""),
    ("factory_instances_independent", """
mk = fn() -> [fn() -> int, fn(int) -> int] {
  n = 0
  rd = fn() -> int {
    return n
  }
  wr = fn(d: int) -> int {
    modify n = n + d
    return n
  }
  return [rd, wr]
}
[r1, w1] = mk()
[r2, w2] = mk()
print w1(5)
print r1()
print r2()
print w2(70)
print w2(1)
print r1()
print r2()
[r3, w3] = mk()
print r3()
print w1(1)
print r3()
"""),
    ("factory_pair_shares_cells_three_closures", """
mk = fn(start: int) -> [fn() -> int, fn(int) -> int, fn() -> int] {
  n = start
  rd = fn() -> int {
    return n
  }
  wr = fn(d: int) -> int {
    modify n = n + d
    return n
  }
  dbl = fn() -> int {
    modify n = n * 2
    return n
  }
  return [rd, wr, dbl]
}
[ra, wa, da] = mk(3)
print da()
print wa(1)
print ra()
print da()
print ra()
"""),
    ("factory_param_captured_and_modified", """
adder = fn(b: int) -> (fn(int) -> int) {
  return fn(input: int) -> int {
    modify b = b + 1
    return input + b
  }
}
a20 = adder(20)
a5 = adder(5)
print a20(5)
print a20(5)
print a5(5)
print a20(0)
"""),
    ("factory_owner_write_after_creation", """
mk = fn() -> (fn() -> int) {
  n = 1
  rd = fn() -> int {
    return n
  }
  n = n + 41
  return rd
}
r = mk()
print r()
mk2 = fn() -> (fn() -> int) {
  m = 1
  rd2 = fn() -> int {
    return m
  }
  m += 1
  m *= 5
  return rd2
}
r2 = mk2()
print r2()
"""),
    ("factory_calls_product_before_return", """
mk = fn() -> [fn() -> int, fn(int) -> int] {
  n = 1
  rd = fn() -> int {
    return n
  }
  wr = fn(d: int) -> int {
    modify n = n + d
    return n
  }
  print wr(10)
  print n
  n = n + 1
  print rd()
  return [rd, wr]
}
[r, w] = mk()
print r()
print w(1)
print r()
"""),
    ("nested_depth3_modify_both_levels", """
mk3 = fn() -> (fn() -> (fn() -> int)) {
  a1 = 1
  return fn() -> (fn() -> int) {
    b1 = 10
    modify a1 = a1 + 1
    return fn() -> int {
      modify a1 = a1 + 100
      modify b1 = b1 + 1
      return a1 + b1
    }
  }
}
m1 = mk3()
m2 = m1()
m3 = m1()
print m2()
print m3()
print m2()
n1 = mk3()
n2 = n1()
print n2()
print m3()
"""),
    ("grandparent_variable_through_silent_middle", """
mk = fn() -> (fn() -> (fn(int) -> int)) {
  top = 5
  return fn() -> (fn(int) -> int) {
    return fn(d: int) -> int {
      modify top = top + d
      return top
    }
  }
}
mid = mk()
i1 = mid()
i2 = mid()
print i1(1)
print i2(10)
print i1(0)
mid2 = mk()
j1 = mid2()
print j1(0)
"""),
    ("closure_returned_literal_and_is_closure", """
mk = fn(k: int) -> (fn() -> int) {
  return fn() -> int {
    return k * 2
  }
}
a = mk(4)
b = mk(5)
print a()
print b()
print a.is_closure()
print mk.is_closure()
"""),
    ("closures_in_growable_list_bound_by_index", """
mk = fn() -> [fn(int) -> int...] {
  n = 0
  out: [fn(int) -> int...] = []
  out.push(fn(d: int) -> int {
    modify n = n + d
    return n
  })
  out.push(fn(d2: int) -> int {
    modify n = n * d2
    return n
  })
  return out
}
l = mk()
add = l[0]
mul = l[1]
print add(3)
print mul(4)
print add(1)
l2 = mk()
add2 = l2[0]
print add2(1)
print add(0)
"""),
    ("closure_passed_as_argument", """
x = 1
inc = fn(d: int) -> int {
  modify x = x + d
  return x
}
rd = fn() -> int {
  return x
}
apply1 = fn(fa: fn(int) -> int, va: int) -> int {
  return fa(va)
}
apply0 = fn(fb: fn() -> int) -> int {
  return fb() + 1000
}
print apply1(inc, 5)
print x
print apply0(rd)
twice = fn(fc: fn(int) -> int, vc: int) -> int {
  r1 = fc(vc)
  r2 = fc(vc)
  return r1 * 100 + r2
}
print twice(inc, 2)
print x
"""),
    ("closure_passed_and_returned", """
mk = fn() -> [fn() -> int, fn(int) -> int] {
  n = 0
  return [fn() -> int {
    return n
  }, fn(d: int) -> int {
    modify n = n + d
    return n
  }]
}
idc = fn(fa: fn(int) -> int) -> (fn(int) -> int) {
  return fa
}
[r, w] = mk()
w2 = idc(w)
print w2(4)
print w(1)
print r()
"""),
    ("closure_alias_shares_cells", """
mk = fn() -> (fn(int) -> int) {
  n = 0
  return fn(d: int) -> int {
    modify n = n + d
    return n
  }
}
a = mk()
b = a
print a(1)
print b(10)
print a(100)
"""),
    ("closure_in_if_block_captures_block_local", """
g = 3
hold: fn() -> int = fn() -> int {
  return 0
}
if g > 1 {
  bv = 40
  hold = fn() -> int {
    modify bv = bv + 1
    return bv + g
  }
}
print hold()
print hold()
g = 10
print hold()
"""),
    ("closure_in_else_block_two_closures_share_dead_local", """
tk = false
rd: fn() -> int = fn() -> int {
  return 0
}
wr: fn(int) -> int = fn(q: int) -> int {
  return q
}
if tk {
  print "never"
} else {
  bv = 7
  rd = fn() -> int {
    return bv
  }
  wr = fn(d: int) -> int {
    modify bv = bv + d
    return bv
  }
}
print rd()
print wr(3)
print rd()
"""),
    ("closures_in_from_loop_fresh_body_locals", """
fs: [fn(int) -> int...] = []
from 0 to 3, i {
  v = i * 10
  fs.push(fn(d: int) -> int {
    modify v = v + d
    return v
  })
}
a = fs[0]
b = fs[1]
c = fs[2]
print a(1)
print b(1)
print c(1)
print a(1)
"""),
    ("closures_in_while_loop_fresh_body_locals", """
k = 0
hs: [fn() -> int...] = []
while k < 3 {
  w = k + 100
  hs.push(fn() -> int {
    modify w = w + 1
    return w
  })
  k += 1
}
h0 = hs[0]
h1 = hs[1]
print h0()
print h0()
print h1()
print k
"""),
    ("closure_in_method_captures_method_local_and_module", """
g0 = 7
class K {
  f: int
  constructor(self, a: int) {
    self.f = a
  }
  fn mk(self, d: int) -> (fn() -> int) {
    loc = self.f + d
    return fn() -> int {
      modify loc = loc + 1
      modify g0 = g0 + 1
      return loc * 100 + g0
    }
  }
}
k1 = K(1)
k2 = K(2)
c1 = k1.mk(10)
c2 = k2.mk(20)
c3 = k1.mk(10)
print c1()
print c2()
print c1()
print c3()
print g0
"""),
    ("method_modifies_and_reads_module_variable", """
g0 = 0
class K {
  f: int
  constructor(self, a: int) {
    self.f = a
    modify g0 = g0 + 1
  }
  fn bump(self, d: int) -> int {
    modify g0 = g0 + d + self.f
    return g0
  }
  fn rd(self) -> int {
    return g0
  }
}
k1 = K(1)
k2 = K(20)
print g0
print k1.bump(10)
print k2.rd()
g0 = 5
print k2.bump(0)
print k1.rd()
print g0
"""),
    ("method_pair_factory_instances_independent", """
class K {
  f: int
  constructor(self, a: int) {
    self.f = a
  }
  fn mk(self) -> [fn() -> int, fn(int) -> int] {
    n = self.f
    return [fn() -> int {
      return n
    }, fn(d: int) -> int {
      modify n = n + d
      return n
    }]
  }
}
k = K(5)
[r1, w1] = k.mk()
[r2, w2] = k.mk()
print w1(1)
print r1()
print r2()
k.f = 50
[r3, w3] = k.mk()
print r3()
print r1()
"""),
    ("closure_captures_closure", """
mk = fn() -> (fn() -> int) {
  n = 1
  return fn() -> int {
    modify n = n + 1
    return n
  }
}
wrap = fn(inner: fn() -> int, k: int) -> (fn() -> int) {
  off = k
  return fn() -> int {
    return inner() * 100 + off
  }
}
c = mk()
w1 = wrap(c, 1)
w2 = wrap(w1, 2)
print w1()
print w2()
print c()
"""),
    ("captured_function_variable_rebound_by_owner", """
x = 1
ra = fn() -> int {
  return x
}
rb = fn() -> int {
  return x * 10
}
cur: fn() -> int = ra
call = fn() -> int {
  return cur() + 1
}
print call()
cur = rb
print call()
x = 5
print call()
"""),
    ("is_closure_false_for_functions_capturing_nothing", """
x = 1
pa = fn(p: int) -> int {
  loc = p + 1
  return loc
}
pb = fn(p2: int) -> int {
  loc2 = p2 + 1
  inner = fn() -> int {
    return loc2
  }
  return inner()
}
pc = fn() -> int {
  x = 5
  return x
}
pd = fn() -> (fn() -> int) {
  return fn() -> int {
    return 1
  }
}
print pa.is_closure()
print pb.is_closure()
print pc.is_closure()
print pd.is_closure()
pdi = pd()
print pdi.is_closure()
"""),
    ("is_closure_true_for_capturing_functions", """
x = 1
s = "a"
ra = fn() -> int {
  return x
}
wa = fn() {
  modify x = 2
}
oa = fn() {
  x += 1
}
sa = fn() -> int {
  x = x + 1
  return x
}
na = fn() -> int {
  inner = fn() -> int {
    return x
  }
  return inner()
}
ta = fn() -> str {
  if s == "a" {
    return "yes"
  }
  return "no"
}
print ra.is_closure()
print wa.is_closure()
print oa.is_closure()
print sa.is_closure()
print na.is_closure()
print ta.is_closure()
mk = fn(k: int) -> (fn() -> int) {
  loc = k
  return fn() -> int {
    return loc
  }
}
c = mk(1)
print c.is_closure()
"""),
    ("captured_str_bool_list_modified", """
st = "x"
fl = true
bl: [int...] = [1]
cat = fn(t: str) -> str {
  modify st = st + t
  return st
}
tg = fn() -> bool {
  modify fl = !fl
  return fl
}
ap = fn(v: int) -> int {
  bl.push(v)
  return bl.len()
}
rp = fn(v2: int) -> int {
  nl: [int...] = [v2, v2]
  modify bl = nl
  return bl.len()
}
sh = fn() -> int {
  bl: [int...] = [9, 9, 9]
  return bl.len()
}
print cat("y")
print st
print tg()
print fl
print ap(5)
print bl
print sh()
print bl
print rp(3)
print bl
print ap(4)
print bl
"""),
    ("modify_inside_loops_and_branches", """
x = 0
f = fn(d: int) -> int {
  k = 0
  while k < 3 {
    if k == 1 {
      modify x = x + d
    } else {
      modify x = x + 1
    }
    k = k + 1
  }
  from 0 to 2, i {
    modify x = x + i
  }
  return x
}
print f(10)
print x
print f(0)
print x
"""),
    ("modify_via_inner_closure", """
x = 0
f = fn(d: int) -> int {
  inner = fn(e: int) -> int {
    modify x = x + e + d
    return x
  }
  inner(1)
  return inner(2)
}
print f(10)
print x
"""),
    ("captured_variable_in_many_expression_contexts", """
g1 = 10
idf = fn(a: int) -> int {
  return a
}
w = fn() -> int {
  acc = 0
  k = 0
  while k < 2 && k < g1 {
    acc += g1
    k += 1
  }
  if g1 > 5 {
    acc = acc + 1
  } else {
    acc = acc - 1
  }
  lst: [int...] = [g1, 1]
  e = lst[0]
  m = map[str, int] { "k": g1 }
  e2 = m["k"]
  o: int? = g1
  e3 = get o
  [ua, ub] = [g1, g1 + 1]
  from 0 to g1 - 8, i {
    acc = acc + idf(g1) + i
  }
  sx = "v" + g1
  return acc + e + e2 + e3 + ua + ub + (-g1) + sx.len()
}
print w()
g1 = 9
print w()
"""),
    ("recursive_closure_via_self", """
g = 0
f = fn(n: int) -> int {
  if n == 0 {
    return g
  }
  modify g = g + n
  return self(n - 1)
}
print f(3)
print g
mk = fn() -> (fn(int) -> int) {
  t = 0
  return fn(n2: int) -> int {
    if n2 == 0 {
      return t
    }
    modify t = t + 1
    return self(n2 - 1)
  }
}
c = mk()
print c(4)
print c(1)
"""),
    ("closure_stored_in_object_field", """
class B {
  cb: fn() -> int
  constructor(self, f: fn() -> int) {
    self.cb = f
  }
}
mk = fn() -> (fn() -> int) {
  n = 0
  return fn() -> int {
    modify n = n + 1
    return n
  }
}
b1 = B(mk())
b2 = B(mk())
print b1.cb()
print b1.cb()
print b2.cb()
"""),
    ("const_closure_and_const_capture", """
const base = 100
x = 1
const f = fn(d: int) -> int {
  modify x = x + d
  return x + base
}
print f(1)
print f(2)
print x
"""),
    ("two_factories_same_shape_do_not_interfere", """
mka = fn() -> (fn(int) -> int) {
  na = 0
  return fn(da: int) -> int {
    modify na = na + da
    return na
  }
}
mkb = fn() -> (fn(int) -> int) {
  nb = 1000
  return fn(db: int) -> int {
    modify nb = nb + db
    return nb
  }
}
a = mka()
b = mkb()
print a(1)
print b(1)
print a(1)
"""),
    # ---- same-named bindings: locals that shadow a captured name, callers holding the name, re-assigned closures
    ("shadow_local_then_closures_over_the_local", """
rate = 10
make_quote = fn() -> (fn() -> int) {
  rate = rate + 5
  return fn() -> int {
    return rate
  }
}
quote = make_quote()
print quote()
rate = 40
print quote()
make_counter = fn() -> (fn() -> int) {
  rate = rate * 0
  return fn() -> int {
    modify rate = rate + 1
    return rate
  }
}
c1 = make_counter()
c2 = make_counter()
print c1()
print c1()
print c2()
print rate
"""),
    ("shadow_local_in_middle_function_then_inner_closures", """
mk = fn() -> (fn() -> [fn() -> int, fn(int) -> int]) {
  fv = 1
  return fn() -> [fn() -> int, fn(int) -> int] {
    fv = fv + 10
    return [fn() -> int {
      return fv
    }, fn(d: int) -> int {
      modify fv = fv + d
      return fv
    }]
  }
}
m = mk()
[r1, w1] = m()
[r2, w2] = m()
print w1(5)
print r1()
print r2()
m2 = mk()
[r3, w3] = m2()
print r3()
"""),
    ("shadow_in_block_then_closure_over_block_local", """
x = 1
mk = fn(p: int) -> (fn() -> int) {
  hold: fn() -> int = fn() -> int {
    return x
  }
  if p > 0 {
    x = p * 100
    hold = fn() -> int {
      modify x = x + 1
      return x
    }
  }
  return hold
}
a = mk(2)
b = mk(0)
print a()
print a()
print b()
x = 7
print b()
print a()
print x
"""),
    ("caller_parameter_block_local_and_loop_counter_named_like_captured", """
gv = 5
rd = fn() -> int {
  return gv
}
wr = fn(d: int) -> int {
  modify gv = gv + d
  return gv
}
apP = fn(fb: fn(int) -> int, gv: int) -> int {
  return fb(gv) + gv
}
apB = fn(fa: fn() -> int) -> int {
  r = 0
  from 0 to 2, gv {
    r = r + fa() + gv
  }
  if r >= 0 {
    gv = 50
    r = r + fa() * 3 + gv
  }
  return r
}
apT = fn(fc: fn() -> int) -> int {
  gv = 999
  inner = fn() -> int {
    return fc() + gv
  }
  return inner()
}
print apP(wr, 100)
print gv
print apB(rd)
print apT(rd)
print gv
"""),
    ("callers_local_then_closure_created_by_callee", """
x = 5
mk = fn() -> (fn() -> int) {
  return fn() -> int {
    return x
  }
}
g = fn() -> (fn() -> int) {
  x = 100
  return mk()
}
c = g()
print c()
x = 6
print c()
"""),
    ("rebind_closure_variable_from_fresh_factory_call", """
make_counter = fn() -> (fn() -> int) {
  count = 0
  return fn() -> int {
    modify count = count + 1
    return count
  }
}
counter = make_counter()
print counter()
print counter()
other = make_counter()
print other()
counter = make_counter()
print counter()
print counter()
counter = other
print counter()
make_adder = fn(n: int) -> (fn(int) -> int) {
  return fn(x: int) -> int {
    return x + n
  }
}
add = make_adder(1)
print add(10)
add = make_adder(100)
print add(10)
"""),
    ("rebind_closure_variable_inside_function_and_in_loop", """
make_adder = fn(n: int) -> (fn(int) -> int) {
  return fn(x: int) -> int {
    return x + n
  }
}
run = fn() -> int {
  stp = make_adder(2)
  first = stp(0)
  stp = make_adder(30)
  return first + stp(0)
}
print run()
loop = fn() -> int {
  acc = 0
  cur = make_adder(0)
  from 1 to 4, i {
    cur = make_adder(i * 10)
    acc = acc + cur(1)
  }
  return acc
}
print loop()
"""),
    ("reassign_with_equal_looking_values", """
a = 5
ra = fn() -> int {
  return a
}
a = 5
print ra()
a = 2 + 3
print ra()
l: [int...] = [1, 2]
n: [int...] = [1, 2]
rl = fn() -> int {
  return l.len()
}
l = n
n.push(3)
print l
print rl()
s = "ab"
t = "a" + "b"
rs = fn() -> str {
  return s
}
s = t
print rs()
"""),
    # ---- a method's free variable named like a field of its class resolves to the FIELD (the capture map of a
    #      method is built inside the class-body frame, whose variables are the fields)
    ("method_free_variable_named_like_field", """
x = 100
class M {
  x: int
  constructor(self, a: int) {
    self.x = a
  }
  fn g(self) -> int {
    return x
  }
  fn h(self) -> int {
    modify x = x + 1
    return x
  }
}
m = M(7)
print m.g()
print m.h()
print x
print m.x
"""),
    # ---- the known defect (run-time name search walks the call stack before the capture map): two pinned cases
    ("caller_local_shadows_captured_read", """
x = 5
f = fn() -> int {
  return x
}
g = fn() -> int {
  x = 100
  return f()
}
print g()
print x
"""),
    ("caller_local_shadows_captured_opassign", """
x = 5
h = fn() -> int {
  x += 1
  return x
}
k = fn() -> int {
  x = 50
  r = h()
  return r * 1000 + x
}
print k()
print x
"""),
    # ---- `x += e` on a captured variable whose defining activation has returned
    ("opassign_captured_after_owner_returned", """
mk = fn() -> (fn() -> int) {
  n = 1
  return fn() -> int {
    n += 1
    return n
  }
}
c = mk()
print c()
print c()
"""),
    # ---- capture list misses a variable that is used only as an argument of a call inside a dot chain
    ("captured_only_as_method_call_argument", """
class Hk {
  fn addv(self, a: int) -> int {
    return a + 1
  }
}
hk = Hk()
mk = fn() -> (fn() -> int) {
  n = 10
  return fn() -> int {
    return hk.addv(n)
  }
}
c = mk()
print c()
"""),
    # ---- capture list misses a variable that is used only in the target path of `a[i] = v` / `o.f = v`
    ("captured_only_as_reassignment_target", """
mk = fn() -> [fn(int) -> int, fn() -> int] {
  l: [int...] = [1]
  return [fn(d: int) -> int {
    l[0] = d
    return d
  }, fn() -> int {
    e = l[0]
    return e
  }]
}
[w, r] = mk()
print w(5)
print r()
"""),
    # ---- `modify s = e` where the string `e` has another statically known length than the initialiser of `s`
    ("modify_str_changes_known_length", """
mk = fn() -> (fn() -> str) {
  s = "a"
  return fn() -> str {
    modify s = s + "x"
    return s
  }
}
w = mk()
print w()
print w()
"""),
]


# ----------------------------------------------------------------------------- running one program

def execute(src):
    r, _, _ = core.run_program({"main.ms": src}, cpu=10)
    return r


def compare(src, model, r):
    """None when the run agrees with the model, else (deviation class, details)."""
    if r.cls in ("wall_timeout", "spawn_error"):
        return ("inconclusive", r.cls)
    text = r.out + r.err
    if core.compile_rejected(r):
        return ("rejected", r.out[-700:])
    got = r.lines()
    if r.cls == "cpu_timeout":
        return ("hang", "")
    if model["status"] == "ok":
        if r.cls != "ok":
            cls = core.classify_failure(r)
            dev = {"defined": "failure_" + cls[1], "panic_defined": "panic_" + cls[1], "internal": "internal_error",
                   "stack": "stack_overflow"}.get(cls[0], "runtime_error")
            return (dev, cls[1])
        if got != model["lines"]:
            return ("wrong_value", "")
        return None
    # model predicts a language-defined failure
    if r.cls == "ok":
        return ("missing_failure", model["failkind"])
    if got != model["lines"]:
        return ("wrong_value", "")
    cls = core.classify_failure(r)
    if cls[0] not in ("defined", "panic_defined") or cls[1] != model["failkind"]:
        return ("failure_kind", "%s/%s" % cls)
    return None


def witness(src, model, r, extra=None):
    w = {"files": {"main.ms": src}, "expected_status": model["status"], "expected_failure": model["failkind"],
         "expected_lines": model["lines"], "observed_lines": r.lines(), "run": r.brief()}
    step, kind = M.first_deviation(model["lines"], r.lines())
    w["first_deviating_step"] = step
    w["first_deviating_kind"] = kind
    if extra:
        w.update(extra)
    return w


def work_catalogue(item):
    cid, src = item
    src = src.lstrip("\n")
    res = {"id": cid, "kind": "catalogue", "runs": 0}
    model = M.run_model(src, mutation=MUTATION)
    res["hazards"] = sorted(set(h[0] for h in model["hazards"]))
    res["stats"] = model["stats"]
    r = execute(src)
    res["runs"] = 1
    out = compare(src, model, r)
    if out is None:
        res["verdict"] = "agree"
        res["sample"] = {"case": cid, "source": src, "expected_lines": model["lines"]}
    elif out[0] in ("inconclusive",):
        res["verdict"] = "inconclusive"
        res["msg"] = out[1]
    elif out[0] == "rejected":
        res["verdict"] = "rejected"
        res["msg"] = out[1]
    else:
        res["verdict"] = "differ"
        res["deviation"] = out[0]
        res["witness"] = witness(src, model, r, {"case": cid, "detail": out[1]})
    return res


def work_random(item):
    seed, avoid = item
    allow_escaped = "opassign_escaped" not in avoid
    res = {"kind": "random", "seed": seed, "runs": 0}
    src, kinds, feats = M.gen_history(seed, avoid=avoid)
    res["kinds"] = kinds
    res["features"] = feats
    try:
        model = M.run_model(src, mutation=MUTATION)
    except M.Discard as d:
        res["verdict"] = "model_discard"
        res["msg"] = str(d)
        return res
    res["stats"] = model["stats"]
    hz = [h for h in model["hazards"] if not (allow_escaped and h[0] == "opassign_escaped")]
    if "caller_local_shadow" not in avoid:
        hz = [h for h in hz if h[0] == "opassign_escaped"]
    res["hazards_met"] = len(model["hazards"])
    if hz:
        res["verdict"] = "avoided"
        res["hazards"] = sorted(set(h[0] for h in hz))
        res["hazard_example"] = list(hz[0])
        return res
    if model["status"] != "ok":
        res["verdict"] = "model_discard"
        res["msg"] = "model predicts failure " + str(model["failkind"])
        return res
    r = execute(src)
    res["runs"] = 1
    out = compare(src, model, r)
    st = model["stats"]
    res["nontrivial"] = st["modify"] + st["captured_opassign"] > 0 and st["captured_reads"] > 0 and st["closure_calls"] > 1
    res["hash"] = core.h(src)
    if out is None:
        res["verdict"] = "agree"
        if len(src) < 2600 and len(kinds) >= 6:
            res["sample"] = {"seed": seed, "steps": kinds, "source": src[len(M.PRELUDE):], "expected_lines": model["lines"][:60]}
    elif out[0] == "inconclusive":
        res["verdict"] = "inconclusive"
        res["msg"] = out[1]
    elif out[0] == "rejected":
        res["verdict"] = "rejected"
        res["msg"] = out[1]
        res["src"] = src
    else:
        res["verdict"] = "differ"
        res["deviation"] = out[0]
        w = witness(src, model, r, {"seed": seed, "steps": kinds, "features": feats, "detail": out[1]})
        res["witness"] = w
        res["step_kind"] = w["first_deviating_kind"]
    return res


def root_cause_hint(res):
    """Informational only (coverage): which pinned defect the message of a random deviation points to."""
    d = str(res["witness"].get("detail") or "")
    if "has not been mapped" in d:
        return "B opassign_captured_after_owner_returned"
    if "load before store" in d:
        return "C/D capture list misses a name (dot-chain call argument / reassignment target)"
    if "is not in scope" in d:
        return "E modify_type_refinement"
    if res["deviation"] == "wrong_value" and res.get("step_kind") == "is_closure":
        return "D reassignment target not captured (is_closure false)"
    return "unclassified: " + (d[:80] or res["deviation"])


def work(item):
    if item[0] == "cat":
        return work_catalogue(item[1])
    return work_random(item[1])


# ----------------------------------------------------------------------------- engine

def run(ctx):
    out = core.Outcome()
    avoid = tuple(sorted(set(r for r, sig in PINS.items() if sig in ctx.known) | FORCE_AVOID |
                         ({"caller_local_shadow"} if dynamic_lookup_defect_listed() else set())))
    items = [("cat", c) for c in CATALOGUE]
    nrand = ctx.n(4000, 30000)
    base = ctx.rng("histories").randrange(1 << 40)
    items += [("rand", (base + i, avoid)) for i in range(nrand)]
    results = core.pmap(work, items, chunksize=8)
    cov = {"catalogue_cases": len(CATALOGUE), "catalogue_agree": 0, "catalogue_rejected": [], "random_histories": 0,
           "random_agree": 0, "random_rejected": 0, "random_avoided_by_rule": 0, "random_model_discard": 0,
           "steps_by_kind": {}, "features": {}, "model_events": {}, "hazard_kinds_avoided": {},
           "catalogue_hazard_cases": []}
    rejected_examples = []
    nsamples_cat = 0
    for status, res in results:
        if status != "ok":
            out.inconclusive.append(str(res)[-600:])
            continue
        out.evaluations += res["runs"]
        if res["kind"] == "catalogue":
            if res["hazards"]:
                cov["catalogue_hazard_cases"].append(res["id"])
            for k, v in res["stats"].items():
                cov["model_events"][k] = cov["model_events"].get(k, 0) + v
            v = res["verdict"]
            if v == "agree":
                cov["catalogue_agree"] += 1
                out.distinct.add(core.h(["cat", res["id"]]))
                if nsamples_cat < 1 and res["id"] == "factory_instances_independent":
                    out.samples.append(res["sample"])
                    nsamples_cat += 1
            elif v == "rejected":
                cov["catalogue_rejected"].append(res["id"])
                rejected_examples.append({"case": res["id"], "msg": res["msg"][:400]})
            elif v == "inconclusive":
                out.inconclusive.append("%s: %s" % (res["id"], res["msg"]))
            else:
                out.distinct.add(core.h(["cat", res["id"]]))
                out.violations.append(core.Violation(
                    "C07:%s:%s" % (res["id"], res["deviation"]),
                    "catalogue world `%s` deviates from the cell model (%s): expected %s, observed %s" % (
                        res["id"], res["deviation"], res["witness"]["expected_lines"][:6],
                        res["witness"]["observed_lines"][:6]),
                    res["witness"]))
            continue
        cov["random_histories"] += 1
        v = res["verdict"]
        if v == "model_discard":
            cov["random_model_discard"] += 1
            key = res["msg"].split(" ")[0] + " " + " ".join(res["msg"].split(" ")[1:2])
            cov.setdefault("model_discard_reasons", {})
            cov["model_discard_reasons"][key] = cov["model_discard_reasons"].get(key, 0) + 1
            continue
        if v == "avoided":
            cov["random_avoided_by_rule"] += 1
            for hk in res["hazards"]:
                cov["hazard_kinds_avoided"][hk] = cov["hazard_kinds_avoided"].get(hk, 0) + 1
            cov.setdefault("hazard_examples", [])
            if len(cov["hazard_examples"]) < 4:
                cov["hazard_examples"].append(res["hazard_example"])
            continue
        if v == "inconclusive":
            out.inconclusive.append("seed %s: %s" % (res["seed"], res["msg"]))
            continue
        if v == "rejected":
            cov["random_rejected"] += 1
            if len(rejected_examples) < 4:
                rejected_examples.append({"seed": res["seed"], "msg": res["msg"][:500]})
            continue
        for k in res["kinds"][1:]:
            cov["steps_by_kind"][k] = cov["steps_by_kind"].get(k, 0) + 1
        for f in res["features"]:
            cov["features"][f] = cov["features"].get(f, 0) + 1
        for k, n in res["stats"].items():
            cov["model_events"][k] = cov["model_events"].get(k, 0) + n
        if res["nontrivial"]:
            out.distinct.add(res["hash"])
        if v == "agree":
            cov["random_agree"] += 1
            if res.get("sample") and len(out.samples) < 3:
                out.samples.append(res["sample"])
        else:
            cause = root_cause_hint(res)
            cov.setdefault("random_deviations_by_root_cause_hint", {})
            cov["random_deviations_by_root_cause_hint"][cause] = cov["random_deviations_by_root_cause_hint"].get(cause, 0) + 1
            out.violations.append(core.Violation(
                "C07:history:%s:%s" % (res["step_kind"], res["deviation"]),
                "history (seed %s) deviates from the cell model at step %s (%s): %s" % (
                    res["seed"], res["witness"]["first_deviating_step"], res["step_kind"], res["deviation"]),
                res["witness"]))
    cov["rejected_examples"] = rejected_examples
    cov["avoidance_rules"] = {
        "caller_local_shadow": "histories in which the model meets a frame on the call stack holding a same-named "
                               "variable that is not the captured cell (read / op-assign / capture) are discarded; "
                               "the generator also gives every binding a globally unique name",
        "opassign_escaped": "`x op= e` on a captured variable is generated for module-level variables only",
        "dotcall_arg": "a captured variable is never used solely as an argument of a call inside a dot chain (`o.m(x)`)",
        "reassign_target": "a captured list/object is never used solely as the target path of `a[i] = v`",
        "modify_type_refinement": "str variables of functions/methods are declared with an explicit `: str` type and `int?` "
                                  "variables are module-level only (a `modify` whose value has a narrower static type than the "
                                  "variable leaks the dependency)"}
    cov["avoidance_rules_in_force"] = list(avoid)
    cov["avoidance_rules_inactive_because_finding_not_listed"] = sorted((set(PINS) | {"caller_local_shadow"}) - set(avoid))
    cov["unique_names_everywhere"] = True
    if MUTATION:
        cov["model_mutation"] = MUTATION
    out.coverage.update(cov)
    out.rule = ("catalogue = %d hand-shaped closure worlds (identical for every seed) + %d seeded random worlds "
                "(module variables, module/block/loop closures, factories returning packs / single closures / "
                "closure-making closures / growable lists, method factories, higher-order helpers) each with a history of "
                "4-12 steps (owner assign/op-assign, call reader/writer/shadower/op-assigner, call via helper, new factory "
                "instance, is_closure, re-assign an existing closure variable from another closure / a fresh factory call / inside a "
                "function, owner re-assignment with an equal int or an equal-but-distinct list); unless the rule caller_local_shadow "
                "is in force the worlds use same-named bindings on purpose (factory locals that shadow a captured name before "
                "closures are created over them, middle-level shadows, helper locals / parameters / loop counters / block locals "
                "named like the callee's captured variable); after every step all module variables and all pure readers are printed. "
                "evaluations = executions of the real binary compared line-by-line with the cell model. non-trivial = the "
                "model executed at least one write through a closure (modify / captured op-assign), one captured read and two "
                "closure calls; distinct = distinct source text (catalogue: case id)." % (len(CATALOGUE), nrand))
    out.assumptions = [
        "reference semantics of mv/models/closures.py: lexical scoping, one cell per variable per activation / block entry",
        "`x op= e` inside a function writes the captured variable in place (established by the repository's own test "
        "class.rs capture_outside_env); the property statement itself only names `modify` and plain assignment",
        "a loop counter captured by a closure is not exercised (whether it is fresh per iteration is left open by the statement); "
        "variables first assigned in a loop body are fresh per iteration",
        "is_closure is queried for functions with no free identifier (expected false) and for functions with at least one "
        "free identifier naming a variable or a function-valued variable (expected true)",
        "dev-profile build; stdout of `mscript run`"]
    total = cov["random_histories"]
    compared = cov["random_agree"] + cov["random_rejected"] + sum(1 for v in out.violations if v.signature.startswith("C07:history"))
    if compared and cov["random_rejected"] > 0.02 * compared:
        out.observed_nothing = "%d of %d random programs rejected by the compiler: generator out of the language" % (
            cov["random_rejected"], compared)
    if out.evaluations == 0:
        out.observed_nothing = "no executions"
    return out


def replay(path):
    with open(os.path.join(path, "case.json")) as f:
        case = json.load(f)
    src = open(os.path.join(path, "files", "main.ms")).read()
    model = M.run_model(src)
    r = execute(src)
    out = compare(src, model, r)
    print("signature:", case.get("signature"))
    print("expected :", model["status"], model["failkind"], model["lines"])
    print("observed :", r.cls, r.lines())
    if r.err.strip():
        print("stderr   :", r.err.strip()[:600])
    if out is None:
        print("AGREES")
        return 0
    step, kind = M.first_deviation(model["lines"], r.lines())
    print("DIFFERS (%s) first deviating step: %s %s" % (out[0], step, kind))
    return 1
