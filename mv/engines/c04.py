"""C04 — `run` and `compile` + `execute` are observationally equivalent.

Differential twins (mv/models/twin.py).  Pipeline A: `mscript run x.ms -q`; pipeline B: `mscript compile x.ms
--quick` then `mscript execute x.mmm`; both with H-DUMP.  Compared per program: stdout, success/failure (both
failing: exit class + classify_failure class), and per (file, function) of every loaded file the opcode
sequence and the argument lists (`make_function`: first argument, then the captures as a multiset).

Workloads: (a) the repository's corpus; (b) generated 2-4-module projects; (c) strings of length 0-4 over the
format-special alphabet, each as a literal in three roles, batched and bisected to single literals;
(d) generated control-flow programs (mv/cf.py); (e) histories: several compilations into ONE directory (source
replaced by a shorter / equally long / longer one, also ending exactly on a function or record boundary of its
predecessor; entry module and imported module; 2 and 3 steps) — `execute` must behave like `run` of the current
source in a fresh directory (stale output files); (f) large files: 9-140 KiB of bytecode made of 2-/3-/4-byte
characters in alignment variants so that a character straddles every multiple of 4096 of the file."""
import json
import os

from .. import cf, core, corpus
from ..models import twin

PROP = "C04"


def sig_of(name):
    if name.startswith("generated_cf"):
        return "generated_cf"
    return name


def cf_programs(ctx, n):
    progs = []
    base = ctx.seed * 1000003 + 404
    for i in range(n):
        prog, uses_take, shape = cf.gen_program(base + i, max_depth=4, max_stmts=50)
        paths, _ = cf.enumerate_paths(prog, uses_take, 6, max_runs=40)
        if not paths:
            continue
        dec = paths[len(paths) // 2][0]
        progs.append(("generated_cf/%d" % i, {"main.ms": cf.render(prog, dec, uses_take)}, "main.ms"))
    return progs


def random_histories(prop, gen, n):
    """Histories over generated programs: [longer, shorter] and [p, q, r] written to the same path."""
    items = []
    for i in range(min(n, len(gen) // 3)):
        p, q, r = (gen[3 * i + j][1] for j in range(3))
        two = sorted([p, q], key=lambda f: -len(f["main.ms"]))
        items.append((prop, "random", "cf", "longer_then_shorter", {"steps": two}))
        items.append((prop, "random", "cf", "three_steps", {"steps": [p, q, r]}))
        if prop == "C18":       # an x.mmm already exists when `transpile` writes it
            items.append((prop, "random", "cf", "listing_copied", {"steps": [r], "exec": "copy"}))
            items.append((prop, "random", "cf", "srcout_longer_then_shorter", {"steps": two, "exec": "srcout"}))
    return items


def run(ctx):
    out = core.Outcome()
    avoid = twin.known_kinds(ctx, PROP)
    progs = list(corpus.all_programs())
    projects = twin.project_cases(ctx.rng("projects"), ctx.n(30, 300))
    progs += [(name, files, "main.ms") for name, files in projects]
    gen = cf_programs(ctx, ctx.n(120, 2000))
    progs += gen
    dup = twin.duplabel_cases(ctx.rng("duplabel"), ctx.n(20, 200)) + twin.first_instruction_cases() + twin.foreign_escape_cases()
    progs += dup
    # long operator chains and deep nests: `run` compiles on the runtime thread (4 MiB by default), `compile` on its own
    long_ = []
    for n in (100, 250, 500, 1000):
        long_.append(("long:ident_sum_%d" % n, {"main.ms": "a = 1\nx = a" + "+a" * n + "\nprint x\n"}, "main.ms"))
        long_.append(("long:str_concat_%d" % n, {"main.ms": 'a = "s"\nx = a' + "+a" * n + "\nprint x.len()\n"}, "main.ms"))
    for n in (50, 100, 200):
        long_.append(("long:if_nest_%d" % n, {"main.ms": "a = true\n" + "if a {\n" * n + "print 1\n" + "}\n" * n}, "main.ms"))
        long_.append(("long:fn_nest_%d" % n, {"main.ms": "f = " + "fn() -> int {\nreturn (" * n + "1" + ")\n}()" * n + "\nprint 2\n"}, "main.ms"))
    progs += long_
    items = [(PROP, name, files, entry, False, avoid) for name, files, entry in progs]
    cov = twin.collect_programs(PROP, out, items, sig_of)
    scov, chosen = twin.collect_strings(PROP, ctx, out)
    cov.update(scov)
    cov.update(twin.collect_histories(PROP, out, random_histories(PROP, gen, ctx.n(15, 300))))
    cov.update(twin.collect_large(PROP, out, ctx.quick))
    out.coverage.update(cov)
    out.coverage["avoidance_rules"] = (
        ["programs whose emitted instruction arguments contain a character of a class listed in known_findings.json "
         "(%s) are not compared (their deviation is the listed finding)" % ", ".join(avoid)] if avoid else [])
    out.coverage["workload_sizes"] = {"corpus": len(progs) - len(projects) - len(gen) - len(dup) - len(long_), "long_chains_and_nests": len(long_), "repeated_label_programs": len(dup), "projects": len(projects),
                                      "generated_cf": len(gen), "string_values": len(chosen)}
    pick = [(i, v, twin.has_raw_form(v)) for i, v in chosen[617:620]]
    out.samples = [{"kind": "string batch program (role mapkey, 3 of ~200 literals)", "values": [v for _, v, _ in pick],
                    "source": twin.string_program("mapkey", pick)[0]},
                   {"kind": "project", "shape": projects[13][0], "files": projects[13][1]},
                   {"kind": "corpus", "name": progs[0][0], "entry": progs[0][2],
                    "source": progs[0][1][progs[0][2]][:600]}]
    out.rule = ("each program is executed by `run` and by `compile`+`execute` (fresh directories, H-DUMP on); stdout, "
                "exit class and every loaded function's instruction stream are compared. Programs: examples + "
                "programs embedded in the test sources (<= 0.5 s CPU), all 27 project shapes (2-4 modules x "
                "flat/sub/nested directories x import forms) + seeded projects, seeded control-flow programs, programs in which one function label is emitted "
                "several times (same-named local classes in 2-4 functions / blocks, a class called __fnN; which "
                "declaration runs: last, first, middle, all). Strings: "
                "%s values of length <= 4 over {\" \\ space TAB LF CR n r t é} that a literal can denote (not ending "
                "in a backslash), escaped rendering + raw rendering for TAB/LF/CR, as print operand, map key and "
                "assert-== operand; batches of 200 bisected to single literals (one evaluation = one (value, rendering, role) case decided, up to 200 share one pair of executions); each literal's decoded value is "
                "checked against the intended value in the dump of `run`. Distinct non-trivial = distinct program "
                "with >= 5 instructions compared, or distinct (role, string) with >= 1 character other than n/r/t."
                % ("all 10 000" if not ctx.quick else "all 1 000 of length <= 3 and a seeded sample of 400 of length 4 among the"))
    out.assumptions = [
        "both pipelines run in separate fresh directories with identical sources and the same relative entry path",
        "failure equivalence = same exit class and same classify_failure class (message texts contain paths and are not compared)",
        "a program whose own `run` stdout varies between executions (hash-ordered maps, addresses) is compared on exit "
        "class and instruction streams only",
        "programs the compiler rejects (identically in both pipelines) are outside the domain and only counted",
        "a string value ending in a backslash has no source literal (grammar: an escaped backslash before the closing "
        "quote is read as an escaped quote): those 1 111 values are not instruction arguments the compiler can emit "
        "from a literal and are not probed",
        "H-DUMP is faithful (additive observation code)"]
    if out.evaluations == 0:
        out.observed_nothing = "no program could be compared"
    return out


def replay(path):
    with open(os.path.join(path, "case.json")) as f:
        case = json.load(f)
    w = case["witness"]
    if "history" in w:
        res = twin.replay_history(PROP, w)
        print(json.dumps({k: v for k, v in res.items() if k != "witness"}, indent=1, default=str, ensure_ascii=False))
        return 1 if (res["devs"] or res["status"] != "compared") else 0
    files = twin.read_files(os.path.join(path, "files"))
    status, devs, a, b = twin.compare(PROP, files, w.get("entry", "main.ms"), keep_artefacts=True)
    print(json.dumps({"signature": case["signature"], "status": status, "deviations": devs, "run": a.brief(),
                      "pipeline_b": b.brief()}, indent=1, default=str, ensure_ascii=False))
    return 1 if (devs or status != "compared") else 0
