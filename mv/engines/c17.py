"""C17 — run-time failures are reported as MScript errors with an exact call trace.

Workload: failure kind x call depth 0-6 x frame kinds (function, closure, method, constructor, list
map/filter callback, imported-module function, recursion) x block context at the failure site.
Monitors: merged stdout+stderr stream (ordering), exit status, the printed trace, and the shadow call
stack rebuilt from the H-TRACE E/X events at the moment of the error."""
import json
import os
import re

from .. import core, tracecheck

# (kind id, setup lines, failing statement).  {u} = unique prefix, {x} = the int parameter in scope.
FAILS = [
    ("assert", [], "assert {x} == 12345"),
    # the position is a line and a column in CHARACTERS: non-ASCII text before the assert on the same line
    ("assert_after_non_ascii", [], "if \"über ñ 日本\" != \"q\" {{ assert {x} == 12345 }}"),
    ("get_nil", ["{u}on: int? = nil"], "{u}gv = get {u}on"),
    ("list_index_len", ["{u}lq: [int...] = [1, 2]", "{u}k = 2"], "{u}e = {u}lq[{u}k]"),
    ("list_index_neg", ["{u}lq: [int...] = [1, 2]", "{u}k = -1"], "{u}e = {u}lq[{u}k]"),
    # every consumer of an out-of-range element place (round 6: `l[i] += v` kept an unwrap() when the bounds check
    # moved from the index instruction into the consumers)
    ("list_index_assign", ["{u}lq: [int...] = [1, 2]", "{u}k = 2"], "{u}lq[{u}k] = 5"),
    ("list_index_opassign_add", ["{u}lq: [int...] = [1, 2]", "{u}k = 2"], "{u}lq[{u}k] += 5"),
    ("list_index_opassign_mul", ["{u}lq: [int...] = [1, 2]", "{u}k = 7"], "{u}lq[{u}k] *= 5"),
    ("list_index_opassign_neg", ["{u}lq: [int...] = [1, 2]", "{u}k = -1"], "{u}lq[{u}k] -= 5"),
    ("list_index_print", ["{u}lq: [int...] = [1, 2]", "{u}k = 2"], "print {u}lq[{u}k]"),
    ("list_index_in_expression", ["{u}lq: [int...] = [1, 2]", "{u}k = 2"], "{u}e = {u}lq[{u}k] + 1"),
    ("list_index_method_receiver", ["{u}lq: [int...] = [1, 2]", "{u}k = 2"], "{u}e = ({u}lq[{u}k]).to_str()"),
    ("list_index_argument", ["{u}lq: [int...] = [1, 2]", "{u}k = 2", "{u}id = fn(q: int) -> int {{ return q }}"], "{u}e = {u}id({u}lq[{u}k])"),
    ("list_index_empty_list", ["{u}lq: [int...] = [1]", "{u}d = {u}lq.remove(0)", "{u}k = 0"], "{u}e = {u}lq[{u}k]"),
    ("nested_list_index_inner", ["{u}li: [int...] = [1]", "{u}lq: [[int...]...] = [{u}li]", "{u}k = 1"], "{u}e = {u}lq[0][{u}k]"),
    ("nested_list_index_inner_opassign", ["{u}li: [int...] = [1]", "{u}lq: [[int...]...] = [{u}li]", "{u}k = 1"], "{u}lq[0][{u}k] += 1"),
    ("nested_list_index_outer", ["{u}li: [int...] = [1]", "{u}lq: [[int...]...] = [{u}li]", "{u}k = 1"], "{u}e = {u}lq[{u}k][0]"),
    ("str_index", ["{u}s = \"ab\"", "{u}k = 5"], "{u}e = {u}s[{u}k]"),
    ("str_index_print", ["{u}s = \"ab\"", "{u}k = 2"], "print {u}s[{u}k]"),
    ("map_key_opassign_int", ["{u}mp = map[int, int] {{ 1: 1 }}", "{u}k = 4"], "{u}mp[{u}k] *= 2"),
    ("map_key_opassign", ["{u}mp = map[str, int] {{ \"a\": 1 }}"], "{u}mp[\"zz\"] += 1"),
    ("div_zero_int", ["{u}z = 0"], "{u}e = {x} / {u}z"),
    ("rem_zero_int", ["{u}z = 0"], "{u}e = {x} % {u}z"),
    ("div_zero_bigint", ["{u}z = B0"], "{u}e = {x} / {u}z"),
    ("div_zero_float", ["{u}z = 0.0"], "{u}e = {x} / {u}z"),
    ("div_zero_byte", ["{u}z = 0b0"], "{u}e = {x} / {u}z"),
    ("rem_zero_byte", ["{u}z = 0b0"], "{u}e = {x} % {u}z"),
    ("int_add_overflow", ["{u}m = 2147483647", "{u}o = 1"], "{u}e = {u}m + {u}o"),
    ("int_sub_overflow", ["{u}m = -2147483647", "{u}o = 2"], "{u}e = {u}m - {u}o"),
    ("int_mul_overflow", ["{u}m = 65536", "{u}o = 65536"], "{u}e = {u}m * {u}o"),
    ("int_neg_min", ["{u}m = -2147483647 - 1"], "{u}e = -{u}m"),
    ("int_abs_min", ["{u}m = -2147483647 - 1"], "{u}e = {u}m.abs()"),
    ("bigint_abs_min", ["{u}m = -B170141183460469231731687303715884105727 - B1"], "{u}e = {u}m.abs()"),
    ("int_opassign_overflow", ["{u}m = 2147483647"], "{u}m += 1"),
    ("bigint_add_overflow", ["{u}m = B170141183460469231731687303715884105727", "{u}o = B1"], "{u}e = {u}m + {u}o"),
    ("bigint_mul_overflow", ["{u}m = B170141183460469231731687303715884105727", "{u}o = B2"], "{u}e = {u}m * {u}o"),
    ("byte_add_overflow", ["{u}m = 0b11111111", "{u}o = 0b1"], "{u}e = {u}m + {u}o"),
    ("byte_sub_underflow", ["{u}m = 0b0", "{u}o = 0b1"], "{u}e = {u}m - {u}o"),
    ("shl_amount_too_big", ["{u}m = 1", "{u}o = 40"], "{u}e = {u}m << {u}o"),
    ("shl_amount_negative", ["{u}m = 1", "{u}o = -1"], "{u}e = {u}m << {u}o"),
    ("shr_amount_too_big", ["{u}m = 1", "{u}o = 32"], "{u}e = {u}m >> {u}o"),
    ("to_byte_fail", ["{u}m = 300"], "{u}e = {u}m.to_byte()"),
    ("to_int_fail_bigint", ["{u}m = B99999999999"], "{u}e = {u}m.to_int()"),
    ("to_int_fail_float", ["{u}m = 100000000000000000000.5"], "{u}e = {u}m.to_int()"),
    ("substring_range", ["{u}s = \"ab\""], "{u}e = {u}s.substring(1, 9)"),
    ("insert_range", ["{u}s = \"ab\""], "{u}e = {u}s.insert(\"x\", 9)"),
    ("delete_range", ["{u}s = \"ab\""], "{u}e = {u}s.delete(1, 9)"),
    # byte offsets that fall inside a multi-byte character
    ("split_inside_char", ["{u}s = \"añob\""], "print {u}s.split(2)"),
    ("substring_inside_char", ["{u}s = \"añob\""], "{u}e = {u}s.substring(2, 4)"),
    ("insert_inside_char", ["{u}s = \"añob\""], "{u}e = {u}s.insert(\"x\", 2)"),
    ("delete_inside_char", ["{u}s = \"añob\""], "{u}e = {u}s.delete(0, 2)"),
    ("remove_range", ["{u}lq: [int...] = [1, 2]"], "{u}e = {u}lq.remove(5)"),
    # round 9: the first offset past the valid range of every range-checked built-in (an inclusive / exclusive slip
    # shows at exactly that value)
    ("remove_at_len", ["{u}lq: [int...] = [1, 2, 3]", "{u}k = 3"], "{u}e = {u}lq.remove({u}k)"),
    ("remove_from_empty", ["{u}lq: [int...] = [1]", "{u}d = {u}lq.remove(0)"], "{u}e = {u}lq.remove(0)"),
    ("substring_end_len_plus_1", ["{u}s = \"ab\""], "{u}e = {u}s.substring(0, 3)"),
    ("substring_start_after_end", ["{u}s = \"abcd\""], "{u}e = {u}s.substring(3, 1)"),
    ("insert_at_len_plus_1", ["{u}s = \"ab\""], "{u}e = {u}s.insert(\"x\", 3)"),
    ("delete_end_len_plus_1", ["{u}s = \"ab\""], "{u}e = {u}s.delete(0, 3)"),
    ("str_index_at_len", ["{u}s = \"ab\"", "{u}k = 2"], "{u}e = {u}s[{u}k]"),
    ("pow_negative_exponent", ["{u}m = 2", "{u}o = -1"], "{u}e = {u}m.pow({u}o)"),
    ("pow_overflow", ["{u}m = B2", "{u}o = 200"], "{u}e = {u}m.pow({u}o)"),
    ("radix_invalid", ["{u}s = \"10\""], "{u}e = {u}s.parse_int_radix(99)"),
    ("map_empty_list", ["{u}lq: [int...] = [1]", "{u}d = {u}lq.remove(0)", "{u}cb = fn(q: int) -> int {{ return q }}"],
     "{u}e = {u}lq.map({u}cb)"),
]
FAIL_IDS = [f[0] for f in FAILS]
# `map` on an empty list is not a failure the language defines (C13); it is in the catalogue only as a
# regression probe and is dropped when it does not fail.
OPTIONAL_FAILS = {"map_empty_list"}

FRAME_KINDS = ["function", "closure", "method", "constructor", "via_map", "via_filter", "recursion"]
BLOCKS = ["none", "if", "else", "while", "from"]


def in_block(block, lines, ind, tail_return=None):
    """Wrap statement lines in a block context."""
    pad = "  " * ind
    if block == "none":
        return [pad + l for l in lines]
    inner = ["  " * (ind + 1) + l for l in lines]
    if block == "if":
        return [pad + "if 1 < 2 {"] + inner + [pad + "}"]
    if block == "else":
        return [pad + "if 2 < 1 {", "  " * (ind + 1) + "print \"never\"", pad + "} else {"] + inner + [pad + "}"]
    if block == "while":
        return [pad + "while 1 < 2 {"] + inner + ["  " * (ind + 1) + "break", pad + "}"]
    if block == "from":
        return [pad + "from 0 to 1 {"] + inner + [pad + "}"]
    raise ValueError(block)


def build_case(fail_idx, kinds, block, module_from=None, recursion_n=2):
    """kinds: frame kinds for levels 1..d (outermost first).  module_from: levels >= this live in `lib.ms`;
    module_from == 0: everything lives in lib.ms and is run by lib's own top-level code, i.e. the failure
    happens while the import statement of main.ms is still executing (module initialisation).
    Returns dict(files, expected_lines, expected_frames (innermost first, labels or ('anon', key)), fail line info)."""
    fid, setup, stmt = FAILS[fail_idx]
    d = len(kinds)
    main, lib = [], []
    expected_out = []
    frames = []          # outermost first: (file, label) ; label None = anonymous function identified by key

    def failing_lines(x, u):
        return [s.format(u=u, x=x) for s in setup] + [stmt.format(u=u, x=x)]

    # generate definitions innermost first
    defs = {}            # level -> (lines, where)
    call_of = {}         # level -> function taking arg expr and returning (pre_lines, call_expr)
    for lvl in range(d, 0, -1):
        kind = kinds[lvl - 1]
        where = "lib" if (module_from is not None and lvl >= module_from) else "main"
        u = "q%d" % lvl
        body = ["print \"enter %d\"" % lvl, "h%d_r = helper(x%d)" % (lvl, lvl)]
        x = "x%d" % lvl
        if lvl == d:
            inner = failing_lines(x, u)
            inner_block = in_block(block, inner, 0)
        else:
            pre, call = call_of[lvl + 1](x)
            inner_block = in_block(block if lvl % 2 == 0 else "none", pre + ["r%d = %s" % (lvl, call)], 0)
        lines = []
        if kind in ("function", "via_map", "via_filter"):
            rt = "bool" if kind == "via_filter" else "int"
            lines.append("f%d = fn(%s: int) -> %s {" % (lvl, x, rt))
            lines += ["  " + l for l in body + inner_block]
            lines.append("  return %s" % ("true" if kind == "via_filter" else "1"))
            lines.append("}")
        elif kind == "closure":
            lines.append("cap%d = %d" % (lvl, 100 + lvl))
            lines.append("f%d = fn(%s: int) -> int {" % (lvl, x))
            lines += ["  " + l for l in ["cc%d = cap%d" % (lvl, lvl)] + body + inner_block]
            lines.append("  return 1")
            lines.append("}")
        elif kind == "recursion":
            lines.append("f%d = fn(%s: int, n%d: int) -> int {" % (lvl, x, lvl))
            lines += ["  print \"rec %d\"" % lvl, "  if n%d > 0 {" % lvl, "    return self(%s, n%d - 1)" % (x, lvl), "  }"]
            lines += ["  " + l for l in body + inner_block]
            lines.append("  return 1")
            lines.append("}")
        elif kind == "method":
            lines.append("class K%d {" % lvl)
            lines.append("  v%d: int" % lvl)
            lines.append("  constructor(self, a%d: int) {" % lvl)
            lines.append("    self.v%d = a%d" % (lvl, lvl))
            lines.append("  }")
            lines.append("  fn m%d(self, %s: int) -> int {" % (lvl, x))
            lines += ["    " + l for l in body + inner_block]
            lines.append("    return 1")
            lines.append("  }")
            lines.append("}")
        elif kind == "constructor":
            lines.append("class C%d {" % lvl)
            lines.append("  v%d: int" % lvl)
            lines.append("  constructor(self, %s: int) {" % x)
            lines += ["    " + l for l in body + inner_block]
            lines.append("    self.v%d = 1" % lvl)
            lines.append("  }")
            lines.append("}")
        defs[lvl] = (lines, where, kind)

        def mk(lvl=lvl, kind=kind, where=where):
            def call(arg):
                # how the level above invokes this level
                caller_where = "lib" if (module_from is not None and lvl - 1 >= module_from) else "main"
                pfx = "lib." if (where == "lib" and caller_where == "main") else ""
                if kind in ("function", "closure"):
                    return [], "%sf%d(%s)" % (pfx, lvl, arg)
                if kind == "recursion":
                    return [], "%sf%d(%s, %d)" % (pfx, lvl, arg, recursion_n)
                if kind == "via_map":
                    return ["l%d: [int...] = [%s]" % (lvl, arg), "g%d = %sf%d" % (lvl, pfx, lvl)], "l%d.map(g%d)" % (lvl, lvl)
                if kind == "via_filter":
                    return ["l%d: [int...] = [%s]" % (lvl, arg), "g%d = %sf%d" % (lvl, pfx, lvl)], "l%d.filter(g%d)" % (lvl, lvl)
                if kind == "method":
                    return ["o%d = %sK%d(1)" % (lvl, pfx, lvl)], "o%d.m%d(%s)" % (lvl, lvl, arg)
                if kind == "constructor":
                    return [], "%sC%d(%s)" % (pfx, lvl, arg)
                raise ValueError(kind)
            return call
        call_of[lvl] = mk()

    helper = ["helper = fn(hx: int) -> int {", "  print \"helper\"", "  return hx + 1", "}"]
    main += helper
    uses_lib = module_from is not None and (module_from <= d or module_from == 0)
    # layout variety (positions reported for one file must not depend on what was compiled before it):
    # passing asserts earlier in main / in the imported module, behind headers of different line density
    layout = (fail_idx + d + (module_from or 0) + len(block)) % 6
    if layout % 2 == 0:
        main.append("assert 2 > 1")
    if uses_lib:
        if layout // 2 == 1:
            lib += ["# " + "long comment line " * 4] * 3
        elif layout // 2 == 2:
            lib += ["# c"] * 14
        lib += ["assert 1 < 2", "helper = fn(hx: int) -> int {", "  print \"helper\"", "  return hx + 1", "}"]
    for lvl in range(d, 0, -1):
        lines, where, kind = defs[lvl]
        if where == "lib":
            # exported with explicit types
            if kind in ("method", "constructor"):
                lines = ["export " + lines[0]] + lines[1:]
            else:
                sig = {"function": "fn(int) -> int", "closure": "fn(int) -> int", "via_map": "fn(int) -> int",
                       "via_filter": "fn(int) -> bool", "recursion": "fn(int, int) -> int"}[kind]
                for i, l in enumerate(lines):
                    if l.startswith("f%d = fn(" % lvl):
                        lines = lines[:i] + ["export f%d: %s = %s" % (lvl, sig, l.split(" = ", 1)[1])] + lines[i + 1:]
                        break
            lib += lines
        else:
            main += lines
    # module-level driver
    if uses_lib and module_from != 0:
        main = ["import lib"] + main
    main.append("print \"start\"")
    driver = main
    if module_from == 0:
        driver = lib
    if d == 0:
        driver += in_block(block, failing_lines("7", "q0"), 0)
    else:
        pre, call = call_of[1]("7")
        driver += pre + ["top_r = %s" % call]
    if module_from == 0:
        lib.append("print \"unreachable end of lib\"")
        main.append("import lib")
    main.append("print \"unreachable end\"")
    aux = None
    if not uses_lib and layout in (1, 2, 4):
        # a decoy module that is only imported: it holds a passing assert behind a header whose line density
        # differs from main.ms (what is reported for main.ms must not depend on files compiled before it)
        main = ["import aux"] + main
        aux = (["# c"] * 14 if layout != 2 else ["# " + "long comment line " * 4] * 2) + ["assert 1 < 2", "export auxv: int = 1"]
    files = {"main.ms": "\n".join(main) + "\n"}
    if uses_lib:
        files["lib.ms"] = "\n".join(lib) + "\n"
    if aux:
        files["aux.ms"] = "\n".join(aux) + "\n"
    # expected output and frames
    out = ["start"]
    fr = [("main.mmm", "__module__")]
    if module_from == 0:
        fr.append(("lib.mmm", "__module__"))
    for lvl in range(1, d + 1):
        kind = kinds[lvl - 1]
        where = "lib" if (module_from is not None and lvl >= module_from) else "main"
        f = where + ".mmm"
        if kind == "recursion":
            for i in range(recursion_n + 1):
                out.append("rec %d" % lvl)
                fr.append((f, ("anon", lvl)))
        elif kind == "method":
            fr.append((f, "K%d::m%d" % (lvl, lvl)))
        elif kind == "constructor":
            fr.append((f, "C%d" % lvl))
            fr.append((f, "C%d::$constructor" % lvl))
        else:
            fr.append((f, ("anon", lvl)))
        out.append("enter %d" % lvl)
        out.append("helper")
    # position of the assert
    pos = None
    if fid.startswith("assert"):
        target = stmt.format(u="q%d" % d, x=("x%d" % d if d else "7"))
        fname = "lib.ms" if (uses_lib and d >= module_from) else "main.ms"
        for i, l in enumerate(files[fname].split("\n")):
            if l.strip() == target:
                pos = (fname, i + 1, l.index("assert") + 1)
    return {"files": files, "expected_out": out, "expected_frames": list(reversed(fr)), "assert_pos": pos,
            "fail": fid, "kinds": kinds, "block": block, "module_from": module_from}


TRACE_LINE = re.compile(r"^\t(?:>>| \^) (.*?)\r?$")


def parse_report(text):
    """(pre_banner_text, [frame labels innermost first], message) or None."""
    if core.BANNER not in text:
        return None
    pre, rest = text.split(core.BANNER, 1)
    pre = pre.rsplit("\n*******", 1)[0] if pre.endswith("******* ") else pre
    frames = []
    for line in rest.split("\n"):
        m = TRACE_LINE.match(line)
        if m:
            frames.append(m.group(1))
    return pre, frames, rest


def is_block_or_native(label):
    return label in ("<if>", "<else>", "<while>") or label.startswith("<native code>#")


def judge(case):
    """Run the case; returns dict(deviations=[...], info)."""
    r, _, ex = core.run_program(case["files"], cpu=10, merge=True, trace=True)
    dev = []
    info = {"run": r.brief()}
    if r.cls in ("wall_timeout", "cpu_timeout", "spawn_error"):
        return {"inconclusive": r.cls}
    text = r.out
    if core.BANNER not in text and r.cls == "fail" and core.has_compile_diagnostics(text):
        return {"rejected": text[-500:]}
    if r.cls == "ok":
        if case["fail"] in OPTIONAL_FAILS:
            return {"not_a_failure": True}
        return {"deviations": ["no_failure(exit 0)"], "info": info}
    rep = parse_report(text)
    if r.cls == "panic" or rep is None:
        dev.append("panic_instead_of_report" if r.cls == "panic" else "no_report(%s)" % r.cls)
        # ordering can still be checked on what was printed
        lines = [l for l in text.split("\n")]
        got = [l for l in lines[:len(case["expected_out"])]]
        if got != case["expected_out"]:
            dev.append("output_before_failure_differs")
        return {"deviations": dev, "info": info}
    if r.rc != 1:
        dev.append("exit_status_%s" % r.rc)
    pre, frames, rest = rep
    pre_lines = [l for l in pre.split("\n") if l != ""]
    if pre_lines != case["expected_out"]:
        dev.append("output_before_failure_differs")
        info["expected_out"] = case["expected_out"]
        info["observed_out"] = pre_lines
    if "unreachable end" in rest:
        dev.append("continued_after_failure")
    # trace vs shadow stack
    fn_frames = [f for f in frames if not is_block_or_native(f)]
    shadow = tracecheck.active_stack_at_error(ex.get("trace", "")) if ex.get("trace") else None
    info["printed_frames"] = frames
    info["shadow_stack"] = shadow
    if shadow is None:
        return {"inconclusive": "trace hook recorded no error exit"}
    if fn_frames != shadow:
        dev.append("trace_differs_from_active_functions")
    # generator's chain: exact labels for methods/module, consistency for anonymous functions
    exp = case["expected_frames"]
    info["expected_frames"] = [str(e) for e in exp]
    if len(exp) != len(shadow):
        dev.append("active_functions_differ_from_call_chain")
    else:
        amap, rmap = {}, {}
        for (efile, elabel), got in zip(exp, shadow):
            gfile, _, gname = got.rpartition("#")
            if os.path.basename(gfile) != efile:
                dev.append("active_functions_differ_from_call_chain")
                break
            if isinstance(elabel, tuple):
                key = (efile, elabel)
                if amap.setdefault(key, gname) != gname or rmap.setdefault((efile, gname), key) != key:
                    dev.append("active_functions_differ_from_call_chain")
                    break
            elif gname != elabel:
                dev.append("active_functions_differ_from_call_chain")
                break
    if case["assert_pos"]:
        fname, line, col = case["assert_pos"]
        if "%s:%d:%d" % (fname, line, col) not in rest:
            dev.append("assert_position_missing")
            info["expected_position"] = "%s:%d:%d" % (fname, line, col)
    info["failure_class"] = list(core.classify_failure(r))     # informational: message wording is C02's business
    return {"deviations": sorted(set(dev)), "info": info}


def work(item):
    fail_idx, kinds, block, module_from, tag = item
    case = build_case(fail_idx, kinds, block, module_from)
    res = judge(case)
    res["item"] = [FAILS[fail_idx][0], list(kinds), block, module_from, tag]
    res["files"] = case["files"]
    return res


def gen_items(ctx):
    items = []
    nf = len(FAILS)
    # deterministic part 1: every failure kind at depth 0 and at depth 2 (function, method)
    for i in range(nf):
        items.append((i, (), "none", None, "cat"))
        items.append((i, ("function", "method"), "if", None, "cat"))
    # deterministic part 2: every frame kind x every depth 1..6 (chains of that kind and mixed), assert + div0
    for fi in (FAIL_IDS.index("assert"), FAIL_IDS.index("assert_after_non_ascii"), FAIL_IDS.index("div_zero_int")):
        for k in FRAME_KINDS:
            for d in (1, 2, 3, 6):
                items.append((fi, tuple([k] * d), BLOCKS[d % len(BLOCKS)], None, "cat"))
        for d in range(1, 7):
            chain = tuple(FRAME_KINDS[(j + d) % len(FRAME_KINDS)] for j in range(d))
            for mf in (None, 1, d, 0):
                items.append((fi, chain, BLOCKS[(d + 1) % len(BLOCKS)], mf, "cat"))
        for b in BLOCKS:
            items.append((fi, ("function", "closure", "method"), b, None, "cat"))
            items.append((fi, (), b, None, "cat"))
            items.append((fi, (), b, 0, "cat"))
            items.append((fi, ("function", "method"), b, 0, "cat"))
    ncat = len(items)
    rng = ctx.rng("chains")
    for _ in range(ctx.n(9000, 60000)):
        d = rng.randint(0, 6)
        kinds = tuple(rng.choice(FRAME_KINDS) for _ in range(d))
        mf = rng.choice([None, None, rng.randint(1, d), 0]) if d else rng.choice([None, None, 0])
        items.append((rng.randrange(nf), kinds, rng.choice(BLOCKS), mf, "rand"))
    return items, ncat


def run(ctx):
    out = core.Outcome()
    items, ncat = gen_items(ctx)
    results = core.pmap(work, items, chunksize=4)
    by_fail = {}
    depth_seen, kinds_seen = set(), set()
    rejected = 0
    frames_compared = 0
    for status, res in results:
        if status != "ok":
            out.inconclusive.append(str(res)[-400:])
            continue
        if "inconclusive" in res:
            out.inconclusive.append("%s: %s" % (res["item"], res["inconclusive"]))
            continue
        if "rejected" in res:
            rejected += 1
            if rejected <= 3:
                out.coverage.setdefault("rejected_examples", []).append({"item": res["item"], "msg": res["rejected"]})
            continue
        if res.get("not_a_failure"):
            continue
        out.evaluations += 1
        fid, kinds, block, mf, tag = res["item"]
        by_fail[fid] = by_fail.get(fid, 0) + 1
        depth_seen.add(len(kinds))
        kinds_seen.update(kinds)
        info = res.get("info", {})
        if info.get("shadow_stack"):
            frames_compared += len(info["shadow_stack"])
        if len(kinds) >= 2:
            out.distinct.add(core.h([fid, kinds, block, mf]))
        if len(out.samples) < 3 and len(kinds) >= 3 and not res["deviations"]:
            out.samples.append({"case": res["item"], "main.ms": res["files"]["main.ms"],
                                "printed_frames": info.get("printed_frames"), "shadow_stack": info.get("shadow_stack")})
        for dv in res["deviations"]:
            # panic-instead-of-report depends only on the failure kind; trace deviations on the chain
            if dv == "panic_instead_of_report" or dv.startswith("no_report"):
                sig = "C17:%s:%s" % (fid, dv)
            else:
                sig = "C17:%s:%s:%s" % (fid, dv, "/".join(kinds) if tag == "cat" else "random_chain")
            out.violations.append(core.Violation(sig, "failure `%s` at depth %d: %s" % (fid, len(kinds), dv),
                                                 {"files": res["files"], "case": res["item"], "deviation": dv, "info": info}))
    out.coverage.update({"executions_by_failure_kind": by_fail, "call_depths_seen": sorted(depth_seen),
                         "frame_kinds_seen": sorted(kinds_seen), "frames_compared_with_shadow_stack": frames_compared,
                         "catalogue_cases": ncat, "compiler_rejected_cases": rejected})
    out.rule = ("cases = failure kind (%d kinds) x call chain (depth 0-6 over %s, optionally continued in an imported "
                "module) x block context %s; deterministic catalogue of %d cases + seeded chains. Each run: merged "
                "stdout/stderr, exit status, printed trace vs. shadow call stack from H-TRACE vs. the generator's chain. "
                "Non-trivial/distinct = distinct (failure, chain, block, module split) with chain depth >= 2."
                % (len(FAILS), FRAME_KINDS, BLOCKS, ncat))
    out.assumptions = ["block frames (<if>/<else>/<while>) and <native code> frames are not 'functions and methods' and "
                       "are removed before comparing", "anonymous functions are compared by consistent labelling, methods "
                       "and the module by exact label"]
    if rejected > 0.02 * max(1, len(items)):
        out.observed_nothing = "%d of %d cases rejected by the compiler" % (rejected, len(items))
    if out.evaluations == 0:
        out.observed_nothing = "no failing execution observed"
    return out


def replay(path):
    with open(os.path.join(path, "case.json")) as f:
        case = json.load(f)
    fid, kinds, block, mf, tag = case["witness"]["case"]
    c = build_case(FAIL_IDS.index(fid), tuple(kinds), block, mf)
    res = judge(c)
    print(json.dumps(res, indent=1, default=str)[:4000])
    return 1 if res.get("deviations") else 0
