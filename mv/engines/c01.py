"""C01 — core statements and control flow execute per the language semantics.

Workload: seeded random programs + the systematic skeleton family of mv/cf.py; every condition that is a
driver decision is enumerated over all outcome vectors up to the decision bound.  Oracle: the reference
interpreter (cf.Model) predicts the exact stdout lines and the failure point."""
import json
import os
import random

from .. import core, cf

FAILKIND = {"assert": "assert", "zero_div": "zero_div", "index": "index"}


def check_path(src, expected):
    """Run one rendered program; returns None when it agrees with the model, else a problem dict."""
    dec, st, lines, fk = expected
    r, _, _ = core.run_program({"main.ms": src}, cpu=10)
    if r.cls in ("wall_timeout", "spawn_error"):
        return {"inconclusive": r.cls}
    if core.compile_rejected(r):
        return {"rejected": (r.out + r.err)[-600:]}
    got = r.lines()
    problem = None
    if r.cls == "cpu_timeout":
        problem = "hang"
    elif got != lines:
        problem = "output"
    elif st == 'ok' and r.cls != 'ok':
        problem = "unexpected_failure"
    elif st == 'fail' and r.cls == 'ok':
        problem = "missing_failure"
    elif st == 'fail':
        cls = core.classify_failure(r)
        if cls[0] in ("defined", "panic_defined") and cls[1] != FAILKIND[fk]:
            problem = "failure_kind"
        elif cls[0] not in ("defined", "panic_defined"):
            problem = "failure_kind"
    if problem is None:
        return None
    return {"problem": problem, "expected_lines": lines, "observed_lines": got, "expected_status": st,
            "expected_failure": fk, "run": r.brief(), "decisions": list(dec)}


def features(prog_shape, problem_paths, src):
    """Signature material: which constructs of a known-finding kind the program contains."""
    return sorted(set(s.split('@')[0] for s in prog_shape))


def work(item):
    kind, arg, max_dec, max_paths, salt = item
    if kind == "rand":
        prog, uses_take, shape = cf.gen_program(arg, max_depth=5, max_stmts=80)
        if arg % 4 == 2:
            # the whole program as the body of one function: its variables are locals, its functions are
            # closures over their siblings, every construct runs below a function frame
            prog = [('fn', 'wrap0', [], None, prog), ('expr', ('call', 'wrap0', []))]
            shape = ["wrapped"] + shape
    else:
        prog, uses_take, shape = arg
    paths, dropped = cf.enumerate_paths(prog, uses_take, max_dec, max_runs=3000)
    total_paths = len(paths)
    if len(paths) > max_paths:
        rng = random.Random(core.h([salt, shape]))
        # keep the longest and shortest vectors plus a seeded sample
        paths.sort(key=lambda p: (len(p[0]), p[0]))
        keep = paths[:2] + paths[-2:] + rng.sample(paths[2:-2], max_paths - 4)
        paths = keep
    nodes, depth = cf.count_nodes(prog)
    res = {"kind": kind, "shape": shape, "paths_total": total_paths, "dropped": dropped, "runs": 0, "agree": 0,
           "rejected": 0, "inconclusive": [], "problems": [], "nodes": nodes, "depth": depth,
           "fail_expected": 0, "stats": {}, "sample": None}
    # half of the random programs and the sys-prec family are printed with the fewest parentheses the
    # precedence table allows, so the grouping of operators is decided by the real parser
    minimal = shape[0] == "sys-prec" if kind != "rand" else arg % 2 == 1
    res["minimal_parentheses"] = minimal
    for p in paths:
        dec, st, lines, fk, stats = p
        src = cf.render(prog, dec, uses_take, minimal=minimal)
        out = check_path(src, (dec, st, lines, fk))
        res["runs"] += 1
        if st == 'fail':
            res["fail_expected"] += 1
        for k, v in stats.items():
            res["stats"][k] = res["stats"].get(k, 0) + v
        if out is None:
            res["agree"] += 1
            if res["sample"] is None and len(lines) > 6 and len(src) < 1500:
                res["sample"] = {"source": src, "decisions": list(dec), "expected_lines": lines[:40], "status": st}
        elif "inconclusive" in out:
            res["inconclusive"].append(out["inconclusive"])
        elif "rejected" in out:
            res["rejected"] += 1
            res["reject_msg"] = out["rejected"]
            res["reject_src"] = src
            break
        else:
            out["files"] = {"main.ms": src}
            res["problems"].append(out)
            if len(res["problems"]) >= 3:
                break
    return res


def signature(res, prob):
    shape = res["shape"]
    if shape and shape[0].startswith("sys"):
        return "C01:%s:%s" % ("/".join(shape), prob["problem"])
    return "C01:random:%s" % prob["problem"]


def run(ctx):
    out = core.Outcome()
    max_dec = ctx.n(8, 11)
    max_paths = ctx.n(10, 40)
    items = []
    sysprogs = cf.systematic_programs(2 if ctx.quick else 3)
    # quick: the complete two-level family (no sampling); thorough: three levels
    for p in sysprogs:
        items.append(("sys", p, max_dec, max_paths, ctx.seed))
    nrand = ctx.n(1500, 12000)
    base = ctx.seed * 1000003
    for i in range(nrand):
        items.append(("rand", base + i, max_dec, ctx.n(6, 16), ctx.seed))
    results = core.pmap(work, items, chunksize=4)
    agg = {"programs": 0, "paths_total": 0, "paths_dropped_over_bound": 0, "agree": 0, "rejected_programs": 0,
           "expected_failures": 0, "max_depth": 0, "max_nodes": 0}
    stats = {}
    shapes = set()
    rejected_examples = []
    for status, res in results:
        if status != "ok":
            out.inconclusive.append(str(res)[-500:])
            continue
        agg["programs"] += 1
        agg["programs_printed_with_minimal_parentheses"] = agg.get("programs_printed_with_minimal_parentheses", 0) + bool(res.get("minimal_parentheses"))
        agg["paths_total"] += res["paths_total"]
        agg["paths_dropped_over_bound"] += res["dropped"]
        agg["agree"] += res["agree"]
        agg["expected_failures"] += res["fail_expected"]
        agg["max_depth"] = max(agg["max_depth"], res["depth"])
        agg["max_nodes"] = max(agg["max_nodes"], res["nodes"])
        out.evaluations += res["runs"]
        out.inconclusive.extend(res["inconclusive"])
        for k, v in res["stats"].items():
            stats[k] = stats.get(k, 0) + v
        if res["rejected"]:
            agg["rejected_programs"] += 1
            if len(rejected_examples) < 3:
                rejected_examples.append({"msg": (res.get("reject_msg") or "")[:500]})
        sh = res["shape"]
        nontrivial = any(s.split(':')[0].split('@')[0] in ('while', 'from', 'wcount', 'fromnamed', 'fromcollide', 'sys-from')
                         or s.startswith('from') for s in sh) and res["agree"] + len(res["problems"]) > 0
        if nontrivial:
            out.distinct.add(core.h(sh))
        if res["sample"] and len(out.samples) < 3:
            out.samples.append(res["sample"])
        for prob in res["problems"]:
            out.violations.append(core.Violation(signature(res, prob),
                                                 "%s differs from the reference semantics (%s)" % (
                                                     "/".join(sh[:6]), prob["problem"]),
                                                 prob))
    agg["model_events"] = stats
    agg["rejected_examples"] = rejected_examples
    out.coverage.update(agg)
    out.rule = ("programs = systematic skeleton family (every construct nested in every other, 2%s levels, with "
                "break/continue/return at the innermost level; from-loop matrix to|through x step x counter kind x "
                "bounds x exit; sys-prec: every well-typed pair of binary/unary operators in both groupings, printed "
                "with the fewest parentheses) + seeded random programs (depth<=5, <=80 statements, every second one "
                "printed with minimal parentheses so the real parser decides the grouping, every fourth one wrapped "
                "whole into a function body); each program is run once per "
                "driver outcome vector (all vectors up to %d decisions, capped at %d per program). evaluations = "
                "executions of the real binary compared line-by-line with the model. Non-trivial/distinct = distinct "
                "construct-shape of a program that contains a loop and produced a comparable run."
                % ("-3" if not ctx.quick else "", max_dec, max_paths))
    out.assumptions = ["reference semantics of mv/cf.py (block scoping, counter kinds, truncating division) as in DESIGN §3 C01",
                       "bounds/steps never mention a colliding counter; loop counters are never assigned in the body",
                       "dev-profile build"]
    if agg["programs"] and agg["rejected_programs"] > 0.02 * agg["programs"]:
        out.observed_nothing = "%d of %d programs rejected by the compiler: generator out of the language" % (
            agg["rejected_programs"], agg["programs"])
    if out.evaluations == 0:
        out.observed_nothing = "no executions"
    return out


def replay(path):
    with open(os.path.join(path, "case.json")) as f:
        case = json.load(f)
    w = case["witness"]
    src = open(os.path.join(path, "files", "main.ms")).read()
    r, _, _ = core.run_program({"main.ms": src}, cpu=10)
    print("expected:", w["expected_status"], w["expected_lines"])
    print("observed:", r.cls, r.lines())
    ok = r.lines() == w["expected_lines"] and (r.cls == 'ok') == (w["expected_status"] == 'ok')
    print("AGREES" if ok else "DIFFERS")
    return 0 if ok else 1
