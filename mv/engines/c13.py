"""C13 — lists and maps are shared by reference and their operations match the sequence / finite-map model.

Workload: (a) a deterministic per-method boundary catalogue (method x empty / singleton / boundary index x element
type), (b) a deterministic callback sub-catalogue (side effects, mutation of the traversed list), (c) seeded
random histories of <= 12 operations over <= 3 containers and their aliases.  Every program prints, after every
step, `len` and the contents of every alias.  Oracle: mv/models/containers.py predicts the exact output; an
out-of-range operation must stop the program (any failure class), every in-range operation must succeed."""
import json
import os
import random
import re

from .. import core
from ..models import containers as C

SENTINEL = "@@AFTER@@"

ELEMS = ("int", "str", "opt", "nest")
ENAME = {"int": "int", "str": "str", "opt": "int?", "nest": "[int...]"}
INT_POOL = [-3, -1, 0, 1, 2, 3, 5, 7, 10, 42]
STR_POOL = ["", "a", "b", "ab", "a b", "Z", "q7"]
KEY_POOL = {"str": ["a", "b", "c", "d", ""], "int": [-1, 0, 1, 2, 7]}


def tname(t):
    if t[0] == "list":
        return "[%s...]" % ENAME[t[1]]
    return "map[%s, %s]" % (t[1], ENAME[t[2]])


def src(v):
    """Source text of a literal value."""
    if v is None:
        return "nil"
    if isinstance(v, bool):
        return "true" if v else "false"
    if isinstance(v, int):
        return str(v)
    if isinstance(v, str):
        return '"%s"' % v
    if isinstance(v, list):
        return "[" + ", ".join(src(x) for x in v) + "]"
    raise ValueError(v)


class Var(object):
    def __init__(self, name, t, obj):
        self.name, self.t, self.obj = name, t, obj

    @property
    def is_list(self):
        return self.t[0] == "list"

    @property
    def is_map(self):
        return self.t[0] == "map"

    @property
    def is_obj(self):
        return self.t[0] == "obj"

    @property
    def elem(self):
        if self.t[0] == "obj":
            return None
        return self.t[1] if self.t[0] == "list" else self.t[2]


class Place(object):
    """A value written as a *place expression* (index expression, map lookup, object field read, nested-list
    element).  `get()` reads the model at the moment the expression is evaluated: scalars and strings are copied
    into the sink, inner lists are shared with it (reference semantics of the statement)."""

    def __init__(self, text, getter, elem, label, origin=None):
        self.src, self.get, self.elem, self.label, self.origin = text, getter, elem, label, origin


def plain(v):
    return list(v) if isinstance(v, list) else v


OBJ_FIELDS = (("n", "int"), ("s", "str"), ("o", "opt"), ("items", "nest"))
CLASS_SRC = """class Box13 {
	n: int
	s: str
	o: int?
	items: [int...]
	constructor(self, pn13: int, ps13: str, po13: int?, pitems13: [int...]) {
		self.n = pn13
		self.s = ps13
		self.o = po13
		self.items = pitems13
	}
}"""


# callbacks: name -> (source template with {x} = parameter name, return type text, python function, result elem)
MAP_CB = {
    "int": [("x*2+1", "return {x} * 2 + 1", "int", lambda x: C.i32(x * 2 + 1), "int"),
            ("ident", "return {x}", "int", lambda x: x, "int"),
            ("to_str", 'return "s" + {x}', "str", lambda x: "s" + str(x), "str"),
            ("pair", "return [{x}, {x}]", "[int...]", lambda x: [x, x], "nest")],
    "str": [("bang", 'return {x} + "!"', "str", lambda x: x + "!", "str"),
            ("len", "return {x}.len()", "int", lambda x: len(x), "int")],
    "opt": [("ident", "return {x}", "int?", lambda x: x, "opt"),
            ("is_nil", "return {x} == nil", "bool", lambda x: x is None, None)],
    "nest": [("len", "return {x}.len()", "int", lambda x: len(x), "int"),
             ("ident", "return {x}", "[int...]", lambda x: x, "nest"),
             ("clone", "return {x}.clone()", "[int...]", lambda x: list(x), "nest")],
}
FILTER_CB = {
    "int": [("even", "return {x} % 2 == 0", lambda x: x % 2 == 0), ("gt1", "return {x} > 1", lambda x: x > 1),
            ("all", "return true", lambda x: True), ("none", "return false", lambda x: False)],
    "str": [("long", "return {x}.len() > 1", lambda x: len(x) > 1), ("is_a", 'return {x} == "a"', lambda x: x == "a"),
            ("all", "return true", lambda x: True)],
    "opt": [("is_nil", "return {x} == nil", lambda x: x is None), ("not_nil", "return {x} != nil", lambda x: x is not None),
            ("none", "return false", lambda x: False)],
    "nest": [("nonempty", "return {x}.len() > 0", lambda x: len(x) > 0), ("all", "return true", lambda x: True),
             ("is_1", "return {x} == [1]", lambda x: C.equal(x, [1]))],
}


class Gen(object):
    """Builds one program and, in lock step, the model's prediction of its output."""

    def __init__(self):
        self.body = []          # source lines
        self.funcs = {}         # helper name -> source
        self.exp = []           # expected output entries
        self.vars = []          # live aliases, creation order
        self.ops = []           # op kind per step
        self.failed = None      # step index of the expected (out-of-range) failure
        self.n = 0
        self.notes = set()      # features exercised (for coverage / non-triviality)
        self.open = {}          # open-semantics facts to *record* (join)

    # ---- plumbing
    def uid(self, prefix):
        self.n += 1
        return "%s%d" % (prefix, self.n)

    @property
    def step(self):
        return len(self.ops)

    def begin(self, op):
        self.ops.append(op)

    def emit(self, line):
        self.body.append(line)

    def expect(self, text, kind="result", var=None):
        self.exp.append({"step": self.step - 1, "op": self.ops[-1], "kind": kind, "mode": "exact", "text": text,
                         "var": var})

    def expect_multi(self, items, kind="result", var=None):
        self.exp.append({"step": self.step - 1, "op": self.ops[-1], "kind": kind, "mode": "multiset",
                         "items": C.multiset(items), "var": var})

    def model(self, thunk):
        try:
            return thunk()
        except C.Failure:
            self.failed = self.step - 1
            self.emit('print "%s"' % SENTINEL)
            return None

    def observe(self):
        for v in self.vars:
            if v.is_list:
                self.emit("print %s.len()" % v.name)
                self.expect(str(C.length(v.obj)), "state", v.name)
                self.emit("print %s" % v.name)
                self.expect(C.render(v.obj), "state", v.name)
            elif v.is_obj:                      # objects are never printed, only their fields
                for f, _ in OBJ_FIELDS:
                    self.emit("print %s.%s" % (v.name, f))
                    self.expect(C.render(v.obj[f]), "state", v.name)
            else:
                self.emit("print %s.len()" % v.name)
                self.expect(str(C.m_len(v.obj)), "state", v.name)
                self.emit("print %s.keys()" % v.name)
                self.expect_multi(C.m_keys(v.obj), "state", v.name)
                self.emit("print %s.values()" % v.name)
                self.expect_multi(C.m_values(v.obj), "state", v.name)

    def audit_maps(self):
        """Final step: read every key of the key universe through every map alias (pins the key->value mapping,
        which keys()/values() as multisets do not)."""
        maps = [v for v in self.vars if v.is_map]
        if not maps or self.failed is not None:
            return
        self.begin("map.audit")
        for v in maps:
            for k in KEY_POOL[v.t[1]] + sorted(k for k in v.obj if k not in KEY_POOL[v.t[1]]):
                self.emit("print %s[%s]" % (v.name, src(k)))
                self.expect(C.render(C.m_get(v.obj, k)), "state", v.name)

    def idx(self, i, via_var):
        if via_var == "big":                      # the index is a bigint variable
            name = self.uid("ix")
            self.emit("%s = %sB%d" % (name, "-" if i < 0 else "", abs(i)))
            return name
        if i < 0 or via_var:
            name = self.uid("ix")
            self.emit("%s = %d" % (name, i))
            return name
        return str(i)

    def add(self, name, t, obj):
        v = Var(name, t, obj)
        self.vars.append(v)
        return v

    def drop_obj(self, obj):
        self.vars = [v for v in self.vars if v.obj is not obj]

    def contained(self, obj):
        for v in self.vars:
            if v.is_obj:
                if v.obj["items"] is obj:
                    return True
                continue
            if v.elem != "nest":
                continue
            items = v.obj if v.is_list else list(v.obj.values())
            if any(e is obj for e in items):
                return True
        return False

    def distinct_objects(self):
        seen = []
        for v in self.vars:
            if not any(v.obj is o for o in seen):
                seen.append(v.obj)
        return len(seen)

    def source(self):
        head = []
        for name in sorted(self.funcs):
            head.append(self.funcs[name])
        return "\n".join(head + self.body) + "\n"

    # ---- creation / aliasing
    def new_list(self, elem, values, op="list.literal"):
        self.begin(op)
        name = self.uid("l")
        t = ("list", elem)
        self.emit("%s: %s = [%s]" % (name, tname(t), ", ".join(self.sv(x)[0] for x in values)))
        v = self.add(name, t, [self.sv(x)[1] for x in values])
        if any(isinstance(x, Place) for x in values):
            self.notes.add("place")
        self.observe()
        return v

    def sv(self, x):
        """(source text, model value) of a literal value or a Place."""
        if isinstance(x, Place):
            return x.src, x.get()
        return src(x), plain(x)

    # ---- places
    def p_index(self, var, i, via_var=False):
        return Place("%s[%s]" % (var.name, self.idx(i, via_var)), lambda: C.get(var.obj, i), var.elem,
                     "index_var" if via_var else "index_lit")

    def p_lookup(self, var, k):
        return Place("%s[%s]" % (var.name, src(k)), lambda: C.m_get(var.obj, k), var.elem, "map_lookup", var.obj)

    def p_field(self, var, f):
        return Place("%s.%s" % (var.name, f), lambda: var.obj[f], dict(OBJ_FIELDS)[f], "field")

    def p_index2(self, var, i, j, via_var=False):
        return Place("%s[%s][%s]" % (var.name, self.idx(i, via_var), self.idx(j, via_var)),
                     lambda: C.get(C.get(var.obj, i), j), "int", "nested_element")

    def p_lookup2(self, var, k, j):
        return Place("%s[%s][%d]" % (var.name, src(k), j), lambda: C.get(C.m_get(var.obj, k), j), "int",
                     "map_of_lists_element")

    # ---- objects (sources of field places; shared by reference)
    def new_obj(self, n, s, o, items):
        self.begin("object.new")
        self.funcs["A_class"] = CLASS_SRC
        name = self.uid("ob")
        text, val = (items.name, items.obj) if isinstance(items, Var) else (src(items), list(items))
        self.emit("%s = Box13(%s, %s, %s, %s)" % (name, src(n), src(s), src(o), text))
        v = self.add(name, ("obj",), {"n": n, "s": s, "o": o, "items": val})
        self.observe()
        return v

    def o_set(self, var, f, val, mode="lit"):
        self.begin("object.field_write")
        self._cur_elem = dict(OBJ_FIELDS)[f]
        s, obj = self.value_src(val, mode)
        self.emit("%s.%s = %s" % (var.name, f, s))
        var.obj[f] = obj
        self.observe()

    def o_opassign(self, var, f, op, operand):
        self.begin("object.field_opassign")
        s, val = self.sv(operand)
        self.emit("%s.%s %s= %s" % (var.name, f, op, s))
        var.obj[f] = C.apply_op(op, var.obj[f], val)
        self.observe()

    def o_fetch(self, var):
        self.begin("object.fetch_items")
        name = self.uid("oi")
        self.emit("%s = %s.items" % (name, var.name))
        v = self.add(name, ("list", "int"), var.obj["items"])
        self.notes.add("nested_alias")
        self.observe()
        return v

    def new_map(self, kt, vt, items):
        """items: [(key, value)]; keys and values may be Places."""
        self.begin("map.literal")
        name = self.uid("m")
        t = ("map", kt, vt)
        obj = {}
        if not items:
            self.emit("%s = %s" % (name, tname(t)))
        else:
            parts = []
            for k, val in items:
                ks, kv = self.sv(k)
                if isinstance(k, Place) or isinstance(val, Place):
                    self.notes.add("place")
                if vt == "opt" and val is not None and not isinstance(val, Place):
                    tmp = self.uid("ov")
                    self.emit("%s: int? = %s" % (tmp, src(val)))
                    parts.append("%s: %s" % (ks, tmp))
                    obj[kv] = val
                else:
                    vs, vv = self.sv(val)
                    parts.append("%s: %s" % (ks, vs))
                    obj[kv] = vv
            self.emit("%s = %s { %s }" % (name, tname(t), ", ".join(parts)))
        v = self.add(name, t, obj)
        self.observe()
        return v

    def alias(self, var):
        self.begin("alias")
        name = self.uid("al")
        self.emit("%s = %s" % (name, var.name))
        v = self.add(name, var.t, var.obj)
        self.notes.add("alias")
        self.observe()
        return v

    # ---- list operations
    def value_src(self, val, mode):
        """mode: lit | typedvar (bind to a typed variable first) | Var (an existing container variable)."""
        if isinstance(mode, Var):
            return mode.name, mode.obj
        if isinstance(mode, Place):
            self.notes.add("place")
            return mode.src, mode.get()
        if mode == "typedvar":
            tmp = self.uid("tv")
            self.emit("%s: %s = %s" % (tmp, ENAME[self._cur_elem], src(val)))
            return tmp, (list(val) if isinstance(val, list) else val)
        return src(val), (list(val) if isinstance(val, list) else val)

    def l_push(self, var, val, mode="lit"):
        self.begin("list.push")
        self._cur_elem = var.elem
        if mode == "elem":                       # push(l[i]): the argument is an element pointer
            s, obj = "%s[%d]" % (var.name, val), C.get(var.obj, val)
        else:
            s, obj = self.value_src(val, mode)
        if isinstance(mode, Var):
            self.notes.add("nested_store")
        self.emit("%s.push(%s)" % (var.name, s))
        C.push(var.obj, obj)
        self.observe()

    def l_remove(self, var, i, via_var=False, bind=False):
        self.begin("list.remove")
        if bind:                                   # nested lists: the removed inner list is still shared
            name = self.uid("rm")
            self.emit("%s = %s.remove(%s)" % (name, var.name, self.idx(i, via_var)))
        else:
            self.emit("print %s.remove(%s)" % (var.name, self.idx(i, via_var)))
        r = self.model(lambda: C.remove(var.obj, i))
        if self.failed is not None:
            return None
        if bind:
            self.notes.add("nested_alias")
            r = self.add(name, ("list", "int"), r)
        else:
            self.expect(C.render(r))
        self.observe()
        return r

    def l_read(self, var, i, via_var=False):
        self.begin("list.index")
        self.emit("print %s[%s]" % (var.name, self.idx(i, via_var)))
        r = self.model(lambda: C.get(var.obj, i))
        if self.failed is not None:
            return
        self.expect(C.render(r))
        self.observe()

    def l_assign(self, var, i, val, via_var=False, mode="lit"):
        self.begin("list.assign")
        self._cur_elem = var.elem
        ix = self.idx(i, via_var)
        if mode == "elem":
            s, obj = "%s[%d]" % (var.name, val), C.get(var.obj, val)
        else:
            s, obj = self.value_src(val, mode)
        if isinstance(mode, Var):
            self.notes.add("nested_store")
        self.emit("%s[%s] = %s" % (var.name, ix, s))
        self.model(lambda: C.set_(var.obj, i, obj))
        if self.failed is not None:
            return
        self.observe()

    def l_opassign(self, var, i, op, operand, via_var=False):
        self.begin("list.opassign")
        os_, ov = self.sv(operand)
        self.emit("%s[%s] %s= %s" % (var.name, self.idx(i, via_var), op, os_))
        self.model(lambda: C.op_assign(var.obj, i, op, ov))
        if self.failed is not None:
            return
        self.observe()

    def l_reverse(self, var):
        self.begin("list.reverse")
        self.emit("%s.reverse()" % var.name)
        C.reverse(var.obj)
        self.observe()

    def l_clear(self, var):
        self.begin("list.clear")
        self.emit("%s.clear()" % var.name)
        C.clear(var.obj)
        self.observe()

    def l_len(self, var):
        self.begin("list.len")
        self.emit("print %s.len()" % var.name)
        self.expect(str(C.length(var.obj)))
        self.observe()

    def l_clone(self, var, bind=True):
        self.begin("list.clone")
        c = C.clone(var.obj)
        if bind:
            name = self.uid("cl")
            self.emit("%s = %s.clone()" % (name, var.name))
            self.add(name, var.t, c)
            self.notes.add("clone")
        else:
            self.emit("print %s.clone()" % var.name)
            self.expect(C.render(c))
        self.observe()

    def l_join(self, var, arg):
        """arg: a Var (consumed: every alias of it leaves the program) or a python list (literal)."""
        self.begin("list.join")
        if isinstance(arg, Var):
            self.emit("print %s.join(%s)" % (var.name, arg.name))
            argobj = arg.obj
        else:
            self.emit("print %s.join([%s])" % (var.name, ", ".join(self.sv(x)[0] for x in arg)))
            argobj = [self.sv(x)[1] for x in arg]
        r = C.join(var.obj, argobj)
        self.expect(C.render(r))
        if isinstance(arg, Var):
            self.drop_obj(argobj)
        self.observe()

    def _callback(self, elem, body_tpl, ret, extra_lines=()):
        x = self.uid("cb")
        lines = ["fn(%s: %s) -> %s {" % (x, ENAME[elem], ret)]
        for l in extra_lines:
            lines.append("  " + l.replace("{x}", x))
        lines.append("  " + body_tpl.replace("{x}", x))
        lines.append("}")
        return "\n".join(lines)

    def l_map(self, var, which, bind=False):
        self.begin("list.map")
        name, tpl, ret, pyf, relem = MAP_CB[var.elem][which]
        cb = self._callback(var.elem, tpl, ret)
        bind = bind and relem is not None
        if bind:
            nm = self.uid("mp")
            self.emit("%s: %s = %s.map(%s)" % (nm, tname(("list", relem)), var.name, cb))
        else:
            self.emit("print %s.map(%s)" % (var.name, cb))
        r = self.model(lambda: C.map_(var.obj, pyf))
        if self.failed is not None:
            return
        if bind:
            self.add(nm, ("list", relem), r)
        else:
            self.expect(C.render(r))
        self.observe()

    def l_map_factory_closure(self, var, filt=False):
        """map / filter with a callback that a FACTORY returned (its captured variable lives in no active frame);
        a module-level variable of the same name holds another value.  Every element's call sees the capture."""
        self.begin("list.filter_factory_closure" if filt else "list.map_factory_closure")
        k, mk, cb = self.uid("kq"), self.uid("mkq"), self.uid("cbq")
        self.emit("%s = 100" % k)
        if filt:
            self.emit("%s = fn(%s: int) -> fn(int) -> bool {\n  return fn(x: int) -> bool {\n    return x > %s\n  }\n}" % (mk, k, k))
            self.emit("%s = %s(1)" % (cb, mk))
            self.emit("print %s.filter(%s)" % (var.name, cb))
            r = self.model(lambda: C.filter_(var.obj, lambda x: x > 1))
        else:
            self.emit("%s = fn(%s: int) -> fn(int) -> int {\n  return fn(x: int) -> int {\n    return x * %s\n  }\n}" % (mk, k, k))
            self.emit("%s = %s(3)" % (cb, mk))
            self.emit("print %s.map(%s)" % (var.name, cb))
            r = self.model(lambda: C.map_(var.obj, lambda x: C.i32(x * 3)))
        if self.failed is not None:
            return
        self.expect(C.render(r))
        self.emit("print %s" % k)
        self.expect("100")
        self.observe()

    def l_map_place(self, var, kind, target, arg=None):
        """`r = l.map(fn(x) { return <place read> })`: index (target[x]), inner (target[x], inner lists, shared),
        lookup (target[arg]), field (target.arg).  The result list must hold values, not pointers."""
        self.begin("list.map_returning_" + kind)
        if kind in ("index", "inner"):
            relem = target.elem
            tpl, pyf = "return %s[{x}]" % target.name, (lambda x: C.get(target.obj, x))
        elif kind == "lookup":
            relem = target.elem
            tpl, pyf = "return %s[%s]" % (target.name, src(arg)), (lambda x: C.m_get(target.obj, arg))
        else:
            relem = dict(OBJ_FIELDS)[arg]
            tpl, pyf = "return %s.%s" % (target.name, arg), (lambda x: target.obj[arg])
        cb = self._callback(var.elem, tpl, ENAME[relem])
        nm = self.uid("mp")
        self.emit("%s: %s = %s.map(%s)" % (nm, tname(("list", relem)), var.name, cb))
        r = self.model(lambda: C.map_(var.obj, pyf))
        if self.failed is not None:
            return None
        self.notes.add("place")
        v = self.add(nm, ("list", relem), r)
        self.observe()
        return v

    def l_filter(self, var, which, bind=False):
        self.begin("list.filter")
        name, tpl, pyf = FILTER_CB[var.elem][which]
        cb = self._callback(var.elem, tpl, "bool")
        if bind:
            nm = self.uid("fl")
            self.emit("%s = %s.filter(%s)" % (nm, var.name, cb))
        else:
            self.emit("print %s.filter(%s)" % (var.name, cb))
        r = self.model(lambda: C.filter_(var.obj, pyf))
        if self.failed is not None:
            return
        if bind:
            self.add(nm, var.t, r)
        else:
            self.expect(C.render(r))
        self.observe()

    def l_index_of(self, var, val, mode="lit"):
        self.begin("list.index_of")
        self._cur_elem = var.elem
        s, obj = self.value_src(val, mode)
        self.emit("print %s.index_of(%s)" % (var.name, s))
        self.expect(C.render(C.index_of(var.obj, obj)))
        self.observe()

    def l_eq(self, var, other, typed=True):
        """other: a Var, or a python list (compared through a typed temporary or as an inline literal)."""
        self.begin("list.eq")
        if isinstance(other, Var):
            self.emit("print %s == %s" % (var.name, other.name))
            r = C.equal(var.obj, other.obj)
        elif typed:
            tmp = self.uid("eq")
            self.emit("%s: %s = %s" % (tmp, tname(var.t), src(other)))
            self.emit("print %s == %s" % (var.name, tmp))
            r = C.equal(var.obj, other)
        else:
            self.emit("print %s == %s" % (var.name, src(other)))
            r = C.equal(var.obj, other)
        self.expect(C.render(r))
        self.observe()

    def l_concat(self, var, i, j, bind=False):
        self.begin("list.concat")
        si, sj = self.idx(i, False), self.idx(j, False)
        if bind:
            a, b = self.uid("ce"), self.uid("ce")
            self.emit("%s = %s[%s]" % (a, var.name, si))
            self.emit("%s = %s[%s]" % (b, var.name, sj))
            self.emit('print "<" + %s + "|" + %s + ">"' % (a, b))
        else:
            self.emit('print "<" + %s[%s] + "|" + %s[%s] + ">"' % (var.name, si, var.name, sj))
        r = self.model(lambda: "<" + C.to_text(C.get(var.obj, i)) + "|" + C.to_text(C.get(var.obj, j)) + ">")
        if self.failed is not None:
            return
        self.expect(r)
        self.observe()

    def l_push_wrapped(self, var, val):
        """`k = l.index_of(v)` then `l.push(k)` on an [int?...] list: the pushed value is an `int?` produced by a
        built-in (internally a wrapped optional)."""
        self.begin("list.push_index_of_result")
        k = self.uid("wk")
        self.emit("%s = %s.index_of(%s)" % (k, var.name, src(val)))
        self.emit("%s.push(%s)" % (var.name, k))
        C.push(var.obj, C.index_of(var.obj, val))
        self.observe()

    # ---- nested lists
    def n_fetch(self, var, i, via_var=False):
        self.begin("nested.fetch")
        name = self.uid("in")
        self.emit("%s = %s[%s]" % (name, var.name, self.idx(i, via_var)))
        r = self.model(lambda: C.get(var.obj, i))
        if self.failed is not None:
            return None
        v = self.add(name, ("list", "int"), r)
        self.notes.add("nested_alias")
        self.observe()
        return v

    def n_read2(self, var, i, j, via_var=False):
        self.begin("nested.index2")
        self.emit("print %s[%s][%s]" % (var.name, self.idx(i, via_var), self.idx(j, via_var)))
        r = self.model(lambda: C.get(C.get(var.obj, i), j))
        if self.failed is not None:
            return
        self.expect(C.render(r))
        self.observe()

    def n_assign2(self, var, i, j, val, via_var=False):
        self.begin("nested.assign2")
        self.emit("%s[%s][%s] = %s" % (var.name, self.idx(i, via_var), self.idx(j, via_var), src(val)))
        self.model(lambda: C.set_(C.get(var.obj, i), j, val))
        if self.failed is not None:
            return
        self.observe()

    def n_opassign2(self, var, i, j, op, operand, via_var=False):
        self.begin("nested.opassign2")
        self.emit("%s[%s][%s] %s= %s" % (var.name, self.idx(i, via_var), self.idx(j, via_var), op, src(operand)))
        self.model(lambda: C.op_assign(C.get(var.obj, i), j, op, operand))
        if self.failed is not None:
            return
        self.observe()

    # ---- passing to functions that mutate the parameter
    def call_mut(self, var, kind, *args):
        """kind (lists): push set0 set_at clear reverse pop_last alias_push store inner_push;
        (maps): mset mremove mclear."""
        self.begin(("list" if var.is_list else "map") + ".call_" + kind)
        tag = "%s_%s" % (kind, "_".join(var.t))
        fname = "mut_" + tag
        p, a, b, loc = "p_" + tag, "a_" + tag, "b_" + tag, "t_" + tag
        T, E = tname(var.t), ENAME[var.elem]
        o = var.obj
        if kind == "push":
            sig, body, act = "%s: %s, %s: %s" % (p, T, a, E), ["%s.push(%s)" % (p, a)], lambda: C.push(o, args[0])
        elif kind == "set0":
            sig, body, act = "%s: %s, %s: %s" % (p, T, a, E), ["%s[0] = %s" % (p, a)], lambda: C.set_(o, 0, args[0])
        elif kind == "set_at":
            sig, body = "%s: %s, %s: int, %s: %s" % (p, T, a, b, E), ["%s[%s] = %s" % (p, a, b)]
            act = lambda: C.set_(o, args[0], args[1])
        elif kind == "clear":
            sig, body, act = "%s: %s" % (p, T), ["%s.clear()" % p], lambda: C.clear(o)
        elif kind == "reverse":
            sig, body, act = "%s: %s" % (p, T), ["%s.reverse()" % p], lambda: C.reverse(o)
        elif kind == "pop_last":
            sig = "%s: %s" % (p, T)
            body = ["%s = %s.len() - 1" % (a, p), "%s = %s.remove(%s)" % (loc, p, a)]
            act = lambda: C.remove(o, len(o) - 1)
        elif kind == "alias_push":
            sig, body = "%s: %s, %s: %s" % (p, T, a, E), ["%s = %s" % (loc, p), "%s.push(%s)" % (loc, a)]
            act = lambda: C.push(o, args[0])
        elif kind == "store":                      # nested: store the second parameter inside the first
            sig, body = "%s: %s, %s: [int...]" % (p, T, a), ["%s.push(%s)" % (p, a)]
            act = lambda: C.push(o, args[0].obj)
        elif kind == "inner_push":
            sig = "%s: %s, %s: int, %s: int" % (p, T, a, b)
            body = ["%s = %s[%s]" % (loc, p, a), "%s.push(%s)" % (loc, b)]
            act = lambda: C.push(C.get(o, args[0]), args[1])
        elif kind == "mset":
            sig, body = "%s: %s, %s: %s, %s: %s" % (p, T, a, var.t[1], b, E), ["%s[%s] = %s" % (p, a, b)]
            act = lambda: C.m_set(o, args[0], list(args[1]) if isinstance(args[1], list) else args[1])
        elif kind == "mremove":
            sig, body = "%s: %s, %s: %s" % (p, T, a, var.t[1]), ["%s = %s.remove(%s)" % (loc, p, a)]
            act = lambda: C.m_remove(o, args[0])
        elif kind == "mclear":
            sig, body, act = "%s: %s" % (p, T), ["%s.clear()" % p], lambda: C.m_clear(o)
        else:
            raise ValueError(kind)
        self.funcs[fname] = "%s = fn(%s) -> int {\n%s\n  return %s.len()\n}" % (
            fname, sig, "\n".join("  " + l for l in body), p)
        argsrc = [var.name] + [x.name if isinstance(x, Var) else src(x) for x in args]
        self.emit("print %s(%s)" % (fname, ", ".join(argsrc)))
        self.notes.add("param_alias")
        self.model(act)
        if self.failed is not None:
            return
        self.expect(str(len(o)))
        self.observe()

    # ---- map operations
    def m_read(self, var, k):
        self.begin("map.index")
        ks, kv = self.sv(k)
        self.emit("print %s[%s]" % (var.name, ks))
        self.expect(C.render(C.m_get(var.obj, kv)))
        self.observe()

    def m_fetch(self, var, k):
        """`r = m[k]` for a present key of a map of lists: r aliases the stored list."""
        self.begin("map.fetch")
        name = self.uid("mf")
        self.emit("%s = %s[%s]" % (name, var.name, src(k)))
        v = self.add(name, ("list", "int"), C.m_get(var.obj, k))
        self.notes.add("nested_alias")
        self.observe()
        return v

    def m_opassign(self, var, k, op, operand):
        """`m[k] op= v` on a present key (an absent key reads nil: no defined arithmetic)."""
        self.begin("map.opassign")
        ks, kv = self.sv(k)
        os_, ov = self.sv(operand)
        self.emit("%s[%s] %s= %s" % (var.name, ks, op, os_))
        C.m_set(var.obj, kv, C.apply_op(op, C.m_get(var.obj, kv), ov))
        self.observe()

    def m_read2(self, var, k, j, via_var=False):
        self.begin("map.index2")
        self.emit("print %s[%s][%s]" % (var.name, src(k), self.idx(j, via_var)))
        r = self.model(lambda: C.get(C.m_get(var.obj, k), j))
        if self.failed is not None:
            return
        self.expect(C.render(r))
        self.observe()

    def m_assign2(self, var, k, j, val, via_var=False):
        self.begin("map.assign2")
        self.emit("%s[%s][%s] = %s" % (var.name, src(k), self.idx(j, via_var), src(val)))
        self.model(lambda: C.set_(C.m_get(var.obj, k), j, val))
        if self.failed is not None:
            return
        self.observe()

    def m_opassign2(self, var, k, j, op, operand, via_var=False):
        self.begin("map.opassign2")
        self.emit("%s[%s][%s] %s= %s" % (var.name, src(k), self.idx(j, via_var), op, src(operand)))
        self.model(lambda: C.op_assign(C.m_get(var.obj, k), j, op, operand))
        if self.failed is not None:
            return
        self.observe()

    def m_assign(self, var, k, val, mode="lit"):
        self.begin("map.assign")
        ks, kv = self.sv(k)
        self._cur_elem = var.elem
        s, obj = self.value_src(val, mode)
        if isinstance(mode, Var):
            self.notes.add("nested_store")
        self.emit("%s[%s] = %s" % (var.name, ks, s))
        C.m_set(var.obj, kv, obj)
        self.observe()

    def m_replace(self, var, k, val, mode="lit"):
        self.begin("map.replace")
        ks, kv = self.sv(k)
        self._cur_elem = var.elem
        s, obj = self.value_src(val, mode)
        self.emit("print %s.replace(%s, %s)" % (var.name, ks, s))
        self.expect(C.render(C.m_replace(var.obj, kv, obj)))
        self.observe()

    def m_remove(self, var, k):
        self.begin("map.remove")
        ks, kv = self.sv(k)
        self.emit("print %s.remove(%s)" % (var.name, ks))
        self.expect(C.render(C.m_remove(var.obj, kv)))
        self.observe()

    def m_contains(self, var, k):
        self.begin("map.contains_key")
        ks, kv = self.sv(k)
        self.emit("print %s.contains_key(%s)" % (var.name, ks))
        self.expect(C.render(C.m_contains(var.obj, kv)))
        self.observe()

    def m_len(self, var):
        self.begin("map.len")
        self.emit("print %s.len()" % var.name)
        self.expect(str(C.m_len(var.obj)))
        self.observe()

    def m_view(self, var, which):
        self.begin("map." + which)
        self.emit("print %s.%s()" % (var.name, which))
        self.expect_multi({"keys": C.m_keys, "values": C.m_values, "pairs": C.m_pairs}[which](var.obj))
        self.observe()

    def m_clear(self, var):
        self.begin("map.clear")
        self.emit("%s.clear()" % var.name)
        C.m_clear(var.obj)
        self.observe()

    def m_clone(self, var):
        self.begin("map.clone")
        name = self.uid("mc")
        self.emit("%s = %s.clone()" % (name, var.name))
        self.add(name, var.t, C.m_clone(var.obj))
        self.notes.add("clone")
        self.observe()

    def raw(self, op, lines, expects):
        """Hand-written step (sub-catalogues): source lines + expected exact output lines; no model call."""
        self.begin(op)
        for l in lines:
            self.emit(l)
        for e in expects:
            self.expect(e)


# ----------------------------------------------------------------------------- execution + comparison

def package(g, case_id, kind):
    return {"id": case_id, "kind": kind, "source": g.source(), "expected": g.exp, "ops": g.ops,
            "fail_step": g.failed, "notes": sorted(g.notes)}


def line_matches(e, got):
    if e["mode"] == "exact":
        return got == e["text"]
    try:
        v = C.parse(got)
    except C.ParseError:
        return False
    return isinstance(v, list) and C.multiset(v) == e["items"]


def _failure(r):
    return [re.sub(r"\(\d+\) panicked", "(tid) panicked", str(x)) for x in core.classify_failure(r)]


def compare(case, r):
    """Returns None (agrees) or a deviation dict {class, step, op, ...}."""
    exp, ops, fail_step = case["expected"], case["ops"], case["fail_step"]
    got = r.lines()
    if r.cls == "cpu_timeout":
        return {"class": "hang", "step": None, "op": ops[-1] if ops else "?"}
    sentinel = SENTINEL in got
    if sentinel:
        got = got[:got.index(SENTINEL)]
    for n, e in enumerate(exp):
        if n >= len(got):
            # output ended early
            if r.cls == "ok" and not sentinel:
                return {"class": "missing_output", "step": e["step"], "op": e["op"], "line": n}
            if sentinel:
                return {"class": "missing_output", "step": e["step"], "op": e["op"], "line": n}
            return {"class": "unexpected_failure", "step": e["step"], "op": e["op"], "line": n,
                    "failure": _failure(r)}
        if not line_matches(e, got[n]):
            cls = "wrong_result" if e["kind"] == "result" else "wrong_state"
            if cls == "wrong_state":
                # two aliases of one object that disagree with each other => alias divergence
                same = [k for k, f in enumerate(exp) if f["step"] == e["step"] and f["kind"] == "state"
                        and f["mode"] == e["mode"] and f.get("text") == e.get("text") and f.get("items") == e.get("items")
                        and k < len(got)]
                if len({got[k] for k in same}) > 1 and e["mode"] == "exact":
                    cls = "alias_diverged"
            return {"class": cls, "step": e["step"], "op": e["op"], "line": n,
                    "expected_line": e.get("text", e.get("items")), "observed_line": got[n], "var": e.get("var")}
    if len(got) > len(exp):
        op = ops[fail_step] if fail_step is not None else (ops[-1] if ops else "?")
        cls = "missing_failure" if fail_step is not None else "extra_output"
        return {"class": cls, "step": fail_step, "op": op, "line": len(exp), "observed_line": got[len(exp)]}
    if fail_step is not None:
        if r.cls == "ok" or sentinel:
            return {"class": "missing_failure", "step": fail_step, "op": ops[fail_step]}
        return None
    if r.cls != "ok":
        return {"class": "unexpected_failure", "step": len(ops) - 1, "op": ops[-1] if ops else "?",
                "failure": _failure(r)}
    return None


def execute(case):
    r, _, _ = core.run_program({"main.ms": case["source"]}, cpu=10, tag="c13")
    if r.cls in ("wall_timeout", "spawn_error"):
        return {"inconclusive": "%s on %s" % (r.cls, case["id"])}
    if core.compile_rejected(r):
        return {"rejected": (r.out + r.err)[-500:], "source": case["source"]}
    dev = compare(case, r)
    out = {"failure_class": None}
    if case["fail_step"] is not None and dev is None:
        out["failure_class"] = "/".join(core.classify_failure(r)[:2]) if r.cls != "ok" else None
    if dev is not None:
        dev["run"] = r.brief()
        dev["run"].pop("cpu", None)
        dev["run"]["err"] = re.sub(r"\(\d+\) panicked", "(tid) panicked", dev["run"]["err"])   # stable witness hash
        out["deviation"] = dev
    out["observed"] = r.lines()[:400] if dev is not None else None
    return out


# ----------------------------------------------------------------------------- random histories

def rand_value(rng, elem):
    if elem == "int":
        return rng.choice(INT_POOL)
    if elem == "str":
        return rng.choice(STR_POOL)
    if elem == "opt":
        return None if rng.random() < 0.35 else rng.choice(INT_POOL)
    return [rng.choice(INT_POOL[2:7]) for _ in range(rng.choice([0, 1, 1, 2, 3]))]


def rand_values(rng, elem):
    n = rng.choice([0, 0, 1, 1, 2, 2, 3, 3, 4])
    return [rand_value(rng, elem) for _ in range(n)]


def pick_index(rng, n, p_oob=0.06):
    """Boundary-heavy index choice: {-1, 0, len-1, len, len+1} plus a random in-range one."""
    if n == 0 or rng.random() < p_oob:
        return rng.choice([-1, n, n + 1] + ([0] if n == 0 else []))
    return rng.choice([0, n - 1, rng.randrange(n)])


def weighted(rng, table):
    total = sum(w for w, _ in table)
    x = rng.random() * total
    for w, item in table:
        x -= w
        if x <= 0:
            return item
    return table[-1][1]


def rand_place(g, rng, elem):
    """A place expression of element type `elem` that is readable right now (in range / present key), or None."""
    c = []
    for v in g.vars:
        if v.is_list and v.elem == elem and v.obj:
            c.append(lambda v=v: g.p_index(v, rng.randrange(len(v.obj)), rng.random() < 0.5))
        elif v.is_map and v.elem == elem and v.obj:
            c.append(lambda v=v: g.p_lookup(v, rng.choice(list(v.obj))))
        elif v.is_obj:
            f = {"int": "n", "str": "s", "opt": "o", "nest": "items"}[elem]
            c.append(lambda v=v, f=f: g.p_field(v, f))
        if elem == "int" and v.is_list and v.elem == "nest" and any(v.obj):
            i = rng.choice([k for k, x in enumerate(v.obj) if x])
            c.append(lambda v=v, i=i: g.p_index2(v, i, rng.randrange(len(v.obj[i])), rng.random() < 0.5))
        if elem == "int" and v.is_map and v.elem == "nest" and any(v.obj.values()):
            k = rng.choice([k for k, x in v.obj.items() if x])
            c.append(lambda v=v, k=k: g.p_lookup2(v, k, rng.randrange(len(v.obj[k]))))
    return rng.choice(c)() if c else None


def maybe_place(g, rng, elem, p=0.3):
    return rand_place(g, rng, elem) if rng.random() < p else None


def create_random(g, rng):
    if g.vars and rng.random() < 0.12 and not any(v.is_obj for v in g.vars):
        inner = [x for x in g.vars if x.t == ("list", "int")]
        g.new_obj(rng.choice(INT_POOL), rng.choice(STR_POOL), rand_value(rng, "opt"),
                  rng.choice(inner) if inner and rng.random() < 0.5 else rand_value(rng, "nest"))
        return
    if rng.random() < 0.68:
        elem = rng.choice(["int", "int", "str", "opt", "nest", "nest"])
        g.new_list(elem, [maybe_place(g, rng, elem) or x for x in rand_values(rng, elem)])
    else:
        kt, vt = rng.choice(["str", "int"]), rng.choice(["int", "int", "str", "opt", "nest"])
        keys = rng.sample(KEY_POOL[kt], rng.choice([0, 1, 2, 3]))
        items, used = [], set()
        for k in keys:
            kp = maybe_place(g, rng, kt, 0.2)
            kv = kp.get() if kp is not None else k
            if kv in used or kv is None:
                continue
            used.add(kv)
            items.append((kp if kp is not None else k, maybe_place(g, rng, vt) or rand_value(rng, vt)))
        g.new_map(kt, vt, items)


def small_operand(rng, elem):
    return rng.choice(["x", "", "yz"]) if elem == "str" else rng.choice([-2, 1, 2, 3])


def list_step(g, rng, v, avoid):
    e, n = v.elem, len(v.obj)
    via = rng.random() < 0.5
    room = g.distinct_objects() < 3 and len(g.vars) < 6
    t = [(3, "push"), (1.5, "len_eq"), (1, "index_of"), (1, "reverse"), (0.5, "clear"), (1.5, "call"),
         (1, "clone"), (1, "join")]
    if n > 0 or rng.random() < 0.15:
        t += [(2, "remove"), (2, "read"), (2, "assign")]
        if e in ("int", "str"):
            t += [(2, "opassign")]
        if e != "nest":
            t += [(1, "concat")]
        if e == "nest":
            t += [(2.5, "fetch"), (1, "read2"), (1, "assign2"), (1, "opassign2")]
    if n > 0 or not avoid["empty_map_filter"]:
        t += [(1.2, "map"), (1.2, "filter")]
    if e == "opt" and not avoid["wrapped_optional_in_list"]:
        t += [(1, "push_wrapped")]
    if e == "int" and n > 0 and room:
        t += [(1, "map_place")]
    op = weighted(rng, t)
    if op == "push":
        inner = [x for x in g.vars if x.t == ("list", "int")]
        if e == "nest" and inner and rng.random() < 0.6:
            g.l_push(v, None, rng.choice(inner))
        elif n > 0 and rng.random() < 0.2:
            g.l_push(v, rng.randrange(n), "elem")
        else:
            g.l_push(v, rand_value(rng, e), maybe_place(g, rng, e) or rng.choice(["lit", "lit", "typedvar"]))
    elif op == "remove":
        g.l_remove(v, pick_index(rng, n), via, bind=(e == "nest" and len(g.vars) < 6 and rng.random() < 0.4))
    elif op == "read":
        g.l_read(v, pick_index(rng, n), via)
    elif op == "assign":
        i = pick_index(rng, n)
        inner = [x for x in g.vars if x.t == ("list", "int")]
        if e == "nest" and inner and rng.random() < 0.5:
            g.l_assign(v, i, None, via, rng.choice(inner))
        elif n > 0 and rng.random() < 0.2:
            g.l_assign(v, i, rng.randrange(n), via, "elem")
        else:
            g.l_assign(v, i, rand_value(rng, e), via, maybe_place(g, rng, e) or "lit")
    elif op == "opassign":
        i = pick_index(rng, n)
        o = "+" if e == "str" else rng.choice(["+", "-", "*"])
        pl = maybe_place(g, rng, e, 0.25)
        if pl is not None and e == "int" and abs(pl.get()) > 50:
            pl = None
        g.l_opassign(v, i, o, pl or small_operand(rng, e), via)
    elif op == "reverse":
        g.l_reverse(v)
    elif op == "clear":
        g.l_clear(v)
    elif op == "len_eq":
        r = rng.random()
        others = [x for x in g.vars if x.t == v.t]
        if r < 0.2:
            g.l_len(v)
        elif r < 0.55:
            g.l_eq(v, rng.choice(others))
        else:
            lit = [list(x) if isinstance(x, list) else x for x in v.obj]
            if rng.random() < 0.5:
                if lit and rng.random() < 0.6:
                    lit[rng.randrange(len(lit))] = rand_value(rng, e)
                else:
                    lit.append(rand_value(rng, e))
            flat_ok = not (e == "nest" and any(not x for x in lit)) and lit
            g.l_eq(v, lit, typed=not (flat_ok and rng.random() < 0.5))
    elif op == "index_of":
        pool = list(v.obj) if v.obj and rng.random() < 0.7 else [rand_value(rng, e)]
        val = rng.choice(pool)
        g.l_index_of(v, list(val) if isinstance(val, list) else val, rng.choice(["lit", "lit", "typedvar"]))
    elif op == "clone":
        g.l_clone(v, bind=room)
    elif op == "join":
        cands = [x for x in g.vars if x.t == v.t and x.obj is not v.obj and not g.contained(x.obj)]
        if cands and rng.random() < 0.5:
            g.l_join(v, rng.choice(cands))
        else:
            g.l_join(v, [maybe_place(g, rng, e) or x for x in rand_values(rng, e)[:3]])
    elif op == "map":
        g.l_map(v, rng.randrange(len(MAP_CB[e])), bind=room and rng.random() < 0.5)
    elif op == "filter":
        g.l_filter(v, rng.randrange(len(FILTER_CB[e])), bind=room and rng.random() < 0.5)
    elif op == "concat":
        g.l_concat(v, pick_index(rng, n, 0.05), pick_index(rng, n, 0.0) if n else 0, bind=rng.random() < 0.5)
    elif op == "map_place":
        c = []
        for x in g.vars:
            if x.is_list and x.obj and x.obj is not v.obj and all(isinstance(k, int) and 0 <= k < len(x.obj) for k in v.obj):
                c.append(("inner" if x.elem == "nest" else "index", x, None))
            elif x.is_map and x.obj:
                c.append(("lookup", x, rng.choice(list(x.obj))))
            elif x.is_obj:
                c.append(("field", x, rng.choice(["n", "s", "o", "items"])))
        if c:
            g.l_map_place(v, *rng.choice(c))
        else:
            g.l_map(v, rng.randrange(len(MAP_CB[e])), bind=True)
    elif op == "push_wrapped":
        g.l_push_wrapped(v, rng.choice([x for x in v.obj if x is not None] + [rng.choice(INT_POOL)]))
    elif op == "fetch":
        if len(g.vars) < 6:
            g.n_fetch(v, pick_index(rng, n, 0.06), via)
        else:
            g.l_read(v, pick_index(rng, n), via)
    elif op in ("read2", "assign2", "opassign2"):
        i = pick_index(rng, n, 0.05)
        m = len(v.obj[i]) if 0 <= i < n else 0
        j = pick_index(rng, m, 0.10) if m or rng.random() < 0.3 else 0
        if 0 <= i < n and m == 0 and rng.random() < 0.7:
            g.l_read(v, i, via)
        elif op == "read2":
            g.n_read2(v, i, j, via)
        elif op == "assign2":
            g.n_assign2(v, i, j, rng.choice(INT_POOL), via)
        else:
            g.n_opassign2(v, i, j, rng.choice(["+", "-", "*"]), rng.choice([-2, 1, 2, 3]), via)
    elif op == "call":
        kinds = ["push", "push", "alias_push", "clear", "reverse", "pop_last", "set0", "set_at"]
        if e == "nest":
            kinds += ["store", "store", "inner_push", "inner_push"]
        k = rng.choice(kinds)
        if k in ("set0", "pop_last") and n == 0 and rng.random() < 0.8:
            k = "push"
        if k in ("push", "alias_push", "set0"):
            g.call_mut(v, k, rand_value(rng, e))
        elif k == "set_at":
            g.call_mut(v, k, pick_index(rng, n, 0.08) if n else rng.choice([0, -1]), rand_value(rng, e))
        elif k == "store":
            inner = [x for x in g.vars if x.t == ("list", "int")]
            if inner:
                g.call_mut(v, k, rng.choice(inner))
            else:
                g.call_mut(v, "push", rand_value(rng, e))
        elif k == "inner_push":
            g.call_mut(v, k, pick_index(rng, n, 0.08) if n else 0, rng.choice(INT_POOL))
        else:
            g.call_mut(v, k)


def obj_step(g, rng, v):
    f, e = rng.choice(OBJ_FIELDS)
    r = rng.random()
    if r < 0.25 and len(g.vars) < 6:
        g.o_fetch(v)
    elif r < 0.5 and e in ("int", "str"):
        g.o_opassign(v, f, "+" if e == "str" else rng.choice(["+", "-", "*"]), small_operand(rng, e))
    else:
        inner = [x for x in g.vars if x.t == ("list", "int")]
        if e == "nest" and inner and rng.random() < 0.5:
            g.o_set(v, f, None, rng.choice(inner))
        else:
            g.o_set(v, f, rand_value(rng, e), maybe_place(g, rng, e) or "lit")


def map_step(g, rng, v, avoid):
    kt, vt = v.t[1], v.t[2]
    present = list(v.obj.keys())
    key = rng.choice(present) if present and rng.random() < 0.6 else rng.choice(KEY_POOL[kt])
    room = g.distinct_objects() < 3 and len(g.vars) < 6
    t = [(2, "read"), (3, "assign"), (2, "replace"), (2, "remove"), (1, "contains"), (0.4, "len"), (0.5, "keys"),
         (0.5, "values"), (1, "pairs"), (0.4, "clear"), (1.5, "call")]
    if room:
        t += [(1, "clone")]
    if vt == "nest" and present and len(g.vars) < 6:
        t += [(2.5, "fetch")]
    if vt == "nest" and present:
        t += [(1, "read2"), (1, "assign2"), (1, "opassign2")]
    if vt in ("int", "str") and present:
        t += [(1.5, "opassign")]
    op = weighted(rng, t)
    inner = [x for x in g.vars if x.t == ("list", "int")]
    if op in ("read", "assign", "replace", "remove", "contains"):
        kp = maybe_place(g, rng, kt, 0.15)            # the key written as a place expression
        if kp is not None and kp.get() is not None and not (
                avoid.get("map_key_lookup_in_same_map") and op == "assign" and kp.origin is v.obj):
            key = kp
    if op == "read":
        g.m_read(v, key)
    elif op == "fetch":
        g.m_fetch(v, rng.choice(present))
    elif op == "opassign":
        g.m_opassign(v, rng.choice(present), "+" if vt == "str" else rng.choice(["+", "-", "*"]), small_operand(rng, vt))
    elif op in ("read2", "assign2", "opassign2"):
        k2 = rng.choice(present)
        m2 = len(v.obj[k2])
        j2 = pick_index(rng, m2, 0.10) if m2 or rng.random() < 0.3 else None
        via2 = rng.random() < 0.5
        if j2 is None:
            g.m_read(v, k2)
        elif op == "read2":
            g.m_read2(v, k2, j2, via2)
        elif op == "assign2":
            g.m_assign2(v, k2, j2, rng.choice(INT_POOL), via2)
        else:
            g.m_opassign2(v, k2, j2, rng.choice(["+", "-", "*"]), rng.choice([-2, 1, 2, 3]), via2)
    elif op == "assign":
        if vt == "nest" and inner and rng.random() < 0.6:
            g.m_assign(v, key, None, rng.choice(inner))
        else:
            g.m_assign(v, key, rand_value(rng, vt), maybe_place(g, rng, vt) or rng.choice(["lit", "lit", "typedvar"]))
    elif op == "replace":
        g.m_replace(v, key, rand_value(rng, vt), maybe_place(g, rng, vt) or rng.choice(["lit", "lit", "typedvar"]))
    elif op == "remove":
        g.m_remove(v, key)
    elif op == "contains":
        g.m_contains(v, key)
    elif op == "len":
        g.m_len(v)
    elif op in ("keys", "values", "pairs"):
        g.m_view(v, op)
    elif op == "clear":
        g.m_clear(v)
    elif op == "clone":
        g.m_clone(v)
    elif op == "call":
        k = rng.choice(["mset", "mset", "mremove", "mclear"])
        if k == "mset":
            g.call_mut(v, k, key, rand_value(rng, vt))
        elif k == "mremove":
            g.call_mut(v, k, key)
        else:
            g.call_mut(v, k)


def random_history(seed, avoid):
    rng = random.Random(seed)
    g = Gen()
    length = rng.choice([3, 4, 5, 6, 7, 8, 9, 10, 11, 12, 12, 12])
    create_random(g, rng)
    guard = 0
    while g.step < length and g.failed is None and guard < 100:
        guard += 1
        r = rng.random()
        snapshot = None
        try:
            if not g.vars:
                create_random(g, rng)
            elif r < 0.10 and g.distinct_objects() < 3 and len(g.vars) < 6:
                create_random(g, rng)
            elif r < 0.22 and len(g.vars) < 6:
                g.alias(rng.choice(g.vars))
            else:
                v = rng.choice(g.vars)
                if v.is_obj:
                    obj_step(g, rng, v)
                elif v.is_list:
                    list_step(g, rng, v, avoid)
                else:
                    map_step(g, rng, v, avoid)
        except C.Unmodelled:
            # the draw left the modelled fragment (i32 overflow): this seed is skipped as a whole
            return None
    g.audit_maps()
    return package(g, "history/%d" % seed, "history")


# ----------------------------------------------------------------------------- deterministic catalogue

VALS = {"int": [3, -1, 7], "str": ["a", "", "a b"], "opt": [None, 5, None], "nest": [[1], [], [2, 3]]}
NEWV = {"int": 42, "str": "Z", "opt": 0, "nest": [9]}
ALTV = {"int": 5, "str": "q7", "opt": None, "nest": []}
SIZES = (("empty", 0), ("singleton", 1), ("pair", 2), ("triple", 3))
MKEYS = {"str": ["a", "b", ""], "int": [1, -1, 0]}
MABSENT = {"str": "d", "int": 7}


def boundary_indices(n):
    """[(label, index)] for {-1, 0, len-1, len, len+1}, first label wins on coincidence."""
    out, seen = [], set()
    for label, i in (("-1", -1), ("0", 0), ("len-1", n - 1), ("len", n), ("len+1", n + 1)):
        if i not in seen:
            seen.add(i)
            out.append((label, i))
    return out


def catalogue():
    cases = []

    def add(method, situation, typ, build):
        g = Gen()
        build(g)
        g.audit_maps()
        c = package(g, "%s:%s" % (method, situation), "catalogue")
        c["type"] = typ
        cases.append(c)

    def pair(g, e, sz):
        l = g.new_list(e, VALS[e][:sz])
        return l, g.alias(l)

    for e in ELEMS:
        V, NEW, ALT = VALS[e], NEWV[e], ALTV[e]
        for sname, sz in SIZES:
            add("literal", sname, e, lambda g: g.new_list(e, V[:sz]))
            add("len", sname, e, lambda g: g.l_len(pair(g, e, sz)[1]))
            for mode in ("lit", "typedvar"):
                def b_push(g):
                    l, a = pair(g, e, sz)
                    g.l_push(a, NEW, mode)
                    g.l_push(l, ALT, mode)
                add("push", "%s:%s" % (sname, mode), e, b_push)
            if sz:
                add("push", "%s:element_of_itself" % sname, e, lambda g: g.l_push(pair(g, e, sz)[1], sz - 1, "elem"))
            add("reverse", sname, e, lambda g: g.l_reverse(pair(g, e, sz)[1]))
            add("clear", sname, e, lambda g: (lambda la: (g.l_clear(la[1]), g.l_push(la[0], NEW)))(pair(g, e, sz)))

            def b_clone(g):
                l, a = pair(g, e, sz)
                g.l_clone(a)
                c = g.vars[-1]
                g.l_push(c, NEW)
                g.l_push(l, ALT)
                if sz:
                    g.l_assign(c, 0, ALT)
                    g.l_remove(l, sz - 1)
                g.l_clear(c)
            add("clone", sname, e, b_clone)
            for label, i in boundary_indices(sz):
                for via in (False, True):
                    if i < 0 and not via:
                        continue
                    sit = "%s:i=%s:%s" % (sname, label, "var" if via else "lit")
                    add("remove", sit, e, lambda g: g.l_remove(pair(g, e, sz)[1], i, via))
                    add("index", sit, e, lambda g: g.l_read(pair(g, e, sz)[1], i, via))
                    add("assign", sit, e, lambda g: g.l_assign(pair(g, e, sz)[1], i, NEW, via))
                    if e in ("int", "str"):
                        add("opassign", sit, e,
                            lambda g: g.l_opassign(pair(g, e, sz)[1], i, "+", "x" if e == "str" else 2, via))
                    if e == "int":
                        add("opassign", sit + ":mul", e, lambda g: g.l_opassign(pair(g, e, sz)[1], i, "*", -2, via))
                        add("opassign", sit + ":sub", e, lambda g: g.l_opassign(pair(g, e, sz)[1], i, "-", 3, via))
                    if e != "nest" and not via:
                        add("concat", "%s:i=%s:direct" % (sname, label), e,
                            lambda g: g.l_concat(pair(g, e, sz)[1], i, 0, bind=False))
                        add("concat", "%s:i=%s:bound" % (sname, label), e,
                            lambda g: g.l_concat(pair(g, e, sz)[1], i, 0, bind=True))
                    if e == "nest":
                        add("remove", sit + ":bound", e, lambda g: (lambda r: r and g.l_push(r, 8))(
                            g.l_remove(pair(g, e, sz)[1], i, via, bind=True)))
                        add("nested_fetch", sit, e, lambda g: (lambda r: r and g.l_push(r, 8))(
                            g.n_fetch(pair(g, e, sz)[1], i, via)))
            # bigint index variables: in range, and values whose low 64 bits would be in range
            if e in ("int", "str"):
                for label, i in (("0", 0), ("len-1", sz - 1), ("len", sz), ("2^64", 2 ** 64), ("2^64+len-1", 2 ** 64 + max(sz - 1, 0)),
                                 ("2^65+1", 2 ** 65 + 1), ("-(2^64-1)", -(2 ** 64 - 1)), ("-2^64", -(2 ** 64)),
                                 ("2^127-1", 2 ** 127 - 1)):
                    if i == -1 and sz == 0:
                        continue
                    sit = "%s:i=%s:bigvar" % (sname, label)
                    add("index", sit, e, lambda g: g.l_read(pair(g, e, sz)[1], i, "big"))
                    add("assign", sit, e, lambda g: g.l_assign(pair(g, e, sz)[1], i, NEW, "big"))
                    add("opassign", sit, e,
                        lambda g: g.l_opassign(pair(g, e, sz)[1], i, "+", "x" if e == "str" else 2, "big"))
            if sz > 1:
                add("assign", "%s:element_of_itself" % sname, e, lambda g: g.l_assign(pair(g, e, sz)[1], 0, sz - 1, False, "elem"))
            for k in range(len(MAP_CB[e])):           # callback name and binding go into the type label:
                cbn = MAP_CB[e][k][0]                   # one signature per (method, size)
                add("map", sname, "%s,%s" % (e, cbn), lambda g: g.l_map(pair(g, e, sz)[1], k))
                add("map", sname, "%s,%s,bound" % (e, cbn),
                    lambda g: (g.l_map(pair(g, e, sz)[1], k, bind=True), g.failed is None and g.l_push(g.vars[0], NEW)))
            for k in range(len(FILTER_CB[e])):
                cbn = FILTER_CB[e][k][0]
                add("filter", sname, "%s,%s" % (e, cbn), lambda g: g.l_filter(pair(g, e, sz)[1], k))
                add("filter", sname, "%s,%s,bound" % (e, cbn),
                    lambda g: (g.l_filter(pair(g, e, sz)[1], k, bind=True), g.failed is None and g.l_push(g.vars[0], NEW)))
            if e == "int":
                add("map", sname, "int,factory_made_capturing_callback", lambda g: g.l_map_factory_closure(pair(g, e, sz)[1]))
                add("filter", sname, "int,factory_made_capturing_callback", lambda g: g.l_map_factory_closure(pair(g, e, sz)[1], True))
            # index_of
            add("index_of", "%s:absent" % sname, e, lambda g: g.l_index_of(pair(g, e, sz)[1], NEW))
            if sz:
                add("index_of", "%s:first" % sname, e, lambda g: g.l_index_of(pair(g, e, sz)[1], V[0]))
                add("index_of", "%s:last" % sname, e, lambda g: g.l_index_of(pair(g, e, sz)[1], V[sz - 1], "typedvar"))

                def b_dup(g):
                    l, a = pair(g, e, sz)
                    g.l_push(l, V[0])
                    g.l_index_of(a, V[0])
                    g.l_remove(l, 0)
                    g.l_index_of(a, V[0])
                add("index_of", "%s:duplicate_then_removed" % sname, e, b_dup)
            # equality
            add("eq", "%s:alias" % sname, e, lambda g: (lambda la: g.l_eq(la[0], la[1]))(pair(g, e, sz)))
            add("eq", "%s:equal_literal" % sname, e, lambda g: g.l_eq(pair(g, e, sz)[1], V[:sz]))
            add("eq", "%s:longer" % sname, e, lambda g: g.l_eq(pair(g, e, sz)[1], V[:sz] + [NEW]))
            if sz:
                add("eq", "%s:shorter" % sname, e, lambda g: g.l_eq(pair(g, e, sz)[1], V[:sz - 1]))
                add("eq", "%s:last_differs" % sname, e, lambda g: g.l_eq(pair(g, e, sz)[1], V[:sz - 1] + [NEW]))
                if not (e == "nest" and sz > 1):
                    add("eq", "%s:inline_literal" % sname, e, lambda g: g.l_eq(pair(g, e, sz)[1], V[:sz], typed=False))

            def b_eq_clone(g):
                l, a = pair(g, e, sz)
                g.l_clone(l)
                c = g.vars[-1]
                g.l_eq(a, c)
                g.l_push(c, NEW)
                g.l_eq(a, c)
                g.l_push(a, NEW)
                g.l_eq(c, l)
            add("eq", "%s:clone_then_diverge" % sname, e, b_eq_clone)
            # join
            for aname, asz in SIZES:
                add("join", "%s+%s:literal" % (sname, aname), e, lambda g: g.l_join(pair(g, e, sz)[1], V[:asz][::-1]))

                def b_join_var(g):
                    l, a = pair(g, e, sz)
                    arg = g.new_list(e, V[:asz][::-1])
                    g.l_join(a, arg)
                    g.l_push(l, NEW)
                add("join", "%s+%s:variable" % (sname, aname), e, b_join_var)
            # parameter aliasing
            for kind in ("push", "alias_push", "set0", "clear", "reverse", "pop_last"):
                args = (NEW,) if kind in ("push", "alias_push", "set0") else ()
                add("call", "%s:%s" % (kind, sname), e, lambda g: g.call_mut(pair(g, e, sz)[0], kind, *args))
            for label, i in boundary_indices(sz):
                add("call", "set_at:%s:i=%s" % (sname, label), e, lambda g: g.call_mut(pair(g, e, sz)[0], "set_at", i, NEW))

    # pinned: join with the receiver itself (directly / through an alias)
    def b_self(g, through_alias):
        l = g.new_list("int", [1, 2])
        other = g.alias(l) if through_alias else l
        g.raw("list.join", ["print %s.join(%s)" % (l.name, other.name)], ["[1, 2, 1, 2]"])
    add("join", "self", "int,direct", lambda g: b_self(g, False))
    add("join", "self", "int,through_alias", lambda g: b_self(g, True))

    # the lists returned by keys()/values()/pairs() are fresh (mutating them leaves the map alone); values share
    add("views", "results_are_fresh_lists", "str->int", lambda g: g.raw("map.views", [
        'vwm = map[str, int] { "a": 1 }', "vwk = vwm.keys()", 'vwk.push("zz")', "vwk.clear()", "vwv = vwm.values()",
        "vwv.push(5)", "vwp = vwm.pairs()", "print vwp", "vwp.clear()", "print vwm.len()", "print vwm.keys()",
        "print vwm.values()", "vwinner: [int...] = [1]", 'vwmm = map[str, [int...]] { "k": vwinner }',
        "vwvv = vwmm.values()", "vw0 = vwvv[0]", "vw0.push(2)", "print vwinner", "print vwmm.pairs()"],
        ['[["a", 1]]', "1", '["a"]', "[1]", "[1, 2]", '[["k", [1, 2]]]']))
    # growth: 300 pushes through an alias (reallocation must not detach aliases)
    add("push", "growth_300_through_alias", "int", lambda g: g.raw("list.push", [
        "grl: [int...] = []", "gral = grl", "from 0 to 300, gri {", "  gral.push(gri * 2)", "}", "print grl.len()",
        "print grl[0]", "print grl[299]", "print grl.remove(0)", "print gral.len()", "print grl.index_of(598)",
        "grc = grl.clone()", "grl.clear()", "print grc.len()", "print gral.len()"],
        ["300", "0", "598", "0", "299", "298", "299", "0"]))

    # optional values produced by built-ins stored in a list, then compared
    def b_wrapped(g, producer):
        o = g.new_list("opt", [1])
        if producer == "index_of":
            g.l_push_wrapped(o, 1)
        else:
            m = g.new_map("str", "int", [("a", 0)])
            k = g.uid("wk")
            g.raw("list.push_%s_result" % producer,
                  ["%s = %s.%s" % (k, m.name, 'remove("a")' if producer == "map_remove" else 'replace("a", 4)'),
                   "%s.push(%s)" % (o.name, k)], [])
            C.push(o.obj, 0)
            if producer == "map_remove":
                C.m_remove(m.obj, "a")
            else:
                C.m_replace(m.obj, "a", 4)
            g.observe()
        g.l_eq(o, [1, 0])
        g.l_index_of(o, 0)
        g.l_clone(o)
        g.l_eq(o, g.vars[-1])
    for producer in ("index_of", "map_remove", "map_replace"):
        add("eq", "optional_from_%s" % producer, "opt", lambda g: b_wrapped(g, producer))

    # nested lists: storing a list inside another list shares it
    def b_nested(g, how):
        a = g.new_list("int", [1, 2])
        n = g.new_list("nest", [[0]])
        if how == "push":
            g.l_push(n, None, a)
        elif how == "assign":
            g.l_assign(n, 0, None, False, a)
        else:
            g.call_mut(n, "store", a)
        g.l_push(a, 3)
        r = g.n_fetch(n, len(n.obj) - 1)
        g.l_assign(r, 0, 10)
        g.n_assign2(n, len(n.obj) - 1, 1, 20)
        g.n_opassign2(n, len(n.obj) - 1, 2, "*", 2)
        g.n_read2(n, len(n.obj) - 1, 2, True)
        g.l_clone(n)
        c = g.vars[-1]
        g.l_push(a, 4)
        g.l_remove(n, len(n.obj) - 1)
        g.l_push(a, 5)
        g.l_index_of(c, [10, 20, 6, 4, 5])
        g.l_clear(a)
    for how in ("push", "assign", "function"):
        add("nested", "store_by_%s" % how, "nest", lambda g: b_nested(g, how))
    for label, i in boundary_indices(2):
        for label2, j in boundary_indices(1):
            for via in (False, True):
                if (i < 0 or j < 0) and not via:
                    continue
                sit = "i=%s,j=%s:%s" % (label, label2, "var" if via else "lit")
                mk = lambda g: g.new_list("nest", [[4], [5]])
                add("nested_index", sit, "nest", lambda g: g.n_read2(mk(g), i, j, via))
                add("nested_assign", sit, "nest", lambda g: g.n_assign2(mk(g), i, j, 9, via))
                add("nested_opassign", sit, "nest", lambda g: g.n_opassign2(mk(g), i, j, "+", 1, via))
    for label, i in boundary_indices(2):
        add("call", "inner_push:i=%s" % label, "nest", lambda g: g.call_mut(g.new_list("nest", [[4], []]), "inner_push", i, 6))

    # ---- maps
    for kt in ("str", "int"):
        K, ABS = MKEYS[kt], MABSENT[kt]
        for vt in ELEMS:
            V, NEW, ALT = VALS[vt], NEWV[vt], ALTV[vt]
            typ = "%s->%s" % (kt, vt)
            for sname, sz in SIZES:
                items = list(zip(K[:sz], V[:sz]))

                def mp(g):
                    m = g.new_map(kt, vt, items)
                    return m, g.alias(m)
                add("map_literal", sname, typ, lambda g: g.new_map(kt, vt, items))
                add("map_len", sname, typ, lambda g: g.m_len(mp(g)[1]))
                for which in ("keys", "values", "pairs"):
                    add(which, sname, typ, lambda g: g.m_view(mp(g)[1], which))
                add("map_index", "%s:absent" % sname, typ, lambda g: g.m_read(mp(g)[1], ABS))
                add("contains_key", "%s:absent" % sname, typ, lambda g: g.m_contains(mp(g)[1], ABS))
                add("map_remove", "%s:absent" % sname, typ, lambda g: g.m_remove(mp(g)[1], ABS))
                for mode in ("lit", "typedvar"):
                    add("replace", "%s:absent:%s" % (sname, mode), typ,
                        lambda g: (lambda ma: (g.m_replace(ma[1], ABS, NEW, mode), g.m_contains(ma[0], ABS),
                                               g.m_read(ma[0], ABS)))(mp(g)))
                    add("map_assign", "%s:new_key:%s" % (sname, mode), typ,
                        lambda g: (lambda ma: (g.m_assign(ma[1], ABS, NEW, mode), g.m_read(ma[0], ABS)))(mp(g)))
                add("map_clear", sname, typ, lambda g: (lambda ma: (g.m_clear(ma[1]), g.m_assign(ma[0], ABS, NEW)))(mp(g)))

                def b_mclone(g):
                    m, a = mp(g)
                    g.m_clone(a)
                    c = g.vars[-1]
                    g.m_assign(c, ABS, NEW)
                    g.m_assign(m, K[0], ALT)
                    g.m_remove(c, K[0])
                    g.m_clear(m)
                add("map_clone", sname, typ, b_mclone)
                for kind, args in (("mset", (ABS, NEW)), ("mremove", (K[0],)), ("mclear", ())):
                    add("call", "%s:%s" % (kind, sname), typ, lambda g: g.call_mut(mp(g)[0], kind, *args))
                if sz:
                    last = K[sz - 1]
                    add("map_index", "%s:present" % sname, typ, lambda g: g.m_read(mp(g)[1], last))
                    add("contains_key", "%s:present" % sname, typ, lambda g: g.m_contains(mp(g)[1], last))
                    add("map_remove", "%s:present" % sname, typ,
                        lambda g: (lambda ma: (g.m_remove(ma[1], last), g.m_contains(ma[0], last), g.m_read(ma[0], last),
                                               g.m_remove(ma[0], last)))(mp(g)))
                    add("replace", "%s:present" % sname, typ,
                        lambda g: (lambda ma: (g.m_replace(ma[1], last, NEW), g.m_read(ma[0], last)))(mp(g)))
                    if vt in ("int", "str"):
                        add("map_opassign", "%s:present" % sname, typ,
                            lambda g: (lambda ma: (g.m_opassign(ma[1], last, "+", "x" if vt == "str" else 2),
                                                   g.m_read(ma[0], last)))(mp(g)))
                    if vt == "int":
                        add("map_opassign", "%s:present:mul" % sname, typ, lambda g: g.m_opassign(mp(g)[1], last, "*", -2))
                    if vt == "nest":
                        for label, j in boundary_indices(len(V[sz - 1])):
                            for via in (False, True):
                                if j < 0 and not via:
                                    continue
                                sit2 = "%s:j=%s:%s" % (sname, label, "var" if via else "lit")
                                add("map_index2", sit2, typ, lambda g: g.m_read2(mp(g)[1], last, j, via))
                                add("map_assign2", sit2, typ, lambda g: g.m_assign2(mp(g)[1], last, j, 9, via))
                                add("map_opassign2", sit2, typ, lambda g: g.m_opassign2(mp(g)[1], last, j, "+", 1, via))
                    add("map_assign", "%s:existing_key" % sname, typ,
                        lambda g: (lambda ma: (g.m_assign(ma[1], K[0], NEW), g.m_read(ma[0], K[0])))(mp(g)))
            if vt == "opt":
                def b_nilval(g):
                    m = g.new_map(kt, "opt", [(K[0], None)])
                    g.m_contains(m, K[0])
                    g.m_read(m, K[0])
                    g.m_replace(m, K[0], 3)
                    g.m_replace(m, K[0], None)
                    g.m_remove(m, K[0])
                    g.m_contains(m, K[0])
                add("contains_key", "key_with_nil_value", typ, b_nilval)
            if vt == "nest":
                def b_mnest(g, how):
                    a = g.new_list("int", [1])
                    m = g.new_map(kt, "nest", [(K[0], [0])])
                    if how == "assign":
                        g.m_assign(m, K[1], None, a)
                    else:
                        g.raw("map.replace", ["print %s.replace(%s, %s)" % (m.name, src(K[1]), a.name)], ["nil"])
                        C.m_set(m.obj, K[1], a.obj)
                        g.observe()
                    g.l_push(a, 2)
                    r = g.m_fetch(m, K[1])
                    g.l_push(r, 3)
                    g.m_clone(m)
                    g.l_assign(a, 0, 10)
                    g.m_remove(m, K[1])
                    g.l_push(r, 4)
                    g.m_read(g.vars[-1], K[1])
                for how in ("assign", "replace"):
                    add("map_nested", "store_by_%s" % how, typ, lambda g: b_mnest(g, how))
    return cases


# ----------------------------------------------------------------------------- value of an op-assignment through a place
def opassign_value_catalogue():
    """`r = place op= v`: the expression yields the NEW content of the place (and the place holds it), for a list
    element, a map entry, an object field and a list held in a field; also when the value is returned from a
    function / method or passed on as an argument.  Non-commutative operators and strings on purpose."""
    cases = []

    def add(name, lines, expects):
        g = Gen()
        g.raw("opassign.value", lines, expects)
        c = package(g, "opassign_value:" + name, "catalogue")
        c["type"] = "int"
        cases.append(c)
    add("list_element", ["ov1: [int...] = [10, 20]", "ovr = ov1[0] -= 3", "print ovr", "print ov1", "ovs = ov1[1] /= 3",
                         "print ovs", "print ov1"], ["7", "[7, 20]", "6", "[7, 6]"])
    add("list_element_by_variable", ["ov1: [int...] = [10, 20]", "ovi = 1", "ovr = ov1[ovi] %= 7", "print ovr", "print ov1"],
        ["6", "[10, 6]"])
    add("str_list_element", ['ov1: [str...] = ["ab", "c"]', 'ovr = ov1[0] += "!"', "print ovr", "print ov1"], ["ab!", '["ab!", "c"]'])
    add("map_entry", ['ov1 = map[str, int] { "a": 10 }', 'ovr = ov1["a"] -= 4', "print ovr", 'print (ov1["a"]) or 0'], ["6", "6"])
    kcls = ["class Ovk {", "  f: int", "  s: str", "  l: [int...]", "  constructor(self) {", "    self.f = 100", '    self.s = "ab"',
            "    self.l = [10, 20]", "  }", "  fn take(self, n: int) -> int {", "    return self.f -= n", "  }",
            "  fn tag(self, t: str) -> str {", "    return self.s += t", "  }", "}", "ovo = Ovk()"]
    add("object_field", kcls + ["ovr = ovo.f -= 30", "print ovr", "print ovo.f", "ovq = ovo.f *= 2", "print ovq", "print ovo.f"],
        ["70", "70", "140", "140"])
    add("object_field_returned_from_method", kcls + ["print ovo.take(30)", "print ovo.f", "print ovo.take(5)", "print ovo.f",
                                                     'print ovo.tag("!")', "print ovo.s"], ["70", "70", "65", "65", "ab!", "ab!"])
    add("object_field_through_alias", kcls + ["ova = ovo", "ovr = ova.f /= 3", "print ovr", "print ovo.f"], ["33", "33"])
    add("list_in_field", kcls + ["ovr = (ovo.l)[1] -= 5", "print ovr", "print ovo.l"], ["15", "[10, 15]"])
    add("as_argument", kcls + ["ovid = fn(a: int) -> int {", "  return a", "}", "print ovid(ovo.f -= 1)", "print ovo.f"], ["99", "99"])
    add("bigint_and_float_fields", ["class Ovb {", "  b: bigint", "  x: float", "  constructor(self) {", "    self.b = B10", "    self.x = 1.5",
                                    "  }", "}", "ovo = Ovb()", "ovr = ovo.b += B5", "print ovr", "print ovo.b", "ovy = ovo.x /= 2.0", "print ovy",
                                    "print ovo.x"], ["15", "15", "0.75", "0.75"])
    return cases


# ----------------------------------------------------------------------------- containers built from places

# ----------------------------------------------------------------------------- nested containers, constant indexes
# (third session, area round a12-4): containers whose ELEMENTS are maps / lists, reached through chains of constant
# and variable indexes.  Each script is a list of (statement, printed expression) steps executed by the real binary and
# by the same statements over Python lists / dicts (aliasing included); printed values are compared line by line.

def nested_catalogue():
    cases = []

    def add(cid, decls, steps):
        """decls: source lines; steps: [(statement or None, expression to print, expected text)]."""
        body, exp, ops = list(decls), [], []
        for n, (stmt, expr, text) in enumerate(steps):
            op = "nested.%s" % ("read" if stmt is None else "write")
            ops.append(op)
            if stmt:
                body.append(stmt)
            body.append("print %s" % expr)
            exp.append({"step": n, "op": op, "kind": "result" if stmt is None else "state", "mode": "exact", "text": text, "var": None})
        cases.append({"id": "nested:" + cid, "kind": "catalogue", "source": "\n".join(body) + "\n", "expected": exp, "ops": ops,
                      "fail_step": None, "notes": ["alias", "nested_store"], "type": "nested"})

    for ktype, k1, k3, k7, knew in (("int", "1", "3", "7", "9"), ("str", '"a"', '"c"', '"g"', '"n"')):
        decl = ["m1 = map[%s, int] {\n %s: 10,\n %s: 30\n}" % (ktype, k1, k3), "m2 = map[%s, int] {\n %s: 70\n}" % (ktype, k7),
                "dicts: [map[%s, int]...] = [m1, m2]" % ktype, "zero = 0", "one = 1", "kk = %s" % k7]
        add("list_of_%s_maps" % ktype, decl, [
            (None, "dicts[one][kk]", "70"), (None, "dicts[0][%s]" % k1, "10"), (None, "dicts[1][%s]" % k7, "70"),
            (None, "dicts[zero][%s]" % k3, "30"), (None, "dicts[0][%s]" % k7, "nil"),
            ("dicts[0][%s] = 5" % knew, "m1[%s]" % knew, "5"), ("dicts[0][%s] += 1" % k1, "m1[%s]" % k1, "11"),
            ("dicts[one][%s] = 2" % knew, "m2.len()", "2"), (None, "(dicts[0]).len()", "3"),
            ("m1[%s] = 31" % k3, "dicts[0][%s]" % k3, "31"), (None, "dicts.len()", "2")])
    add("list_of_lists", ["l1: [int...] = [5, 6]", "l2: [int...] = [7]", "ll: [[int...]...] = [l1, l2]", "zero = 0", "one = 1"], [
        (None, "ll[0][1]", "6"), (None, "ll[1][0]", "7"), (None, "ll[zero][one]", "6"), (None, "ll[one][0]", "7"),
        ("ll[0][1] = 9", "l1", "[5, 9]"), ("ll[0][0] += 1", "l1[0]", "6"), ("ll[one][zero] *= 2", "l2", "[14]"),
        ("l2.push(8)", "ll[1][1]", "8"), (None, "(ll[1]).len()", "2"), (None, "ll", "[[6, 9], [14, 8]]")])
    add("map_of_lists", ["l1: [int...] = [5, 6]", "mm = map[int, [int...]] {\n 2: l1\n}", "two = 2"], [
        (None, "(get mm[2])[1]", "6"), (None, "(get mm[two])[0]", "5"), ("l1.push(7)", "(get mm[2]).len()", "3"),
        ("q = get mm[2]", "q[2]", "7"), ("q[0] = 1", "l1", "[1, 6, 7]")])
    add("list_of_lists_of_lists", ["a1: [int...] = [1, 2]", "b1: [[int...]...] = [a1]", "c1: [[[int...]...]...] = [b1]", "zero = 0"], [
        (None, "c1[0][0][1]", "2"), (None, "c1[zero][0][zero]", "1"), ("c1[0][0][1] = 5", "a1", "[1, 5]"),
        ("c1[0][zero][0] += 3", "a1[0]", "4"), (None, "c1", "[[[4, 5]]]")])
    add("object_field_list_of_maps", ["class Bx {\n ms: [map[int, int]...]\n constructor(self) {\n  self.ms = [map[int, int] {\n   1: 2\n  }]\n }\n}", "bx = Bx()", "one = 1"], [
        (None, "(bx.ms)[0][1]", "2"), (None, "(bx.ms)[0][one]", "2"), (None, "(bx.ms)[0][5]", "nil"), (None, "bx.ms.len()", "1")])
    return cases


def places_catalogue():
    """Every way of putting a value into a list or map x the value written as a place expression (index
    expression by literal / by variable, map lookup, object field read, nested-list element, element of a list
    stored in a map; inner lists reached the same three ways) x LATER mutations of that source place (element
    assignment, op-assign, push, reverse, remove, clear, field write, slot rebinding).  Scalars and strings must have
    been copied (the sink never changes); inner lists are shared (mutating them shows, rebinding the slot does not).
    The sink is also watched through an alias and a clone.  Case id: places:<sink>:<source>."""
    cases = []
    SV = {"int": [3, -1, 7], "str": ["a", "", "a b"], "opt": [None, 5, None]}

    def add(sink, source, typ, build):
        g = Gen()
        build(g)
        g.audit_maps()
        c = package(g, "places:%s:%s" % (sink, source), "catalogue")
        c["type"] = typ
        cases.append(c)

    def scalar_source(g, kind, T):
        """-> (place factory, [mutation thunks], context for the map-callback sink)"""
        V, NEW, opv = SV[T], NEWV[T], ("x" if T == "str" else 2)
        if kind in ("index_lit", "index_var"):
            a = g.new_list(T, V)
            via = kind == "index_var"
            muts = [lambda: g.l_assign(a, 1, NEW)]
            if T != "opt":
                muts.append(lambda: g.l_opassign(a, 1, "+", opv, via))
            muts += [lambda: g.l_push(a, NEW), lambda: g.l_reverse(a), lambda: g.l_remove(a, 0), lambda: g.l_clear(a)]
            return (lambda: g.p_index(a, 1, via)), muts, ("index", a, None)
        if kind == "map_lookup":
            m = g.new_map("str", T, [("k", V[1]), ("j", V[0])])
            muts = [lambda: g.m_assign(m, "k", NEW)]
            if T != "opt":
                muts.append(lambda: g.m_opassign(m, "k", "+", opv))
            muts += [lambda: g.m_replace(m, "k", ALTV[T]), lambda: g.m_remove(m, "k"), lambda: g.m_clear(m)]
            return (lambda: g.p_lookup(m, "k")), muts, ("lookup", m, "k")
        if kind == "field":
            f = {"int": "n", "str": "s", "opt": "o"}[T]
            b = g.new_obj(V[1] if T == "int" else 4, V[1] if T == "str" else "s0", V[1] if T == "opt" else None, [1, 2])
            muts = [lambda: g.o_set(b, f, NEW)]
            if T != "opt":
                muts.append(lambda: g.o_opassign(b, f, "+", opv))
            muts.append(lambda: g.o_set(b, f, ALTV[T]))
            return (lambda: g.p_field(b, f)), muts, ("field", b, f)
        if kind == "nested_element":
            n = g.new_list("nest", [[4, 5], [6]])
            muts = [lambda: g.n_assign2(n, 0, 1, 55), lambda: g.n_opassign2(n, 0, 1, "*", 2),
                    lambda: g.l_clear(g.n_fetch(n, 0)), lambda: g.l_assign(n, 0, [0])]
            return (lambda: g.p_index2(n, 0, 1)), muts, None
        if kind == "map_of_lists_element":
            ml = g.new_map("str", "nest", [("p", [8, 9])])
            muts = [lambda: g.m_assign2(ml, "p", 1, 55), lambda: g.m_opassign2(ml, "p", 1, "+", 1),
                    lambda: g.m_assign(ml, "p", [0]), lambda: g.m_clear(ml)]
            return (lambda: g.p_lookup2(ml, "p", 1)), muts, None
        raise ValueError(kind)

    def list_source(g, kind):
        """inner lists reached through a place: shared with the sink"""
        if kind == "nested_list_element":
            n = g.new_list("nest", [[4, 5], [6]])
            muts = [lambda: g.n_assign2(n, 0, 1, 55), lambda: g.l_push(g.n_fetch(n, 0), 8),
                    lambda: g.l_assign(n, 0, [7]), lambda: g.n_assign2(n, 0, 0, 70), lambda: g.l_clear(n)]
            return (lambda: g.p_index(n, 0)), muts, ("inner", n, None)
        if kind == "field_list":
            b = g.new_obj(1, "s", None, [4, 5])
            muts = [lambda: g.l_push(g.o_fetch(b), 8), lambda: g.o_set(b, "items", [7]),
                    lambda: g.l_push(g.o_fetch(b), 9)]
            return (lambda: g.p_field(b, "items")), muts, ("field", b, "items")
        ml = g.new_map("str", "nest", [("p", [4, 5])])
        muts = [lambda: g.m_assign2(ml, "p", 1, 55), lambda: g.l_push(g.m_fetch(ml, "p"), 8),
                lambda: g.m_assign(ml, "p", [7]), lambda: g.m_remove(ml, "p")]
        return (lambda: g.p_lookup(ml, "p")), muts, ("lookup", ml, "p")

    def sinks(T):
        V0 = SV[T][0] if T != "nest" else [0]
        out = {
            "list_literal": lambda g, P, ctx: g.new_list(T, [V0, P(), P()]),
            "map_literal_value": lambda g, P, ctx: g.new_map("str", T, [("x", P()), ("y", V0), ("z", P())]),
            "push_argument": lambda g, P, ctx: (lambda x: (g.l_push(x, None, P()), x)[1])(g.new_list(T, [V0])),
            "index_assignment": lambda g, P, ctx: (lambda x: (g.l_assign(x, 1, None, False, P()), x)[1])(
                g.new_list(T, [V0, V0])),
            "map_assignment": lambda g, P, ctx: (lambda m: (g.m_assign(m, "x", None, P()), m)[1])(
                g.new_map("str", T, [("y", V0)])),
            "replace_argument": lambda g, P, ctx: (lambda m: (g.m_replace(m, "x", None, P()), g.m_replace(m, "y", None, P()),
                                                              m)[2])(g.new_map("str", T, [("y", V0)])),
            "join_argument": lambda g, P, ctx: (lambda x: (g.l_join(x, [P(), P()]), x)[1])(g.new_list(T, [V0])),
        }
        if T in ("int", "str"):
            out["map_literal_key"] = lambda g, P, ctx: g.new_map(T, "int", [(P(), 1), (NEWV[T], 2)])
            out["map_assignment_key"] = lambda g, P, ctx: (lambda m: (g.m_assign(m, P(), 5), m)[1])(g.new_map(T, "int", []))
            out["replace_key"] = lambda g, P, ctx: (lambda m: (g.m_replace(m, P(), 5), m)[1])(g.new_map(T, "int", []))
            out["opassign_operand"] = lambda g, P, ctx: (lambda x: (g.l_opassign(x, 0, "+", P()), x)[1])(g.new_list(T, [V0]))
            out["map_opassign_operand"] = lambda g, P, ctx: (lambda m: (g.m_opassign(m, "y", "+", P()), m)[1])(
                g.new_map("str", T, [("y", V0)]))

        def cb_sink(g, P, ctx):
            kind, target, arg = ctx
            ix = g.new_list("int", [1, 0, 1] if kind == "index" else [0, 1, 0])
            return g.l_map_place(ix, kind, target, arg)
        out["map_callback_result"] = cb_sink
        return out

    def run_case(g, sink_fn, P, muts, ctx):
        sink = sink_fn(g, P, ctx)
        g.alias(sink)
        if sink.is_list:
            g.l_clone(sink)
        else:
            g.m_clone(sink)
        for mu in muts:
            if g.failed is not None:
                break
            mu()

    # pinned: the key of a map assignment is a lookup in the SAME map (directly / through an alias)
    def b_samekey(g, through_alias):
        m = g.new_map("int", "int", [(1, 5)])
        other = g.alias(m) if through_alias else m
        g.m_assign(m, g.p_lookup(other, 1), 7)
        g.m_assign(m, g.p_lookup(m, 5), None, g.p_lookup(other, 1))
    add("map_assignment_key", "lookup_in_same_map", "int,direct", lambda g: b_samekey(g, False))
    add("map_assignment_key", "lookup_in_same_map", "int,through_alias", lambda g: b_samekey(g, True))

    for T in ("int", "str", "opt"):
        kinds = ["index_lit", "index_var", "map_lookup", "field"] + (["nested_element", "map_of_lists_element"] if T == "int" else [])
        for kind in kinds:
            for sname, sink_fn in sorted(sinks(T).items()):
                def build(g):
                    P, muts, ctx = scalar_source(g, kind, T)
                    if sname == "map_callback_result" and ctx is None:
                        return False
                    run_case(g, sink_fn, P, muts, ctx)
                    return True
                probe = Gen()
                if build(probe) is False:
                    continue
                add(sname, kind, T, build)
    for kind in ("nested_list_element", "field_list", "map_lookup_list"):
        for sname, sink_fn in sorted(sinks("nest").items()):
            def build(g):
                P, muts, ctx = list_source(g, kind)
                run_case(g, sink_fn, P, muts, ctx)
            add(sname, kind, "[int...] (shared)", build)
    return cases


# ----------------------------------------------------------------------------- callback sub-catalogue

def callback_catalogue():
    """(a) callbacks with side effects on *other* state: defined (called once per element, in order) -- asserted.
    (b) callbacks that mutate the list being traversed: not fixed by the statement -- recorded against the
    live-index reading (containers.live_map), never a verdict unless the process dies from a signal."""
    cases = []

    def prog(case_id, kind, lines, expected):
        g = Gen()
        g.raw("callback", lines, expected)
        c = package(g, case_id, kind)
        c["type"] = "int"
        cases.append(c)

    for meth, ret, retexpr, res in (("map", "int", "cbx1 * 10", "[10, 20, 30]"), ("filter", "bool", "cbx1 != 2", "[1, 3]")):
        prog("callback:%s_side_effects" % meth, "catalogue", [
            "cba: [int...] = [1, 2, 3]", "cblog: [int...] = []", "cbalias = cblog", "cbcount = 0",
            "cbr = cba.%s(fn(cbx1: int) -> %s {" % (meth, ret), "  cblog.push(cbx1)", "  modify cbcount = cbcount + 1",
            "  return %s" % retexpr, "})", "print cbr", "print cbalias", "print cbcount", "print cba"],
            [res, "[1, 2, 3]", "3", "[1, 2, 3]"])
        prog("callback:%s_reads_traversed_list" % meth, "catalogue", [
            "cba: [int...] = [1, 2, 3]", "cblens: [int...] = []",
            "cbr = cba.%s(fn(cbx1: int) -> %s {" % (meth, ret), "  cblens.push(cba.len())",
            "  return %s" % retexpr, "})", "print cbr", "print cblens"], [res, "[3, 3, 3]"])
        prog("callback:%s_nested_traversal" % meth, "catalogue", [
            "cba: [int...] = [1, 2, 3]", "cbb: [int...] = [1, 2]", "cbsum: [int...] = []",
            "cbr = cba.%s(fn(cbx1: int) -> %s {" % (meth, ret),
            "  cbinner = cbb.map(fn(cbx2: int) -> int {", "    return cbx2 + 100", "  })",
            "  cbsum.push(cbinner.len())", "  return %s" % retexpr, "})", "print cbr", "print cbsum"], [res, "[2, 2, 2]"])
    # open semantics: mutation of the traversed list (live-index reading as the reference)
    l = [1, 2, 3]

    def f_push(x):
        if len(l) < 6:
            l.append(x + 10)
        return x
    r = C.live_map(l, f_push)
    prog("open:map_pushes_to_traversed", "open", [
        "cba: [int...] = [1, 2, 3]", "cbr = cba.map(fn(cbx1: int) -> int {", "  if cba.len() < 6 {",
        "    cba.push(cbx1 + 10)", "  }", "  return cbx1", "})", "print cbr", "print cba"], [C.render(r), C.render(l)])
    l = [1, 2, 3, 4]

    def f_rem(x):
        if len(l) > 2:
            l.pop(0)
        return x
    r = C.live_map(l, f_rem)
    prog("open:map_removes_from_traversed", "open", [
        "cba: [int...] = [1, 2, 3, 4]", "cbr = cba.map(fn(cbx1: int) -> int {", "  if cba.len() > 2 {",
        "    cbz = cba.remove(0)", "  }", "  return cbx1", "})", "print cbr", "print cba"], [C.render(r), C.render(l)])
    prog("open:map_assigns_ahead_in_traversed", "open", [
        "cba: [int...] = [1, 2, 3, 4]", "cbr = cba.map(fn(cbx1: int) -> int {", "  cba[3] = 40", "  cba[0] = 10",
        "  return cbx1", "})", "print cbr", "print cba"], ["[1, 2, 3, 40]", "[10, 2, 3, 40]"])
    prog("open:filter_clears_traversed", "open", [
        "cba: [int...] = [1, 2, 3, 4]", "cbr = cba.filter(fn(cbx1: int) -> bool {", "  cba.clear()", "  return true", "})",
        "print cbr", "print cba"], ["[1]", "[]"])
    prog("open:filter_overwrites_current_element", "open", [
        "cba: [int...] = [1, 2, 3]", "cbr = cba.filter(fn(cbx1: int) -> bool {", "  cbk = cbx1 - 1", "  cba[cbk] = cbx1 * 10",
        "  return true", "})", "print cbr", "print cba"], ["[1, 2, 3]", "[10, 20, 30]"])
    # open: what join leaves behind (reference reading = what was observed at design time: the result IS the
    # receiver and the argument is drained)
    prog("open:join_result_aliases_receiver_and_argument_is_drained", "open", [
        "cba: [int...] = [1]", "cbb: [int...] = [2]", "cbr = cba.join(cbb)", "cbr.push(3)", "print cba", "print cbb"],
        ["[1, 2, 3]", "[]"])
    return cases


# ----------------------------------------------------------------------------- driver

AVOIDANCE = {
    # rule name -> (known-finding signatures that switch it on, description)
    "empty_map_filter": (("C13:map:empty:unexpected_failure", "C13:filter:empty:unexpected_failure"),
                         "random histories do not call map/filter on an empty list (only while one of the signatures "
                         "is listed in known_findings.json)"),
    "wrapped_optional_in_list": (("C13:eq:optional_from_index_of:wrong_result",),
                                 "random histories do not push the int? result of index_of into an [int?...] list "
                                 "(only while the signature is listed in known_findings.json)"),
}
SAME_MAP_KEY_SIG = "C13:places:map_assignment_key:lookup_in_same_map:unexpected_failure"
ADAPTIVE = {
    "map_key_lookup_in_same_map": "random histories do not write `m[m[k]] = v` (key = lookup in the same map object, also "
                                  "through an alias); active while the pinned case %s deviates on the tree under test or "
                                  "is listed in known_findings.json" % SAME_MAP_KEY_SIG,
}
ALWAYS_AVOIDED = {
    "self_join": "a list is never joined with itself or one of its aliases (pinned as C13:join:self, directly and through an alias): the statement leaves the state of a consumed argument open, so the model has "
                 "no prediction for a receiver that is also the argument",
    "join_argument_consumed": "after x.join(y) every alias of y leaves the program and y is never a list stored "
                              "inside a live container; the join result is printed, never mutated",
    "i32_range": "draws whose arithmetic leaves i32 are skipped (C05 territory)",
}


def signature(case, dev):
    if case["kind"] == "history":
        return "C13:history:%s:%s" % (dev["op"], dev["class"])
    return "C13:%s:%s" % (case["id"], dev["class"])


def work(item):
    kind, payload, avoid = item
    if kind == "history":
        case = random_history(payload, avoid)
        if case is None:
            return {"skipped": True}
    else:
        case = payload
    res = execute(case)
    out = {"id": case["id"], "kind": case["kind"], "ops": case["ops"], "fail_step": case["fail_step"],
           "notes": case["notes"], "type": case.get("type"), "n_lines": len(case["expected"])}
    if "inconclusive" in res:
        out["inconclusive"] = res["inconclusive"]
        return out
    if "rejected" in res:
        out["rejected"] = res["rejected"]
        out["source"] = case["source"]
        return out
    out["failure_class"] = res.get("failure_class")
    if case["kind"] == "open":
        dev = res.get("deviation")
        out["open"] = ("agrees with the reference reading" if dev is None else
                       "%s (observed %s; reference reading %s)" % (
                           dev["class"], (dev["run"]["out"] + dev["run"]["err"]).strip().splitlines()[-3:],
                           [e["text"] for e in case["expected"]]))
        if dev is not None and dev["run"]["cls"] == "signal":
            out["violation"] = {"signature": "C13:%s:crash_signal" % case["id"], "dev": dev, "case": case}
        return out
    if "deviation" in res:
        out["violation"] = {"signature": signature(case, res["deviation"]), "dev": res["deviation"], "case": case}
    elif len(case["source"]) < 1200 and len(case["ops"]) >= 5:
        out["sample"] = {"id": case["id"], "source": case["source"], "ops": case["ops"],
                         "expected_failure_at_step": case["fail_step"]}
    return out


def nontrivial(res):
    """A history is non-trivial when it has >= 4 operations and observes sharing: an alias, a clone, a nested
    store or a parameter alias."""
    return len(res["ops"]) >= 4 and bool(set(res["notes"]) & {"alias", "clone", "nested_store", "nested_alias",
                                                               "param_alias"})


def run(ctx):
    out = core.Outcome()
    avoid = {name: any(s in ctx.known for s in sigs) for name, (sigs, _) in AVOIDANCE.items()}
    cat = catalogue() + places_catalogue() + callback_catalogue() + opassign_value_catalogue() + nested_catalogue()
    # adaptive rule: the pinned case of a defect is run first; while it deviates on this tree (it is then reported
    # under its own catalogue signature) the random generator stays away from that construct
    probe = [c for c in cat if c["id"] == "places:map_assignment_key:lookup_in_same_map"][0]
    pres = execute(probe)
    avoid["map_key_lookup_in_same_map"] = bool("deviation" in pres or SAME_MAP_KEY_SIG in ctx.known)
    items = [(c["kind"], c, avoid) for c in cat]
    n_hist = ctx.n(8000, 50000)
    base = ctx.seed * 10000019
    items += [("history", base + i, avoid) for i in range(n_hist)]
    results = core.pmap(work, items, chunksize=16)
    agg = {"catalogue_cases": len(cat), "histories": 0, "histories_skipped_i32": 0, "rejected_by_compiler": 0,
           "expected_failures_confirmed": 0, "operations_executed": 0, "output_lines_compared": 0}
    per_op, fail_classes, hist_len, open_sem, rejected_examples = {}, {}, {}, {}, []
    methods_in_catalogue = set()
    for status, res in results:
        if status != "ok":
            out.inconclusive.append(str(res)[-500:])
            continue
        if res.get("skipped"):
            agg["histories_skipped_i32"] += 1
            continue
        if "inconclusive" in res:
            out.inconclusive.append(res["inconclusive"])
            continue
        if "rejected" in res:
            agg["rejected_by_compiler"] += 1
            if len(rejected_examples) < 3:
                rejected_examples.append({"id": res["id"], "msg": res["rejected"][-300:], "source": res["source"][-600:]})
            continue
        out.evaluations += 1
        agg["operations_executed"] += len(res["ops"])
        agg["output_lines_compared"] += res["n_lines"]
        for op in res["ops"]:
            per_op[op] = per_op.get(op, 0) + 1
        if res["kind"] == "history":
            agg["histories"] += 1
            hist_len[len(res["ops"])] = hist_len.get(len(res["ops"]), 0) + 1
            if nontrivial(res):
                out.distinct.add(core.h([res["ops"], res["notes"], res["n_lines"]]))
        else:
            methods_in_catalogue.add(res["id"].split(":")[0])
            if res["kind"] == "catalogue":
                out.distinct.add(core.h([res["id"], res["type"]]))
        if "open" in res:
            open_sem[res["id"]] = res["open"]
        if res.get("failure_class"):
            agg["expected_failures_confirmed"] += 1
            fail_classes[res["failure_class"]] = fail_classes.get(res["failure_class"], 0) + 1
        if "sample" in res and sum(1 for x in out.samples if x["id"].startswith("history") ==
                                   res["sample"]["id"].startswith("history")) < (3 if res["kind"] == "history" else 1):
            out.samples.append(res["sample"])
        v = res.get("violation")
        if v:
            dev, case = v["dev"], v["case"]
            what = "%s%s: %s at step %s (%s)%s" % (
                case["id"], " [%s]" % case["type"] if case.get("type") else "", dev["class"], dev.get("step"), dev["op"],
                "; expected %r, observed %r" % (dev.get("expected_line"), dev.get("observed_line"))
                if "observed_line" in dev else "")
            witness = {"case_id": case["id"], "type": case.get("type"), "ops": case["ops"], "deviation": dev,
                       "expected": case["expected"], "fail_step": case["fail_step"],
                       "files": {"main.ms": case["source"]}}
            out.violations.append(core.Violation(v["signature"], what, witness))
    agg["operations_by_kind"] = dict(sorted(per_op.items()))
    agg["history_length_histogram"] = dict(sorted(hist_len.items()))
    agg["failure_classes_of_out_of_range_stops"] = fail_classes
    agg["catalogue_methods"] = sorted(methods_in_catalogue)
    agg["open_semantics_recorded"] = open_sem
    agg["rejected_examples"] = rejected_examples
    agg["avoidance_rules"] = dict(
        [(k, {"active": avoid[k], "rule": d, "switched_on_by": list(s)}) for k, (s, d) in AVOIDANCE.items()] +
        [(k, {"active": bool(avoid.get(k)), "rule": d}) for k, d in ADAPTIVE.items()] +
        [(k, {"active": True, "rule": d}) for k, d in ALWAYS_AVOIDED.items()])
    if C.MUTATION:
        agg["MODEL_DELIBERATELY_BROKEN"] = C.MUTATION
    out.coverage.update(agg)
    out.rule = ("deterministic catalogue (every list/map method x {empty, singleton, triple} x boundary index "
                "{-1,0,len-1,len,len+1} by literal and by variable x element type {int,str,int?,[int...]}; maps "
                "{str,int} keys x the four value types; nested-list / parameter-alias / callback sub-catalogues: %d "
                "programs, identical for every seed) + %d seeded random histories of <= 12 operations over <= 3 containers "
                "and <= 6 aliases. Each program prints len and contents of every alias after every step and is compared "
                "line by line with mv/models/containers.py (keys/values/pairs as multisets). evaluations = programs run "
                "and compared. Non-trivial/distinct: catalogue = distinct (case id, element type); history = distinct "
                "(operation sequence, sharing features, output length) with >= 4 operations and at least one alias / "
                "clone / nested store / parameter alias." % (len(cat), n_hist))
    out.assumptions = [
        "join: result = receiver ++ argument is asserted; aliasing of the result and the state of the argument are "
        "open (argument treated as consumed)",
        "keys/values/pairs are compared as multisets (iteration order is open)",
        "an out-of-range index/removal may stop the program with any failure class (interpreter error or Rust panic); "
        "a negative index is out of range",
        "callbacks that mutate the list being traversed have no fixed meaning: recorded against a live-index reading, "
        "never a verdict",
        "element strings contain no double quote (printed lists are parsed)", "dev-profile build"]
    total = agg["rejected_by_compiler"] + out.evaluations
    if total and agg["rejected_by_compiler"] > 0.02 * total:
        out.observed_nothing = "%d of %d programs rejected by the compiler: generator out of the language" % (
            agg["rejected_by_compiler"], total)
    if out.evaluations == 0:
        out.observed_nothing = "no executions"
    return out


def replay(path):
    with open(os.path.join(path, "case.json")) as f:
        rec = json.load(f)
    w = rec["witness"]
    with open(os.path.join(path, "files", "main.ms")) as f:
        source = f.read()
    case = {"id": w["case_id"], "kind": "replay", "source": source, "expected": w["expected"], "ops": w["ops"],
            "fail_step": w["fail_step"]}
    res = execute(case)
    if "inconclusive" in res or "rejected" in res:
        print(json.dumps(res, indent=1)[:2000])
        return 2
    dev = res.get("deviation")
    if dev is None:
        print("AGREES with the model now: %s" % w["case_id"])
        return 0
    print("DIFFERS: %s at step %s (%s); expected %r observed %r" % (
        dev["class"], dev.get("step"), dev["op"], dev.get("expected_line"), dev.get("observed_line")))
    print((dev["run"]["err"] or "")[-600:])
    return 1
