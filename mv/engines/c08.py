"""C08 — objects have per-instance state, reference identity and bound methods.

Workload: a deterministic catalogue of hand-shaped class programs (stable case ids) + seeded random class sets and
histories (mv/models/objects.py).  Oracle: the object model (instances are Python objects with identity; the
reference interpreter of mv/models/closures.py) predicts the exact stdout lines.  Objects themselves are never
printed (their Display contains an address), only their fields."""
import json
import os

from .. import core
from ..models import closures as M
from ..models import objects as O
from .c07 import execute, compare, witness, dynamic_lookup_defect_listed

MUTATION = os.environ.get("VERIF_MODEL_MUTATION") or None     # validation of the oracle only (see notes)

CATALOGUE = [
    ("two_instances_have_separate_fields", """
class P {
  v: int
  s: str
  constructor(self, a: int, b: str) {
    self.v = a
    self.s = b
  }
}
p = P(1, "one")
q = P(2, "two")
print p.v
print q.v
p.v = 10
q.s = "zwei"
print p.v
print p.s
print q.v
print q.s
"""),
    ("constructor_stores_what_it_computes", """
class P {
  v: int
  w: int
  l: [int...]
  o: int?
  constructor(self, a: int, b: int) {
    self.v = a * 2
    self.w = self.v + b
    self.l = [a, b]
    self.o = nil
  }
}
p = P(3, 4)
print p.v
print p.w
print p.l
print p.o
q = P(0, 0)
print q.w
print p.w
"""),
    ("default_constructor_and_field_assignment", """
class A {
  x: int
}
a = A()
b = A()
a.x = 3
b.x = 4
print a.x
print b.x
print a is b
"""),
    ("method_updates_only_its_object", """
class C {
  n: int
  constructor(self, a: int) {
    self.n = a
  }
  fn inc(self, d: int) -> int {
    self.n += d
    return self.n
  }
}
a = C(0)
b = C(100)
print a.inc(1)
print b.inc(1)
print a.inc(5)
print a.n
print b.n
"""),
    ("method_calls_sibling_methods", """
class C {
  n: int
  constructor(self, a: int) {
    self.n = a
    self.reset_if_negative()
  }
  fn reset_if_negative(self) {
    if self.n < 0 {
      self.n = 0
    }
  }
  fn inc(self, d: int) -> int {
    self.n = self.n + d
    return self.n
  }
  fn twice(self, d: int) -> int {
    self.inc(d)
    return self.inc(d) + self.getv()
  }
  fn getv(self) -> int {
    return self.n
  }
}
a = C(-5)
b = C(7)
print a.getv()
print a.twice(2)
print b.twice(1)
print a.n
print b.n
"""),
    ("alias_assignment_shares_the_object", """
class P {
  v: int
  l: [int...]
  constructor(self, a: int) {
    self.v = a
    self.l = [a]
  }
}
a = P(1)
b = a
c = b
c.v = 10
print a.v
a.v += 5
print c.v
b.l.push(9)
print a.l
print c.l
d = P(1)
print d.v
print d.l
"""),
    ("pass_to_function_mutates_callers_object", """
class P {
  v: int
  constructor(self, a: int) {
    self.v = a
  }
}
bump = fn(p: P, d: int) {
  p.v = p.v + d
}
deep = fn(q: P, e: int) {
  bump(q, e)
  bump(q, e)
}
a = P(1)
b = P(1)
bump(a, 5)
print a.v
print b.v
deep(b, 10)
print b.v
print a.v
"""),
    ("return_from_function_is_same_object", """
class P {
  v: int
  constructor(self, a: int) {
    self.v = a
  }
}
ident = fn(p: P) -> P {
  return p
}
pick = fn(p2: P, q2: P, c: bool) -> P {
  if c {
    return p2
  }
  return q2
}
mk = fn(a: int) -> P {
  return P(a)
}
a = P(1)
b = P(2)
x = ident(a)
print x is a
y = pick(a, b, false)
print y is b
print y is a
y.v = 20
print b.v
m1 = mk(5)
m2 = mk(5)
print m1 is m2
m1.v = 6
print m2.v
"""),
    ("return_self_and_chaining", """
class C {
  n: int
  constructor(self) {
    self.n = 0
  }
  fn add(self, d: int) -> Self {
    self.n += d
    return self
  }
  fn me(self) -> Self {
    return self
  }
  fn getv(self) -> int {
    return self.n
  }
}
a = C()
b = a.me()
print b is a
print a.add(1).add(2).add(3).getv()
print b.n
c = a.add(10)
print c is a
print c.n
d = (C()).add(4)
print d.n
print d is a
"""),
    ("chain_after_method_returning_another_object", """
class C {
  n: int
  label: str
  constructor(self, label: str, n: int) {
    self.label = label
    self.n = n
  }
  fn add(self, by: int) -> Self {
    self.n = self.n + by
    return self
  }
  fn fork(self, label: str) -> Self {
    return Self(label, self.n)
  }
  fn pick(self, other: Self) -> Self {
    if other.n > self.n {
      return other
    }
    return self
  }
  fn forkadd(self, by: int) -> Self {
    return self.fork("m").add(by)
  }
  fn show(self) -> str {
    return self.label + "=" + self.n
  }
}
a = C("a", 1)
b = C("b", 50)
a.add(1).add(2)
print a.show()
f1 = a.fork("f1").add(10)
print a.show()
print f1.show()
print f1 is a
a.pick(b).add(5)
print a.show()
print b.show()
print a.pick(b).show()
g = a.forkadd(7)
print a.show()
print g.show()
print a.fork("x").fork("y").add(1).add(2).show()
print a.show()
"""),
    ("clone_via_self_constructor_is_distinct", """
class C {
  n: int
  l: [int...]
  constructor(self, a: int) {
    self.n = a
    self.l = [a]
  }
  fn clone(self) -> Self {
    return Self(self.n)
  }
  fn plus(self, o: Self) -> Self {
    return Self(self.n + o.n)
  }
}
a = C(5)
b = a.clone()
print b is a
print b.n
b.n = 6
b.l.push(1)
print a.n
print a.l
c = a.plus(b)
print c.n
print a.n
print b.n
"""),
    ("store_in_list_and_read_back", """
class P {
  v: int
  constructor(self, a: int) {
    self.v = a
  }
}
a = P(1)
b = P(2)
ps: [P...] = [a, b]
ps.push(a)
q = ps[2]
print q is a
q.v = -1
print a.v
r = ps[1]
r.v = 22
print b.v
x0 = ps[0]
print x0.v
print ps.len()
"""),
    ("store_in_map_and_read_back", """
class P {
  v: int
  constructor(self, a: int) {
    self.v = a
  }
}
a = P(1)
b = P(2)
m = map[str, P] { "x": a }
m["y"] = b
m["z"] = a
r = get m["y"]
print r is b
r.v = 20
print b.v
s = get m["z"]
t = get m["x"]
print s is t
s.v = 7
print a.v
"""),
    ("is_matrix_over_aliases_and_equal_valued_objects", """
class P {
  v: int
  constructor(self, a: int) {
    self.v = a
  }
}
a = P(1)
b = P(1)
c = a
print a is a
print a is b
print a is c
print b is c
print c is a
b.v = 1
print a is b
a = b
print a is b
print a is c
print c.v
"""),
    ("list_equality_compares_objects_by_identity", """
class P {
  v: int
  constructor(self, a: int) {
    self.v = a
  }
}
a = P(1)
b = P(1)
c = a
l1: [P...] = [a, b]
l2: [P...] = [c, b]
l3: [P...] = [b, a]
l4: [P...] = [a, P(1)]
print l1 == l2
print l1 == l3
print l1 == l4
print l1 != l3
"""),
    ("self_link_and_cycle", """
class N {
  v: int
  nx: Self?
  constructor(self, a: int) {
    self.v = a
    self.nx = nil
  }
  fn link(self, o: Self) {
    self.nx = o
  }
  fn next_v(self) -> int {
    if self.nx == nil {
      return -1
    }
    return self.nx.v
  }
}
a = N(1)
b = N(2)
print a.next_v()
a.link(b)
b.link(a)
print a.next_v()
print b.next_v()
print a.nx is b
print a.nx.nx is a
a.nx.v = 20
print b.v
a.nx.nx.v = 10
print a.v
a.link(a)
print a.nx is a
print a.next_v()
a.nx = nil
print a.nx == nil
print b.nx is a
"""),
    ("nested_object_shared_between_two_owners", """
class B {
  w: int
  constructor(self, w: int) {
    self.w = w
  }
  fn inc(self) -> Self {
    self.w += 1
    return self
  }
}
class A {
  inner: B
  constructor(self, b: B) {
    self.inner = b
  }
  fn get_inner(self) -> B {
    return self.inner
  }
  fn inner_w(self) -> int {
    return self.inner.w
  }
}
b1 = B(1)
a1 = A(b1)
a2 = A(b1)
a1.inner.w = 5
print a2.inner.w
print a1.inner is a2.inner
print a1.get_inner() is b1
a1.inner.inc().inc()
print b1.w
print a2.inner_w()
a1.inner = B(50)
print a2.inner.w
print a1.inner.w
print a2.inner is b1
print a1.inner is b1
"""),
    ("optional_object_field", """
class B {
  w: int
  constructor(self, w: int) {
    self.w = w
  }
}
class A {
  ob: B?
  constructor(self) {
    self.ob = nil
  }
  fn set_ob(self, b: B) {
    self.ob = b
  }
}
b2 = B(2)
a1 = A()
a2 = A()
print a1.ob == nil
a1.set_ob(b2)
print a1.ob == nil
print a2.ob == nil
x = get a1.ob
print x is b2
a1.ob.w = 9
print b2.w
a2.ob = b2
print a2.ob is a1.ob
a1.ob = nil
print a2.ob == nil
print a1.ob == nil
"""),
    ("optional_scalar_field", """
class A {
  o: int?
  constructor(self) {
    self.o = nil
  }
  fn seto(self, x: int) {
    self.o = x
  }
}
a = A()
b = A()
c = a
print a.o
a.seto(4)
print c.o
print b.o
print a.o == nil
c.o = nil
print a.o
"""),
    ("method_with_two_objects_swap", """
class P {
  v: int
  constructor(self, a: int) {
    self.v = a
  }
  fn swap(self, o: Self) {
    t = self.v
    self.v = o.v
    o.v = t
  }
  fn same(self, o2: Self) -> bool {
    return self is o2
  }
}
a = P(1)
b = P(2)
c = a
a.swap(b)
print a.v
print b.v
print c.v
a.swap(c)
print a.v
print a.same(c)
print a.same(b)
"""),
    ("module_counter_in_constructor_and_methods", """
count = 0
total = 0
class D {
  id: int
  constructor(self) {
    self.id = count
    modify count = count + 1
  }
  fn tally(self, d: int) -> int {
    modify total = total + d + self.id
    return total
  }
  fn seen(self) -> int {
    return count
  }
}
a = D()
b = D()
c = D()
print count
print a.id
print b.id
print c.id
print a.seen()
print b.tally(10)
print c.tally(10)
print total
count = 100
print a.seen()
d = D()
print d.id
"""),
    ("objects_in_list_field_mutual", """
class Person {
  name: str
  friends: [Self...]
  constructor(self, name: str) {
    self.name = name
    self.friends = []
  }
  fn add_mutual(self, friend: Self) {
    self.friends.push(friend)
    friend.friends.push(self)
  }
}
me = Person("M")
f1 = Person("Y")
f2 = Person("D")
me.add_mutual(f1)
me.add_mutual(f2)
print me.friends.len()
print f1.friends.len()
x = (f2.friends)[0]
print x is me
y = (me.friends)[1]
print y is f2
y.name = "DD"
print f2.name
"""),
    ("rebinding_variable_keeps_old_object_alive_via_alias", """
class P {
  v: int
  constructor(self, a: int) {
    self.v = a
  }
}
a = P(1)
b = a
a = P(2)
print a.v
print b.v
print a is b
a.v = 20
print b.v
b.v = 10
print a.v
"""),
    ("closure_mutates_captured_object", """
class P {
  v: int
  constructor(self, a: int) {
    self.v = a
  }
  fn add(self, d: int) -> int {
    self.v += d
    return self.v
  }
}
a = P(1)
b = a
f = fn(d: int) -> int {
  return a.add(d)
}
print f(5)
print b.v
mk = fn(p: P) -> (fn() -> int) {
  return fn() -> int {
    return p.add(100)
  }
}
g = mk(b)
print g()
print a.v
"""),
    ("method_call_nested_in_argument", """
class C {
  n: int
  constructor(self, a: int) {
    self.n = a
  }
  fn add(self, d: int) -> int {
    self.n += d
    return self.n
  }
  fn me(self) -> Self {
    return self
  }
  fn same(self, o: Self) -> bool {
    return self is o
  }
  fn sum(self, o2: Self, k: int) -> int {
    return self.n + o2.n + k
  }
}
a = C(1)
b = C(10)
print a.add(b.add(1))
print a.n
print b.n
print a.same(b.me())
print a.same(a.me())
print a.sum(b.me(), b.add(a.add(1)))
print a.n
print b.n
"""),
    ("constructor_parameter_named_like_field", """
class Dog {
  name: str
  age: int
  constructor(self, name: str, age: int) {
    self.name = name
    self.age = age
  }
  fn older(self, age: int) -> int {
    self.age = self.age + age
    return self.age
  }
}
x = Dog("Scout", 3)
y = Dog("Muna", 5)
print x.name
print y.name
print x.older(1)
print y.age
"""),
    ("two_classes_with_same_field_and_method_names", """
class B {
  v: int
  constructor(self, a: int) {
    self.v = a
  }
  fn getv(self) -> int {
    return self.v
  }
}
class A {
  v: int
  b: B
  constructor(self, a: int) {
    self.v = a
    self.b = B(a * 10)
  }
  fn getv(self) -> int {
    return self.v + self.b.getv()
  }
}
a1 = A(1)
a2 = A(2)
print a1.getv()
print a2.getv()
a1.b.v = 0
print a1.getv()
print a2.getv()
print a1.v
"""),
    ("instances_created_in_a_loop", """
class P {
  v: int
  constructor(self, a: int) {
    self.v = a
  }
}
ps: [P...] = []
from 0 to 4, i {
  ps.push(P(i))
}
p0 = ps[0]
p3 = ps[3]
p0.v = 100
print p3.v
p1 = ps[1]
print p1.v
print p0 is p3
print ps.len()
"""),
    ("list_field_overwritten_with_equal_but_distinct_list", """
class Bag {
  items: [int...]
  constructor(self) {
    self.items = []
  }
  fn put(self, k: int) {
    self.items.push(k)
  }
  fn adopt(self, other: Self) {
    self.items = other.items
  }
  fn size(self) -> int {
    return self.items.len()
  }
}
a = Bag()
b = Bag()
a.put(1)
b.put(1)
print a.items is b.items
a.adopt(b)
print a.items is b.items
b.put(2)
print a.items
print a.size()
c = Bag()
d = Bag()
c.items = d.items
d.put(7)
print c.items
print c.items is d.items
e = Bag()
e.put(9)
e.adopt(b)
b.put(3)
print e.items
n: [int...] = [1, 2, 3]
b.items = n
n.push(4)
print b.items
print e.items
"""),
    ("map_field_overwritten_with_equal_but_distinct_map", """
class Reg {
  m: map[str, int]
  constructor(self) {
    self.m = map[str, int] {}
  }
  fn adopt(self, other: Self) {
    self.m = other.m
  }
}
a = Reg()
b = Reg()
print a.m is b.m
a.adopt(b)
print a.m is b.m
t = b.m
t["k"] = 4
print (a.m)["k"]
c = Reg()
nm = map[str, int] { "k": 4 }
c.m = nm
d = Reg()
dm = d.m
dm["k"] = 4
d.m = nm
nm["z"] = 1
print (d.m)["z"]
print (c.m)["z"]
print d.m is c.m
"""),
    ("pure_operators_on_field_reads_leave_object_unchanged", """
class Account {
  balance: int
  frozen: bool
  hist: [int...]
  constructor(self, balance: int) {
    self.balance = balance
    self.frozen = false
    self.hist = [balance]
  }
  fn debt(self) -> int {
    return -self.balance
  }
  fn usable(self) -> bool {
    return !self.frozen
  }
  fn firstneg(self) -> int {
    return -(self.hist)[0]
  }
  fn mix(self) -> int {
    return -self.balance + self.balance * 2 - (-self.balance)
  }
  fn deposit(self, k: int) {
    self.balance += k
  }
}
acc = Account(50)
alias = acc
print acc.debt()
print acc.balance
print alias.balance
print acc.usable()
print acc.frozen
print acc.usable()
print acc.firstneg()
print acc.hist
print acc.mix()
print acc.balance
acc.deposit(5)
print alias.balance
other = Account(7)
x = -other.balance
print x
print other.balance
y = !other.frozen
print y
print other.frozen
z = -(other.hist)[0]
print z
print other.hist
"""),
    ("field_read_then_reassigned_in_same_expression", """
class Cell {
  n: int
  constructor(self, n: int) {
    self.n = n
  }
  fn add(self, k: int) {
    self.n += k
  }
}
class Slot {
  item: Cell
  constructor(self, item: Cell) {
    self.item = item
  }
  fn swap(self, other: Cell) -> Cell {
    old = self.item
    self.item = other
    return old
  }
  fn weigh(self, x: Cell, y: Cell) -> int {
    return x.n * 100 + y.n
  }
}
b = Cell(2)
c = Cell(3)
s = Slot(b)
print s.weigh(s.item, s.swap(c))
t = s.swap(b)
print s.item is s.swap(c)
t = s.swap(b)
s.item.add(s.swap(c).n)
print b.n
print c.n
t = s.swap(b)
print s.item.n * 10 + s.swap(c).n
print s.weigh(s.swap(b), s.item)
"""),
    ("object_returned_from_method_of_other_object", """
class B {
  w: int
  constructor(self, w: int) {
    self.w = w
  }
}
class F {
  made: int
  last: B?
  constructor(self) {
    self.made = 0
    self.last = nil
  }
  fn make(self, w: int) -> B {
    self.made += 1
    nb = B(w)
    self.last = nb
    return nb
  }
}
f = F()
b1 = f.make(1)
b2 = f.make(2)
print b1 is b2
print f.last is b2
print f.made
b2.w = 20
print f.last.w
print b1.w
"""),
]


def work_catalogue(item):
    cid, src = item
    src = src.lstrip("\n")
    res = {"id": cid, "kind": "catalogue", "runs": 0}
    model = M.run_model(src, mutation=MUTATION)
    res["hazards"] = sorted(set(h[0] for h in model["hazards"]))
    res["stats"] = model["stats"]
    r = execute(src)
    res["runs"] = 1
    out = compare(src, model, r)
    if out is None:
        res["verdict"] = "agree"
        res["sample"] = {"case": cid, "source": src, "expected_lines": model["lines"]}
    elif out[0] == "inconclusive":
        res["verdict"] = "inconclusive"
        res["msg"] = out[1]
    elif out[0] == "rejected":
        res["verdict"] = "rejected"
        res["msg"] = out[1]
    else:
        res["verdict"] = "differ"
        res["deviation"] = out[0]
        res["witness"] = witness(src, model, r, {"case": cid, "detail": out[1]})
    return res


def work_random(item):
    seed, discard_hazards = item
    res = {"kind": "random", "seed": seed, "runs": 0}
    src, kinds, feats = O.gen_history(seed)
    res["kinds"] = kinds
    res["features"] = feats
    try:
        model = M.run_model(src, mutation=MUTATION)
    except M.Discard as d:
        res["verdict"] = "model_discard"
        res["msg"] = str(d)
        return res
    res["stats"] = model["stats"]
    if model["hazards"] and discard_hazards:
        res["verdict"] = "avoided"
        res["hazards"] = sorted(set(h[0] for h in model["hazards"]))
        return res
    if model["status"] != "ok":
        res["verdict"] = "model_discard"
        res["msg"] = "model predicts failure " + str(model["failkind"])
        return res
    r = execute(src)
    res["runs"] = 1
    out = compare(src, model, r)
    st = model["stats"]
    res["nontrivial"] = st["objects"] >= 2 and st["field_writes"] >= 2 and st["method_calls"] >= 1 and \
        any(k in ("alias", "return_from_function", "return_from_method", "read_from_list", "read_from_map") for k in kinds)
    res["hash"] = core.h(src)
    if out is None:
        res["verdict"] = "agree"
        if len(src) < 5000 and len(kinds) >= 6:
            res["sample"] = {"seed": seed, "steps": kinds, "source": src, "expected_lines": model["lines"][:40]}
    elif out[0] == "inconclusive":
        res["verdict"] = "inconclusive"
        res["msg"] = out[1]
    elif out[0] == "rejected":
        res["verdict"] = "rejected"
        res["msg"] = out[1]
    else:
        res["verdict"] = "differ"
        res["deviation"] = out[0]
        w = witness(src, model, r, {"seed": seed, "steps": kinds, "features": feats, "detail": out[1]})
        res["witness"] = w
        res["step_kind"] = w["first_deviating_kind"]
    return res


def work(item):
    if item[0] == "cat":
        return work_catalogue(item[1])
    return work_random(item[1])


def run(ctx):
    out = core.Outcome()
    items = [("cat", c) for c in CATALOGUE]
    nrand = ctx.n(4000, 30000)
    base = ctx.rng("histories").randrange(1 << 40)
    discard_hazards = dynamic_lookup_defect_listed()
    items += [("rand", (base + i, discard_hazards)) for i in range(nrand)]
    results = core.pmap(work, items, chunksize=8)
    cov = {"catalogue_cases": len(CATALOGUE), "catalogue_agree": 0, "catalogue_rejected": [], "random_histories": 0,
           "random_agree": 0, "random_rejected": 0, "random_avoided_by_rule": 0, "random_model_discard": 0,
           "steps_by_kind": {}, "features": {}, "model_events": {}}
    rejected_examples = []
    nviol_random = 0
    for status, res in results:
        if status != "ok":
            out.inconclusive.append(str(res)[-600:])
            continue
        out.evaluations += res["runs"]
        if res["kind"] == "catalogue":
            for k, v in res["stats"].items():
                cov["model_events"][k] = cov["model_events"].get(k, 0) + v
            v = res["verdict"]
            if v == "agree":
                cov["catalogue_agree"] += 1
                out.distinct.add(core.h(["cat", res["id"]]))
                if res["id"] == "nested_object_shared_between_two_owners":
                    out.samples.append(res["sample"])
            elif v == "rejected":
                cov["catalogue_rejected"].append(res["id"])
                rejected_examples.append({"case": res["id"], "msg": res["msg"][:400]})
            elif v == "inconclusive":
                out.inconclusive.append("%s: %s" % (res["id"], res["msg"]))
            else:
                out.distinct.add(core.h(["cat", res["id"]]))
                out.violations.append(core.Violation(
                    "C08:%s:%s" % (res["id"], res["deviation"]),
                    "catalogue program `%s` deviates from the object model (%s): expected %s, observed %s" % (
                        res["id"], res["deviation"], res["witness"]["expected_lines"][:6],
                        res["witness"]["observed_lines"][:6]),
                    res["witness"]))
            continue
        cov["random_histories"] += 1
        v = res["verdict"]
        if v == "model_discard":
            cov["random_model_discard"] += 1
            cov.setdefault("model_discard_examples", [])
            if len(cov["model_discard_examples"]) < 3:
                cov["model_discard_examples"].append(res["msg"])
            continue
        if v == "avoided":
            cov["random_avoided_by_rule"] += 1
            continue
        if v == "inconclusive":
            out.inconclusive.append("seed %s: %s" % (res["seed"], res["msg"]))
            continue
        if v == "rejected":
            cov["random_rejected"] += 1
            if len(rejected_examples) < 4:
                rejected_examples.append({"seed": res["seed"], "msg": res["msg"][:500]})
            continue
        for k in res["kinds"][1:]:
            cov["steps_by_kind"][k] = cov["steps_by_kind"].get(k, 0) + 1
        for f in res["features"]:
            cov["features"][f] = cov["features"].get(f, 0) + 1
        for k, n in res["stats"].items():
            cov["model_events"][k] = cov["model_events"].get(k, 0) + n
        if res["nontrivial"]:
            out.distinct.add(res["hash"])
        if v == "agree":
            cov["random_agree"] += 1
            if res.get("sample") and len(out.samples) < 3:
                out.samples.append(res["sample"])
        else:
            nviol_random += 1
            out.violations.append(core.Violation(
                "C08:history:%s:%s" % (res["step_kind"], res["deviation"]),
                "history (seed %s) deviates from the object model at step %s (%s): %s" % (
                    res["seed"], res["witness"]["first_deviating_step"], res["step_kind"], res["deviation"]),
                res["witness"]))
    cov["rejected_examples"] = rejected_examples
    cov["avoidance_rules"] = {
        "caller_local_shadow": "every binding (variables, parameters, fields, methods, classes) has a globally unique name; "
                               "histories in which the model meets the C07 dynamic-name-search defect are discarded "
                               "while that defect is a listed C07 finding (now: %s)" % ("listed" if discard_hazards else "not listed")}
    if MUTATION:
        cov["model_mutation"] = MUTATION
    out.coverage.update(cov)
    out.rule = ("catalogue = %d hand-shaped class programs (identical for every seed) + %d seeded random programs: 1-3 "
                "generated classes (int/str/list/optional/Self?/class/optional-class/list-of-class fields, constructor with "
                "parameters, getters, adders, sibling calls, return-Self, chaining, clone via Self(...), two-object methods, "
                "link/next methods, nested-object methods, module counters) and a history of 5-15 steps over <= 5 object "
                "variables (construct, alias, pass to function, return from function/method, list/map store and read, field "
                "write / op-assign / list push / nested write through any alias, method call, `is`, list `==`); after every "
                "step every field of every object variable is printed. evaluations = executions of the real binary compared "
                "line-by-line with the object model. non-trivial = at least 2 objects, 2 field writes, 1 method call and one "
                "aliasing step (alias / return / container read); distinct = distinct source text (catalogue: case id)."
                % (len(CATALOGUE), nrand))
    out.assumptions = [
        "reference semantics of mv/models/closures.py + objects.py: instances are identities, fields are cells, lists and "
        "maps hold references",
        "`a == b` on two objects is rejected by the compiler (`invalid operation: K == K`); equality of objects is observed "
        "through list equality (`[a, b] == [c, d]`), which the model decides by identity",
        "objects are never printed (Display contains an address); nil links are guarded by `if x.f == nil`",
        "dev-profile build; stdout of `mscript run`"]
    compared = cov["random_agree"] + cov["random_rejected"] + nviol_random
    if compared and cov["random_rejected"] > 0.02 * compared:
        out.observed_nothing = "%d of %d random programs rejected by the compiler: generator out of the language" % (
            cov["random_rejected"], compared)
    if out.evaluations == 0:
        out.observed_nothing = "no executions"
    return out


def replay(path):
    with open(os.path.join(path, "case.json")) as f:
        case = json.load(f)
    src = open(os.path.join(path, "files", "main.ms")).read()
    model = M.run_model(src)
    r = execute(src)
    out = compare(src, model, r)
    print("signature:", case.get("signature"))
    print("expected :", model["status"], model["failkind"], model["lines"])
    print("observed :", r.cls, r.lines())
    if r.err.strip():
        print("stderr   :", r.err.strip()[:600])
    if out is None:
        print("AGREES")
        return 0
    step, kind = M.first_deviation(model["lines"], r.lines())
    print("DIFFERS (%s) first deviating step: %s %s" % (out[0], step, kind))
    return 1
