"""C12 — optionals: `x == nil`, `get x`, `(x) or y`, `a ?= e` behave as the value-level model says.

Workload (deterministic, identical for every seed, both tiers): the ENUMERATED product
  carried type x holder x state x construct x position x depth x operand form
filtered by the applicability table below (data).  One program per cell; the model
(mv/models/optionals.py) interprets the same IR that is rendered to MScript, and predicts the exact stdout
and, for `get nil`, the failure and the source span of that `get`.  Fallbacks of `or` are logging calls, so
non-evaluation is observable; holders of kind `result` log each call.
Thorough tier adds seeded programs that combine several optionals, deeper nesting and longer sequences.

Signature: C12:<construct>:<holder>:<state>:<depth>:<form>:<deviation>  (type and position are listed in the
witness: they never changed the verdict of a cell's root cause in practice and would multiply signatures)."""
import json
import os
import re

from .. import core
from ..models import optionals as M

RUN = "@@RUN@@"

# ----------------------------------------------------------------------------- dimensions
TYPES = {
    # name: (type text, present value v1, other value v2, literal available)
    "int": ("int", 7, 3, True),
    "str": ("str", "hi", "zz", True),
    "float": ("float", 2.5, 0.5, True),
    "bool": ("bool", True, False, True),
    "list": ("[int...]", [1, 2], [9], False),
    "class": ("K", None, None, False),
}
# `narrowed`: an optional variable that a plain re-assignment made present (the checker then records the carried
# type for it) and that `?=` may have emptied again: `get` must still check it
HOLDERS = ["var", "param", "result", "elem", "field", "maplookup", "narrowed"]
STATES = ["nil", "present"]
CONSTRUCTS = ["eq_nil", "ne_nil", "nil_eq", "eq_lit", "eq_var", "var_eq", "eq_other", "ne_var",
              "get", "or_call", "or_lit", "or_var", "assign_nil", "assign_over"]
BOOL_RESULT = {"eq_nil", "ne_nil", "nil_eq", "eq_lit", "eq_var", "var_eq", "eq_other", "ne_var", "assign_nil",
               "assign_over"}
# `bare`: the construct is an expression statement, its value unused (a `get x` guard, `(x) or log()`, `a ?= e`)
POSITIONS = ["stmt", "print", "bare", "if", "while", "opnd_left", "opnd_right"]
# `escaped`: holder, fallback variable, `?=` target ... are locals of a factory function; the construct sits in a
# closure RETURNED by the factory and called after the factory's frame is gone (captures are all it has); every
# captured name is mentioned only inside the construct (apart from the `?=` target, which is printed)
# `caller_shadow`: the construct sits in a function that captures the holder / fallback / `?=` target, and is called
# from a driver function owning unrelated locals of the SAME names (other values): names resolve lexically
# `read_then_local` (`?=` only): the function first READS the outer target (so it is captured), then declares a
# local of the same name, then does `a ?= e`: the local receives the value, the outer variable is untouched
DEPTHS = ["top", "block", "func", "escaped", "caller_shadow", "read_then_local"]
FORMS = ["var", "lit"]

CLASS_K = ("raw", ["class K {", "  id: int", "  constructor(self, id: int) { self.id = id }", "}"])

# ----------------------------------------------------------------------------- applicability (data)
# (predicate, reason, expectation) — expectation 'rejected' means: the cell is outside the language and the
# engine VERIFIES that the compiler rejects its program (so that the table cannot rot silently); 'skip' means
# the cell cannot be written at all.
VALUE_EQ = ("eq_lit", "eq_var", "var_eq", "eq_other", "ne_var")
APPLICABILITY = [
    (lambda c: c["depth"] == "read_then_local" and c["construct"] not in ("assign_nil", "assign_over"),
     "depth read_then_local is about the target of `?=`", "skip"),
    (lambda c: c["holder"] == "narrowed" and c["construct"] != "get",
     "the narrowed holder has the carried (non-optional) static type: only `get` is written for it", "skip"),
    (lambda c: c["holder"] == "narrowed" and c["depth"] in ("escaped", "caller_shadow"),
     "narrowing is recorded per block of one function", "skip"),
    (lambda c: c["form"] == "lit" and c["type"] in ("list", "class"),
     "literal operand form needs a literal of the carried type", "skip"),
    (lambda c: c["form"] == "lit" and c["holder"] != "direct", "literal operand form has no holder", "skip"),
    (lambda c: c["form"] == "var" and c["holder"] == "direct", "holder `direct` is the literal form", "skip"),
    (lambda c: c["construct"] in VALUE_EQ and c["type"] in ("bool", "list", "class") and c["holder"] != "direct",
     "`T? == T` is not an operation of the language for T in bool, [int...], class (type.rs get_output_type: "
     "only str and numeric kinds compare after disregard_optional)", "rejected"),
    (lambda c: c["construct"] in ("assign_nil", "assign_over") and c["holder"] == "direct" and c["state"] == "nil",
     "`a ?= nil` with a literal nil is refused by the type checker (\"invalid operation: T? ?= nil\": a bare nil has "
     "no carried type)", "rejected"),
]


def applicable(cell):
    for pred, why, exp in APPLICABILITY:
        if pred(cell):
            return exp, why
    return "run", None


# ----------------------------------------------------------------------------- program construction
def present_expr(ty):
    if ty == "list":
        return ("var", "lv1")
    if ty == "class":
        return ("var", "ov1")
    return ("lit", TYPES[ty][1])


def other_expr(ty):
    if ty == "list":
        return ("var", "lv2")
    if ty == "class":
        return ("var", "ov2")
    return ("lit", TYPES[ty][2])


def show(e, ty):
    """Printable projection of a value of the carried type (objects are never printed)."""
    return ("field", e, "id") if ty == "class" else e


def show_opt(name, ty):
    """Statements printing the state of optional variable `name`."""
    if ty != "class":
        return [("print", ("var", name))]
    return [("if", ("ne", ("var", name), ("nil",)), [("print", ("field", ("get", ("var", name), 900), "id"))],
             [("print", ("lit", "nil"))])]


def build(cell, positions=None):
    """-> IR program for one cell, or (positions given) for the batch of cells that differ only in position.
    Names that a position introduces carry the position's index, so the parts of a batch are independent."""
    ty, holder, state, cons, depth, form = (cell[k] for k in ("type", "holder", "state", "construct", "depth", "form"))
    single = positions is None
    positions = [cell["position"]] if single else positions
    tt = TYPES[ty][0]
    opt = tt + "?"
    pv, ov = present_expr(ty), other_expr(ty)
    init = pv if state == "present" else ("nil",)
    pre = [("print", ("lit", RUN))]
    pre_vars = []          # value variables: module level, or factory-local at depth `escaped`
    if ty == "class":
        pre.append(CLASS_K)
        pre_vars += [("decl", "ov1", None, ("new", "K", [("lit", 1)])), ("decl", "ov2", None, ("new", "K", [("lit", 2)]))]
    if ty == "list":
        pre_vars += [("decl", "lv1", "[int...]", ("listlit", [("lit", 1), ("lit", 2)])),
                     ("decl", "lv2", "[int...]", ("listlit", [("lit", 9)]))]
    decls = []
    # ---- the holder: declarations + the expression that reads the optional
    if holder == "var":
        decls.append(("decl", "x", opt, init))
        ref = ("var", "x")
    elif holder == "narrowed":
        decls.append(("decl", "x", opt, ("nil",)))
        decls.append(("assign", "x", pv))
        if state == "nil":
            decls.append(("decl", "nz", opt, ("nil",)))
            decls.append(("decl", "nf", None, ("unwrap", "x", ("var", "nz"))))
        ref = ("var", "x")
    elif holder == "param":
        ref = ("var", "p")
    elif holder == "result":
        decls.append(("fn", "mk", [("k", "int")], opt, [("print", ("lit", "mk called")),
                                                        ("if", ("eq", ("var", "k"), ("lit", 1)), [("return", pv)], None),
                                                        ("return", ("nil",))]))
        decls.append(("decl", "sel", None, ("lit", 1 if state == "present" else 0)))
        ref = ("call", "mk", [("var", "sel")])
    elif holder == "elem":
        decls.append(("decl", "l", "[%s...]" % opt, ("listlit", [("nil",), pv])))
        ref = ("index", ("var", "l"), 1 if state == "present" else 0)
    elif holder == "field":
        pre.append(("raw", ["class Bx {", "  v: %s" % opt, "  constructor(self, v: %s) { self.v = v }" % opt, "}"]))
        decls.append(("decl", "b", None, ("new", "Bx", [init])))
        ref = ("field", ("var", "b"), "v")
    elif holder == "maplookup":
        decls.append(("decl", "pv0", opt, init))
        decls.append(("decl", "mp", None, ("maplit", "str", opt, [("k", ("var", "pv0"))])))
        ref = ("mapget", ("var", "mp"), "k")
    elif holder == "direct":
        ref = init
    else:
        raise ValueError(holder)
    if cons in ("eq_var", "var_eq", "ne_var"):
        decls.append(("decl", "w1", None, pv))
    if cons == "or_call":
        decls.append(("fn", "fb", [], tt, [("print", ("lit", "fb called")), ("return", ov)]))
    if cons == "or_var":
        decls.append(("decl", "fv", tt if ty == "list" else None, ov))
    decls.append(("decl", "t1", None, ("lit", True)))
    is_bool = cons in BOOL_RESULT or ty == "bool"
    value_kind = cons not in BOOL_RESULT
    parts = []
    for pos in positions:
        i = "" if single else str(POSITIONS.index(pos))
        # ---- the construct
        after = []
        if cons == "eq_nil":
            e = ("eq", ref, ("nil",))
        elif cons == "ne_nil":
            e = ("ne", ref, ("nil",))
        elif cons == "nil_eq":
            e = ("eq", ("nil",), ref)
        elif cons == "eq_lit":
            e = ("eq", ref, pv)
        elif cons == "eq_var":
            e = ("eq", ref, ("var", "w1"))
        elif cons == "var_eq":
            e = ("eq", ("var", "w1"), ref)
        elif cons == "eq_other":
            e = ("eq", ref, ov)
        elif cons == "ne_var":
            e = ("ne", ref, ("var", "w1"))
        elif cons == "get":
            e = ("get", ref, 1 + POSITIONS.index(pos))
        elif cons == "or_call":
            e = ("or", ref, ("call", "fb", []))
        elif cons == "or_lit":
            e = ("or", ref, ov)
        elif cons == "or_var":
            e = ("or", ref, ("var", "fv"))
        elif cons in ("assign_nil", "assign_over"):
            decls.append(("decl", "a" + i, opt, ("nil",) if cons == "assign_nil" else ov))
            e = ("unwrap", "a" + i, ref)
            after = show_opt("a" + i, ty)
        else:
            raise ValueError(cons)
        # a bool-valued view of the construct for if/while
        if is_bool:
            cond = e
        elif ty == "list":
            cond = ("eq", ("len", e), ("lit", 2))
        elif ty == "class":
            cond = ("eq", ("field", e, "id"), ("lit", 1))
        else:
            cond = ("eq", e, pv)
        # ---- the position
        if pos == "stmt":
            body = [("decl", "r" + i, None, e), ("print", show(("var", "r" + i), ty) if value_kind else ("var", "r" + i))]
        elif pos == "print":
            body = [("print", show(e, ty) if value_kind else e)]
        elif pos == "bare":
            # the `if` block in front ends the previous statement: a line that starts with `(` would otherwise be
            # parsed as a call of whatever the previous line ends with
            body = [("if", ("var", "t1"), [("print", ("lit", "before bare"))], None), ("expr", e),
                    ("print", ("lit", "after bare"))]
        elif pos == "if":
            body = [("if", cond, [("print", ("lit", "then"))], [("print", ("lit", "else"))])]
        elif pos == "while":
            body = [("decl", "n" + i, None, ("lit", 0)),
                    ("while", cond, [("print", ("lit", "body")), ("assign", "n" + i, ("add", ("var", "n" + i), ("lit", 1))),
                                     ("if", ("eq", ("var", "n" + i), ("lit", 2)), [("break",)], None)]),
                    ("print", ("lit", "after"))]
        elif pos in ("opnd_left", "opnd_right"):
            left = pos == "opnd_left"
            if is_bool:
                big = ("and", e, ("var", "t1")) if left else ("and", ("var", "t1"), e)
            elif ty == "int":
                big = ("add", e, ("lit", 1)) if left else ("add", ("lit", 1), e)
            elif ty == "float":
                big = ("add", e, ("lit", 0.25)) if left else ("add", ("lit", 0.25), e)
            elif ty == "str":
                big = ("add", e, ("lit", "!")) if left else ("add", ("lit", "<"), e)
            elif ty == "list":
                big = ("len", e) if left else ("add", ("lit", 0), ("len", e))
            else:
                big = ("field", e, "id") if left else ("add", ("lit", 0), ("field", e, "id"))
            body = [("decl", "r" + i, None, big), ("print", ("var", "r" + i))]
        else:
            raise ValueError(pos)
        body = [("print", ("lit", "pos " + pos))] + body + after
        # ---- the depth
        if depth == "top":
            inner = body
        elif depth == "block":
            inner = [("block", body)]
        elif depth == "func":
            inner = [("fn", "g" + i, [], None, body), ("callstmt", "g" + i, [])]
        elif depth == "caller_shadow":
            flip = ("nil",) if state == "present" else pv
            decoys = []
            if holder == "param":
                decoys.append(("decl", "p", opt, flip))
            for d in decls:
                if d[0] != "decl":
                    continue
                nm = d[1]
                if nm in ("x", "pv0"):
                    decoys.append(("decl", nm, opt, flip))
                elif nm == "w1":
                    decoys.append(("decl", nm, d[2], ov))
                elif nm == "fv":
                    decoys.append(("decl", nm, d[2], pv))
                elif nm == "sel":
                    decoys.append(("decl", nm, None, ("lit", 0 if state == "present" else 1)))
                elif nm == "l":
                    decoys.append(("decl", nm, d[2], ("listlit", [pv, ("nil",)])))
                elif nm == "b":
                    decoys.append(("decl", nm, None, ("new", "Bx", [flip])))
                elif nm == "a" + i:
                    # a value that is neither the target's initial value nor what `?=` stores
                    decoys.append(("decl", nm, opt, ov if cons == "assign_nil" else
                                   (("nil",) if state == "present" else pv)))
            inner = [("fn", "g" + i, [], None, body),
                     ("fn", "dr" + i, [], None, decoys + [("callstmt", "g" + i, []), ("print", ("lit", "driver done"))]),
                     ("callstmt", "dr" + i, [])]
        elif depth == "read_then_local":
            a = "a" + i
            local_init = ov if cons == "assign_nil" else ("nil",)
            inner = [("fn", "g" + i, [], None,
                      [("decl", "seen" + i, None, ("eq", ("var", a), ("nil",))), ("print", ("var", "seen" + i)),
                       ("decl", a, opt, local_init)] + body),
                     ("callstmt", "g" + i, [])]
        elif depth == "escaped":
            inner = None
            esc_body = body
        else:
            raise ValueError(depth)
        if inner is not None:
            parts += inner + [("print", ("lit", "end"))] + after        # `after` again, outside the nested scope
    if depth == "escaped":
        if not single:
            raise ValueError("depth `escaped` is built one position per program")
        closure = [("fn", "g", [], "int", esc_body + [("return", ("lit", 0))]), ("return", ("var", "g"))]
        if holder == "param":
            # the argument is evaluated at module level, so the value variables stay there; `fv`, `w1`, `a`, `fb`
            # are still locals of the factory
            pre = pre + pre_vars
            factory = ("fn", "fp", [("p", opt)], "fn() -> int", decls + closure)
            made = ("decl", "h", None, ("call", "fp", [init]))
        else:
            factory = ("fn", "mkf", [], "fn() -> int", pre_vars + decls + closure)
            made = ("decl", "h", None, ("call", "mkf", []))
        # the factory has returned when `h` runs; twice, so that state kept in captures is seen again
        return pre + [factory, made, ("print", ("lit", "made")), ("callstmt", "h", []), ("callstmt", "h", []),
                      ("print", ("lit", "end"))]
    if holder == "param":
        prog = pre + pre_vars + [("fn", "fp", [("p", opt)], None, decls + parts), ("callstmt", "fp", [init])]
    else:
        prog = pre + pre_vars + decls + parts
    return prog


def cells():
    out = []
    for ty in TYPES:
        for holder in HOLDERS + ["direct"]:
            for state in STATES:
                for cons in CONSTRUCTS:
                    for pos in POSITIONS:
                        for depth in DEPTHS:
                            for form in FORMS:
                                out.append(dict(type=ty, holder=holder, state=state, construct=cons, position=pos,
                                                depth=depth, form=form))
    return out


def cell_id(c):
    return ":".join(c[k] for k in ("construct", "holder", "type", "state", "position", "depth", "form"))


FAMILY = {"eq_nil": "nil_test", "ne_nil": "nil_test", "nil_eq": "nil_test", "eq_lit": "eq_value", "eq_var": "eq_value",
          "var_eq": "eq_value", "eq_other": "eq_value", "ne_var": "eq_value", "get": "get", "or_call": "or",
          "or_lit": "or", "or_var": "or", "assign_nil": "unwrap_assign", "assign_over": "unwrap_assign"}
# holders by run-time representation of what the construct receives: a named variable, a call result, a
# pointer into a list / object / map (HeapPrimitive), a literal
HOLDER_CLASS = {"narrowed": "name", "var": "name", "param": "name", "result": "call", "elem": "pointer", "field": "pointer",
                "maplookup": "pointer", "direct": "literal"}


def signature(c, dev):
    return "C12:%s:%s:%s:%s:%s" % (FAMILY[c["construct"]], HOLDER_CLASS[c["holder"]], c["state"], c["depth"], dev)


# ----------------------------------------------------------------------------- checking one program
NIL_RE = re.compile(r"LOGIC ERROR IN CODE >> ([^\s:]+):(\d+):(\d+): unwrap of `nil`")
POS_RE = re.compile(r"--> ([^\s:]+):(\d+):(\d+)")
ANYPOS_RE = re.compile(r"([^\s:`'\"()]+\.ms):(\d+):(\d+)")


def check_program(prog, break_or=False):
    """Run one IR program against the model.  -> dict(kind=agree|rejected|inconclusive|problem, ...)"""
    model = M.Model(or_evaluates_fallback=break_or)
    lines, status = model.execute(prog)
    src, spans = M.render(prog)
    r, _, _ = core.run_program({"main.ms": src}, cpu=10)
    res = {"events": model.events, "expects_failure": status[0] == "getnil"}
    if r.cls in ("wall_timeout", "spawn_error", "cpu_timeout"):
        res.update(kind="inconclusive", why=r.cls)
        return res
    got = r.lines()
    compile_rejected = RUN not in r.out and r.cls == "fail" and core.BANNER not in r.err
    dev = None
    if compile_rejected:
        # only a literal `get nil` may be refused at compile time (it then names the get's line)
        if status[0] == "getnil":
            ln = spans[status[1]][0]
            if any(int(m.group(2)) == ln for m in POS_RE.finditer(r.out)):
                res.update(kind="agree", how="compile_time_get_nil")
                return res
        res.update(kind="rejected", msg=r.out[-700:], source=src)
        return res
    if status[0] == "ok":
        if r.cls != "ok":
            dev = "unexpected_failure" if got == lines[:len(got)] else "output_then_failure"
        elif got != lines:
            dev = "output"
    else:
        ln, c0, c1 = spans[status[1]]
        if break_or == "get_line":          # oracle validation: expect the line after the get
            ln += 1
        if break_or == "get_col":           # oracle validation: expect a column left of the get expression
            c0, c1 = 1, c0 - 1
        # wording-independent: the report must be the defined failure "use of nil" and its cause must carry a source
        # position `main.ms:<line>:<col>`; that position has to lie inside the `get` expression
        m = NIL_RE.search(r.err)
        cause = r.err.split("Caused by:", 1)[1] if "Caused by:" in r.err else r.err
        named = [(f, int(l_), int(c_)) for f, l_, c_ in ANYPOS_RE.findall(cause)]
        is_nil = m is not None or core.classify_failure(r) == ("defined", "nil")
        hit = [p_ for p_ in named if os.path.basename(p_[0]) == "main.ms" and p_[1] == ln and c0 <= p_[2] <= c1]
        if r.cls == "ok":
            dev = "get_nil_did_not_stop"
        elif got != lines:
            dev = "output_before_get_nil"
        elif r.cls != "fail" or core.BANNER not in r.err or not is_nil or not named:
            dev = "get_nil_wrong_failure"
        elif not hit:
            dev = "get_nil_wrong_position"
        else:
            res["position"] = (hit[0][1], hit[0][2], (ln, c0, c1))
    if dev is None:
        res.update(kind="agree", how="run")
        return res
    res.update(kind="problem", dev=dev, witness={
        "files": {"main.ms": src}, "expected_lines": lines, "expected_status": list(status),
        "expected_get_span(line,col0,col1)": list(spans.get(status[1], ())) if status[0] == "getnil" else None,
        "observed_lines": got, "run": r.brief()})
    return res


# ----------------------------------------------------------------------------- identity scripts (round 6)
# `a ?= e` STORES the value of e: when e is a list with the same contents as the list a already holds, a must refer to
# e's list afterwards (observable through a later in-place update).  (id, source, expected lines)
SCRIPTS = [
    ("unwrap_assign_equal_but_distinct_list",
     "left: [int...] = [0]\nright: [int...] = [0]\ncur: [int...]? = left\nok = cur ?= right\nprint ok\nc2 = get cur\nc2.push(3)\nprint left\nprint right\n",
     ["true", "[0]", "[0, 3]"]),
    ("unwrap_assign_equal_but_distinct_empty_list",
     "e1: [int...] = []\ne2: [int...] = []\nholder: [int...]? = e1\nt2 = holder ?= e2\nh2 = get holder\nh2.push(7)\nprint e1\nprint e2\n",
     ["[]", "[7]"]),
    ("unwrap_assign_walk_over_equal_rows",
     "rows: [[int...]?...] = [[0], [0, 1], [0], nil]\nfirst: [int...] = [0]\nrow: [int...]? = first\ni = 0\nwhile row ?= rows[i] {\n  r = get row\n  r.push(9)\n  i += 1\n}\nprint rows\nprint first\n",
     ["[[0, 9], [0, 1, 9], [0, 9], nil]", "[0]"]),
    ("unwrap_assign_equal_but_distinct_list_in_function",
     "left: [int...] = [0]\nright: [int...] = [0]\ngo = fn() -> bool {\n  cur: [int...]? = left\n  fl = cur ?= right\n  c2 = get cur\n  c2.push(3)\n  return fl\n}\nprint go()\nprint left\nprint right\n",
     ["true", "[0]", "[0, 3]"]),
    ("unwrap_assign_same_scalar_and_str",
     "a: int? = 5\nb: int? = 5\nprint a ?= b\nprint a\ns: str? = \"x\"\nu: str? = \"x\"\nprint s ?= u\nprint s\nn: int? = nil\nprint a ?= n\nprint a == nil\n",
     ["true", "5", "true", "x", "false", "true"]),
    # round 8 (C12-17): a present optional compared with a plain value of ANOTHER numeric kind, both operand orders
    ("present_optional_equals_value_across_kinds",
     "big: bigint? = B4294967301\nsmall = 5\nprint big == small\nprint small == big\nprint big != small\nb5: bigint? = B5\nprint b5 == small\nprint small == b5\n"
     "fo: float? = 5.0\nprint fo == small\nprint small == fo\nio: int? = 5\nbv = B5\nprint io == bv\nprint bv == io\nbw = B4294967301\nprint io == bw\nprint bw != io\n",
     ["false", "false", "true", "true", "true", "true", "true", "true", "true", "false", "true"]),
    ("unwrap_assign_equal_but_distinct_map",
     "m1 = map[int, int] {\n 1: 1\n}\nm2 = map[int, int] {\n 1: 1\n}\ncur: map[int, int]? = m1\nfl = cur ?= m2\nc2 = get cur\nc2[2] = 2\nprint m1.len()\nprint m2.len()\n",
     ["1", "2"]),
]


def work_script(item):
    _, sid, src, exp = item
    r, _, _ = core.run_program({"main.ms": 'print "%s"\n' % RUN + src}, cpu=10)
    res = {"events": {}, "script": sid}
    if r.cls in ("wall_timeout", "spawn_error", "cpu_timeout"):
        res.update(kind="inconclusive", why=r.cls)
    elif core.compile_rejected(r):
        res.update(kind="rejected", msg=(r.out + r.err)[-400:])
    elif r.cls != "ok" or r.lines() != [RUN] + exp:
        res.update(kind="problem", dev="failure" if r.cls != "ok" else "output",
                   witness={"files": {"main.ms": 'print "%s"\n' % RUN + src}, "expected_lines": exp, "observed_lines": r.lines()[1:], "run": r.brief()})
    else:
        res.update(kind="agree")
    return res


def work(item):
    if item[0] == "script":
        return work_script(item)
    """('group', cell-without-position, brk): the 6 positions of one cell group are first run as ONE program (each
    position uses its own names; the model predicts the whole output); when the model predicts a failure, or the
    batch does not agree, every position is run as its own program so that a deviation is attributed exactly."""
    kind, arg, brk = item
    if kind == "rand":
        prog, meta = gen_random(arg)
        res = check_program(prog, brk)
        res["meta"] = meta
        res["seed"] = arg
        return res
    exp, _why = applicable(dict(arg, position=POSITIONS[0]))
    out = {"group": arg, "expect": exp, "runs": 0, "cells": [], "events": {}}
    status = ("unbatched",)
    if arg["depth"] != "escaped":
        batch = build(arg, POSITIONS)
        _lines, status = M.Model(or_evaluates_fallback=brk).execute(batch)
    if status[0] == "ok":
        res = check_program(batch, brk)
        out["runs"] += 1
        if res["kind"] in ("agree", "inconclusive") or (res["kind"] == "rejected" and exp == "rejected"):
            out["events"] = res["events"]
            out["cells"] = [(pos, res["kind"], None, None) for pos in POSITIONS]
            out["why"] = res.get("why")
            out["batched"] = True
            return out
    for pos in POSITIONS:
        c = dict(arg, position=pos)
        res = check_program(build(c), brk)
        out["runs"] += 1
        for k, v in res["events"].items():
            out["events"][k] = out["events"].get(k, 0) + v
        extra = None
        if res["kind"] == "problem":
            extra = res["witness"]
        elif res["kind"] == "rejected":
            extra = res["msg"]
        elif res["kind"] == "agree":
            extra = res.get("how")
        out["cells"].append((pos, res["kind"], res.get("dev"), extra))
        if res["expects_failure"]:
            out["expected_failures"] = out.get("expected_failures", 0) + 1
    return out


# ----------------------------------------------------------------------------- seeded multi-optional programs (thorough)
AVOID = {
    # construct avoided by the random generator -> finding it is named after (filled from the catalogue's verdicts)
}


def gen_random(seed):
    """A program with several optionals of several types/holders, 10-30 constructs, nested up to depth 3.
    `?=` is generated only where the catalogue holds (same scope as the target's declaration)."""
    import random
    rng = random.Random(core.h(["c12-rand", seed]))
    gid = [10]
    names = [0]

    def fresh(p):
        names[0] += 1
        return "%s%d" % (p, names[0])

    prog = [("print", ("lit", RUN)), CLASS_K,
            ("decl", "ov1", None, ("new", "K", [("lit", 1)])), ("decl", "ov2", None, ("new", "K", [("lit", 2)])),
            ("decl", "lv1", "[int...]", ("listlit", [("lit", 1), ("lit", 2)])),
            ("decl", "lv2", "[int...]", ("listlit", [("lit", 9)])),
            ("decl", "t1", None, ("lit", True))]
    tys = list(TYPES)
    fbs = {}
    for ty in tys:
        fn = "fb_" + ty
        fbs[ty] = fn
        prog.append(("fn", fn, [], TYPES[ty][0], [("print", ("lit", "fb " + ty)), ("return", other_expr(ty))]))
    # optionals: (ref expr, type, scope level of a plain variable or None)
    opts = []
    n_opts = rng.randint(3, 7)
    for _ in range(n_opts):
        ty = rng.choice(tys)
        opt = TYPES[ty][0] + "?"
        init = present_expr(ty) if rng.random() < 0.55 else ("nil",)
        h = rng.choice(HOLDERS[:1] * 3 + ["result", "elem", "field", "maplookup"])
        if h == "var":
            n = fresh("x")
            prog.append(("decl", n, opt, init))
            opts.append((("var", n), ty, n))
        elif h == "result":
            n, s = fresh("mk"), fresh("sel")
            prog.append(("fn", n, [(fresh("k"), "int")], opt, None))
            k = prog[-1][2][0][0]
            prog[-1] = ("fn", n, [(k, "int")], opt, [("print", ("lit", n + " called")),
                                                     ("if", ("eq", ("var", k), ("lit", 1)), [("return", present_expr(ty))], None),
                                                     ("return", ("nil",))])
            prog.append(("decl", s, None, ("lit", 1 if init[0] != "nil" else 0)))
            opts.append((("call", n, [("var", s)]), ty, None))
        elif h == "elem":
            n = fresh("l")
            prog.append(("decl", n, "[%s...]" % opt, ("listlit", [("nil",), present_expr(ty)])))
            opts.append((("index", ("var", n), 1 if init[0] != "nil" else 0), ty, None))
        elif h == "field":
            cn, n = fresh("Bx"), fresh("b")
            M.CLASS_FIELDS[cn] = ["v"]
            prog.append(("raw", ["class %s {" % cn, "  v: %s" % opt, "  constructor(self, v: %s) { self.v = v }" % opt, "}"]))
            prog.append(("decl", n, None, ("new", cn, [init])))
            opts.append((("field", ("var", n), "v"), ty, None))
        else:
            pn, n = fresh("pv"), fresh("mp")
            prog.append(("decl", pn, opt, init))
            prog.append(("decl", n, None, ("maplit", "str", opt, [("k", ("var", pn))])))
            opts.append((("mapget", ("var", n), "k"), ty, None))
    targets = {}      # type -> name of a ?= target declared at top level
    for ty in tys:
        n = fresh("a")
        prog.append(("decl", n, TYPES[ty][0] + "?", ("nil",)))
        targets[ty] = n
    feats = set()

    def boolexpr(level):
        ref, ty, _ = rng.choice(opts)
        c = rng.choice(["eq_nil", "ne_nil", "nil_eq", "eq_v", "unwrap"] if level == 0 else ["eq_nil", "ne_nil", "nil_eq", "eq_v"])
        if c == "eq_v" and ty in ("bool", "list", "class"):
            c = "eq_nil"
        feats.add(c)
        if c == "eq_nil":
            return ("eq", ref, ("nil",))
        if c == "ne_nil":
            return ("ne", ref, ("nil",))
        if c == "nil_eq":
            return ("eq", ("nil",), ref)
        if c == "eq_v":
            k = rng.random()
            if k < 0.5:
                return ("eq", ref, rng.choice([present_expr(ty), other_expr(ty)]))
            if k < 0.75:
                feats.add("eq_opt_opt")
                return ("eq", ref, optref(ty))
            feats.add("eq_opt_or")
            return ("eq", ref, ("or", optref(ty), plain(ty, 1)))
        feats.add("unwrap_from_" + ref[0])
        return ("unwrap", targets[ty], ref)

    def optref(ty):
        cands = [o for o in opts if o[1] == ty]
        return rng.choice(cands)[0] if cands else None

    def plain(ty, depth):
        """Expression of the plain type `ty`: literal/variable, logging fallback call, `get opt`, `(opt) or plain`."""
        ref = optref(ty)
        k = rng.random()
        if ref is None or depth <= 0 or k < 0.2:
            return rng.choice([present_expr(ty), other_expr(ty)])
        if k < 0.4:
            return ("call", fbs[ty], [])
        if k < 0.48:
            gid[0] += 1
            feats.add("get")
            return ("get", ref, gid[0])
        feats.add("or" if depth == 2 else "or_nested")
        return ("or", ref, plain(ty, depth - 1))

    def valexpr():
        """(expr, type) of a value-producing construct (a `get` of a nil optional stops the program: intended)."""
        ref, ty, _ = rng.choice(opts)
        if rng.random() < 0.12:
            gid[0] += 1
            feats.add("get")
            return ("get", ref, gid[0]), ty
        feats.add("or")
        return ("or", ref, plain(ty, 2)), ty

    def stmts(level, budget):
        out = []
        while budget[0] > 0:
            budget[0] -= 1
            k = rng.random()
            if k < 0.3:
                e, ty = valexpr()
                out.append(("print", show(e, ty)))
            elif k < 0.44:
                out.append(("print", boolexpr(level)))
            elif k < 0.5:
                # bare expression statement (value unused): a `get` guard, an `or` with logging fallback, a test
                e = valexpr()[0] if rng.random() < 0.7 else boolexpr(level)
                out.append(("if", ("var", "t1"), [("print", ("lit", "bare"))], None))
                out.append(("expr", e))
                feats.add("bare_stmt")
            elif k < 0.62 and level < 3:
                out.append(("if", boolexpr(level), stmts(level + 1, budget), stmts(level + 1, budget) if rng.random() < 0.5 else None))
                feats.add("if")
            elif k < 0.7 and level < 3:
                n = fresh("n")
                out.append(("decl", n, None, ("lit", 0)))
                out.append(("while", ("and", boolexpr(level), ("ne", ("var", n), ("lit", 2))),
                            [("assign", n, ("add", ("var", n), ("lit", 1)))] + stmts(level + 1, budget)))
                feats.add("while")
            elif k < 0.78:
                # re-point a plain optional variable (present <-> nil happens through a fresh declaration only:
                # `x = nil` is not typable, so only present values are assigned)
                vs = [o for o in opts if o[2]]
                if vs and level == 0:
                    ref, ty, n = rng.choice(vs)
                    out.append(("assign", n, rng.choice([present_expr(ty), other_expr(ty)])))
                    feats.add("reassign")
            elif k < 0.86 and level == 0:
                for ty, n in targets.items():
                    if rng.random() < 0.3:
                        out.extend(show_opt(n, ty))
            elif k < 0.93:
                e, ty = valexpr()
                r = fresh("r")
                out.append(("decl", r, None, e))
                out.append(("print", show(("var", r), ty)))
            else:
                e1, ty = valexpr()
                if ty == "int":
                    out.append(("print", ("add", e1, ("lit", 1))))
                elif ty == "str":
                    out.append(("print", ("add", ("lit", "<"), e1)))
                else:
                    out.append(("print", ("and", boolexpr(1), ("var", "t1"))))
                feats.add("operand")
            if level > 0 and rng.random() < 0.35:
                break
        return out

    prog += stmts(0, [rng.randint(10, 30)])
    prog.append(("print", ("lit", "end")))
    return prog, {"features": sorted(feats), "optionals": n_opts}


# ----------------------------------------------------------------------------- driver
def groups():
    out = []
    for ty in TYPES:
        for holder in HOLDERS + ["direct"]:
            for state in STATES:
                for cons in CONSTRUCTS:
                    for depth in DEPTHS:
                        for form in FORMS:
                            out.append(dict(type=ty, holder=holder, state=state, construct=cons, depth=depth, form=form))
    return out


def run(ctx, break_or=False):
    out = core.Outcome()
    items, skipped = [], {}
    n_cells = 0
    for g in groups():
        n_cells += len(POSITIONS)
        exp, why = applicable(dict(g, position=POSITIONS[0]))
        if exp == "skip":
            skipped[why] = skipped.get(why, 0) + len(POSITIONS)
            continue
        items.append(("group", g, break_or))
    n_groups = len(items)
    items += [("script", sid, src, exp) for sid, src, exp in SCRIPTS]
    if not ctx.quick:
        base = ctx.seed * 1000003
        items += [("rand", base + i, break_or) for i in range(6000)]
    results = core.pmap(work, items, chunksize=8)
    cov = {"cells_in_product": n_cells, "cells_skipped_by_table": sum(skipped.values()),
           "cells_run": n_groups * len(POSITIONS), "programs_batching_all_positions": 0, "agree": 0,
           "agree_compile_time_get_nil": 0, "expected_get_nil_failures": 0,
           "rejected_as_table_says": 0, "rejected_unexpectedly": 0, "random_programs": 0, "random_agree": 0,
           "random_rejected": 0, "skip_reasons": skipped}
    events, per_cons, per_holder, per_type, per_pos = {}, {}, {}, {}, {}
    failing = {}
    rfeat = {}
    rej_examples = []
    table_stale = []
    for item, (status, res) in zip(items, results):
        if status != "ok":
            out.inconclusive.append(("%s: " % (item[1],)) + str(res)[-400:])
            continue
        for k, v in res["events"].items():
            events[k] = events.get(k, 0) + v
        if item[0] == "script":
            cov["identity_scripts"] = cov.get("identity_scripts", 0) + 1
            if res["kind"] == "inconclusive":
                out.inconclusive.append("script %s: %s" % (item[1], res["why"]))
            elif res["kind"] == "rejected":
                out.inconclusive.append("script %s is rejected by the compiler: %s" % (item[1], res["msg"][-200:]))
            elif res["kind"] == "problem":
                out.evaluations += 1
                out.violations.append(core.Violation("C12:script:%s:%s" % (item[1], res["dev"]),
                                                     "`?=` identity script %s deviates (%s)" % (item[1], res["dev"]), res["witness"]))
            else:
                out.evaluations += 1
                cov["identity_scripts_agree"] = cov.get("identity_scripts_agree", 0) + 1
                out.distinct.add(core.h(["script", item[1]]))
            continue
        if item[0] == "rand":
            if res["kind"] == "inconclusive":
                out.inconclusive.append(res["why"])
                continue
            out.evaluations += 1
            cov["random_programs"] += 1
            if res["expects_failure"]:
                cov["random_expected_get_nil"] = cov.get("random_expected_get_nil", 0) + 1
            for f in res["meta"]["features"]:
                rfeat[f] = rfeat.get(f, 0) + 1
            if res["kind"] == "agree":
                cov["random_agree"] += 1
                out.distinct.add(core.h(["rand", item[1]]))
                if len(out.samples) < 4 and res["events"].get("get:nil") and res["events"].get("or:present"):
                    prog, _ = gen_random(item[1])
                    out.samples.append({"random_seed": item[1], "source": M.render(prog)[0][:2500]})
            elif res["kind"] == "rejected":
                cov["random_rejected"] += 1
                if len(rej_examples) < 3:
                    rej_examples.append(res["msg"][-300:])
            else:
                w = res["witness"]
                w["random_seed"] = item[1]
                w["features"] = res["meta"]["features"]
                out.violations.append(core.Violation("C12:random:%s" % res["dev"],
                                                     "seeded multi-optional program deviates from the model (%s)" % res["dev"], w))
            continue
        g = res["group"]
        exp = res["expect"]
        out.evaluations += res["runs"]
        if res.get("batched"):
            cov["programs_batching_all_positions"] += 1
        cov["expected_get_nil_failures"] += res.get("expected_failures", 0)
        for pos, kind, dev, extra in res["cells"]:
            c = dict(g, position=pos)
            if kind == "inconclusive":
                out.inconclusive.append("%s: %s" % (cell_id(c), res.get("why")))
                continue
            if exp == "rejected":
                if kind == "rejected":
                    cov["rejected_as_table_says"] += 1
                else:
                    table_stale.append(cell_id(c))
                continue
            if kind == "rejected":
                cov["rejected_unexpectedly"] += 1
                if len(rej_examples) < 4:
                    rej_examples.append(cell_id(c) + ": " + str(extra)[-300:])
                continue
            out.distinct.add(core.h(cell_id(c)))
            for d, k in ((per_cons, "construct"), (per_holder, "holder"), (per_type, "type"), (per_pos, "position")):
                d[c[k]] = d.get(c[k], 0) + 1
            if kind == "agree":
                cov["agree"] += 1
                if extra == "compile_time_get_nil":
                    cov["agree_compile_time_get_nil"] += 1
                if len(out.samples) < 3 and (c["construct"], c["holder"], c["type"], c["position"], c["depth"]) in (
                        ("or_call", "result", "str", "while", "func"), ("get", "field", "class", "opnd_left", "block"),
                        ("assign_over", "elem", "int", "if", "top")) and c["state"] == "nil":
                    out.samples.append({"cell": cell_id(c), "source": M.render(build(c))[0]})
            else:
                key = signature(c, dev)
                if key not in failing:
                    w = extra
                    w["cell"] = c
                    failing[key] = (w, [])
                failing[key][1].append("%s/%s/%s/%s" % (c["construct"], c["holder"], c["type"], c["position"]))
    for key, (w, variants) in sorted(failing.items()):
        w["failing_cells_of_this_signature(construct/holder/type/position)"] = variants
        kinds = sorted({v.rsplit("/", 2)[0] for v in variants})
        out.violations.append(core.Violation(key, "%d cell(s) deviate from the optional model: %s; first: %s" % (
            len(variants), ", ".join(kinds)[:300], variants[0]), w))
    if table_stale:
        out.inconclusive.append("applicability table stale: cells documented as rejected by the compiler were accepted: %s"
                                % table_stale[:5])
    cov.update({"model_events": events, "cells_per_construct": per_cons, "cells_per_holder": per_holder,
                "cells_per_type": per_type, "cells_per_position": per_pos, "rejected_examples": rej_examples,
                "random_programs_per_feature": rfeat, "avoidance_rules": AVOID_RULES})
    out.coverage.update(cov)
    out.exhaustive = not out.inconclusive and cov["rejected_unexpectedly"] == 0
    out.rule = ("catalogue = every applicable cell of type(6) x holder(6 + literal) x state(2) x construct(%d) x "
                "position(%d) x depth(6) x form(2); the %d positions of a cell group run as one program (own names per "
                "position) when the model predicts no failure, and as one program each when it predicts a failure, the "
                "batch disagrees, or the depth is `escaped` (one returned closure per program)%s; a cell is non-trivial when its program was accepted by the compiler and "
                "compared with the model (distinct = distinct cells / random seeds); evaluations = executions of the "
                "binary compared line by line (and failure position) with the model."
                % (len(CONSTRUCTS), len(POSITIONS), len(POSITIONS),
                   "; plus 6000 seeded multi-optional programs" if not ctx.quick else "; no random part in quick"))
    out.assumptions = [
        "equality is value equality: nil equals only nil; a present optional differs from every value other than the "
        "one it holds (the statement spells out only the positive half)",
        "`get nil` on a LITERAL nil may be refused at compile time with a diagnostic on that get's line (the folded path)",
        "the position named by the `get nil` error may be any column inside the get expression (keyword .. end of operand)",
        "`a ?= e` stores into the variable `a` declared in an enclosing scope of the same function or captured by the "
        "closure (there is no other `a`); the statement gives no scoping exception",
    ]
    if cov["rejected_unexpectedly"] > 0.02 * max(1, cov["cells_run"]):
        out.observed_nothing = "%d of %d catalogue cells rejected by the compiler: generator out of the language" % (
            cov["rejected_unexpectedly"], cov["cells_run"])
    if out.evaluations == 0:
        out.observed_nothing = "no executions"
    return out


AVOID_RULES = {
    "unwrap_assign_outside_declaring_scope": "the seeded programs use `a ?= e` only at the nesting level where `a` was "
                                             "declared (finding C12:unwrap_assign:*:block|func:output)",
    "bool_get_or_of_pointer_as_condition": "a bool-typed `get`/`or` whose operand is a list element, field or map "
                                           "lookup is printed, never used as if/while condition or `&&` operand "
                                           "(finding C12:get|or:pointer:present:*:unexpected_failure)",
}


def replay(path):
    with open(os.path.join(path, "case.json")) as f:
        case = json.load(f)
    w = case["witness"]
    if "cell" in w:
        res = check_program(build(w["cell"]))
    elif "random_seed" in w:
        res = check_program(gen_random(w["random_seed"])[0])
    else:
        print("witness has neither cell nor random_seed")
        return 2
    print("signature:", case["signature"])
    print("now:", res["kind"], res.get("dev", ""))
    if res["kind"] == "problem":
        print("expected:", res["witness"]["expected_lines"], res["witness"]["expected_status"])
        print("observed:", res["witness"]["observed_lines"], res["witness"]["run"]["cls"])
        print(res["witness"]["run"]["err"][-600:])
    return 1 if res["kind"] == "problem" else 0
