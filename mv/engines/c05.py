"""C05 — numeric operators yield the exact value and the promoted kind, or execution stops.

Workload: the matrix (operator x left kind x right kind x boundary-value pairs) + seeded random operands.
Operands reach the operator through variables (also through function parameters and list elements for a
slice).  Oracle: mv/models/numeric.py.  Expected-success cases are batched (a batch that stops early is
resumed after the offending case), expected-failure cases run one per program."""
import json
import math
import os
import re

from .. import core
from ..models import numeric as N

BATCH = 100          # expected-success cases per program
FAILS_PER_JOB = 40   # expected-failure programs per worker job

INT_K = (7, 8, 15, 16, 31)
BIG_K = (7, 8, 15, 16, 31, 32, 63, 64, 126, 127)


def _int_values(kind, ks):
    lo, hi = N.RANGE[kind]
    vals = {lo, lo + 1, -1, 0, 1, 2, 3, hi - 1, hi}
    for k in ks:
        for s in (1, -1):
            for d in (-1, 0, 1):
                vals.add(s * 2 ** k + d)
    for w in (8, 32, 128):                  # shift amounts around every width
        vals.update((w - 1, w, w + 1))
    return sorted(v for v in vals if lo <= v <= hi)


F_MAX = 1.7976931348623157e308
F_MIN_NORMAL = 2.2250738585072014e-308
F_DENORM = 5e-324
FLOATS = [0.0, -0.0, 0.5, -0.5, 1.0, -1.0, 1.5, 2.0, 3.0, -3.0, 0.1, 7.0, 8.0, 255.0, 256.0,
          1e-308, -1e-308, F_DENORM, F_MIN_NORMAL, 1e308, -1e308, F_MAX, -F_MAX,
          2.0 ** 53 - 1, 2.0 ** 53, 2.0 ** 53 + 2, -(2.0 ** 53), 2.0 ** 31 - 1, 2.0 ** 31, 2.0 ** 31 + 1, -(2.0 ** 31),
          -(2.0 ** 31) - 1, 2.0 ** 32, 2.0 ** 63, -(2.0 ** 63), 2.0 ** 64, 2.0 ** 127, -(2.0 ** 127),
          2.0 ** 127 * (1 - 2.0 ** -53), 1e16, float("inf"), float("-inf"), float("nan")]

VALUES = {
    "int": [("int", v) for v in _int_values("int", INT_K)],
    "bigint": [("bigint", v) for v in _int_values("bigint", BIG_K)],
    "byte": [("byte", v) for v in (0, 1, 2, 3, 7, 8, 9, 31, 32, 33, 127, 128, 129, 254, 255)],
    "float": [("float", v) for v in FLOATS],
}
CORE = {
    "int": {-2 ** 31, -1, 0, 1, 2 ** 31 - 1, 31, 32},
    "bigint": {-2 ** 127, -1, 0, 1, 2 ** 127 - 1, 31, 127, 128},
    "byte": {0, 1, 7, 8, 31, 255},
    "float": {N.fbits(x) for x in (0.0, -0.0, 1.0, -1.0, 0.5, F_MAX, 2.0 ** 53, float("inf"), float("nan"))},
}
TYPE_NAME = {"int": "int", "bigint": "bigint", "float": "float", "byte": "byte", "bool": "bool"}


def is_core(val):
    k, v = val
    return (N.fbits(v) if k == "float" else v) in CORE[k]


def vkey(val):
    """Hashable / sortable identity of an operand (floats by bits)."""
    k, v = val
    return (k, N.fbits(v) if k == "float" else v)


def enc(val):
    if val is None:
        return None
    k, v = val
    if k == "float":
        return {"kind": k, "value": repr(v), "bits": "0x%016x" % N.fbits(v)}
    if k == "bool":
        return {"kind": k, "value": bool(v)}
    return {"kind": k, "value": str(v)}


def dec(d):
    if d is None:
        return None
    k = d["kind"]
    if k == "float":
        return (k, N.from_bits(int(d["bits"], 16)))
    if k == "bool":
        return (k, bool(d["value"]))
    return (k, int(d["value"]))


def expected(case):
    op, a, b = case
    return N.unary(op, a) if b is None else N.binop(op, a, b)


def cell_of(case):
    op, a, b = case
    return "%s:%s" % (N.OP_NAME[op], a[0] if b is None else a[0] + "," + b[0])


def fail_category(exp):
    r = exp[1]
    if exp[0] == "undefined":
        return "value_for_undefined_operation"
    if r.startswith("zero divisor"):
        return "value_instead_of_zero_divisor_failure"
    if r.startswith("shift amount"):
        return "value_instead_of_shift_range_failure"
    return "value_instead_of_overflow_failure"


# ----------------------------------------------------------------------------- avoidance rules (random part)

def avoid(case, exp):
    """Constructs of unrepaired findings that the random part must skip (the matrix pins them).  None at present:
    the former rules shl_lost_bits and rem_min_by_minus_one were removed when /repo repaired both defects
    (1268d94, c562645)."""
    return None


# ----------------------------------------------------------------------------- program rendering

def expr_text(op, x, y):
    if y is None:
        return {"neg": "-%s", "!": "!%s", "negneg": "-(-%s)", "notnot": "!(!%s)"}[op] % x
    return "%s %s %s" % (x, op, y)


def literalable(o):
    """The operand is spelled by ONE literal token (non-negative int / bigint / byte, finite non-negative float)."""
    k, v = o
    if k in ("int", "bigint", "byte"):
        return v >= 0
    if k == "float":
        return v == v and not math.isinf(v) and (v > 0 or N.fbits(v) == 0)
    return False


def literal_route_extra():
    """Cases aimed at rewrites of `variable op literal`: small and power-of-two literals next to negative and
    extreme variables, for every integer kind."""
    out = []
    for k, vals, lits in (("int", [-9, -7, -1, 0, 1, 7, 9, -2147483647, -2147483648, 2147483647],
                           [0, 1, 2, 3, 4, 8, 1024, 65536, 1073741824]),
                          ("bigint", [-9, -7, -1, 0, 7, -(2 ** 127), 2 ** 127 - 1, -(2 ** 64) - 1],
                           [0, 1, 2, 4, 8, 1024, 2 ** 32, 2 ** 64, 2 ** 126])):
        for v in vals:
            for l in lits:
                for op in ("/", "%", "*", "+", "-", "<<", ">>", "&", "|", "xor", "<", "==", ">="):
                    out.append((op, (k, v), (k, l)))
                    out.append((op, (k, l), (k, v)))
    for v in (0, 1, 7, 9, 254, 255):
        for l in (0, 1, 2, 4, 8, 128):
            for op in ("/", "%", "*", "-", "<<", ">>"):
                out.append((op, ("byte", v), ("byte", l)))
    return out


def render(cases, route):
    """One program for a list of cases.  Returns (source, pool) where pool is the ordered list of operands
    that are echoed between @@POOL and @@CASES."""
    pool, index = [], {}
    for op, a, b in cases:
        for o in (a, b):
            if o is not None and vkey(o) not in index:
                index[vkey(o)] = len(pool)
                pool.append(o)
    lines = ['print "@@POOL"']
    name = {}
    if route in ("list", "elem"):
        by_kind = {}
        for o in pool:
            by_kind.setdefault(o[0], []).append(o)
        for k, os_ in by_kind.items():
            lines.append("ls_%s: [%s...] = [%s]" % (k, TYPE_NAME[k], ", ".join(N.source(*o) for o in os_)))
        for o in pool:
            i = index[vkey(o)]
            name[vkey(o)] = "v%d" % i
            pos = [vkey(x) for x in by_kind[o[0]]].index(vkey(o))      # by bits: -0.0 == 0.0 for tuples
            lines.append("v%d = ls_%s[%d]" % (i, o[0], pos))
            if route == "elem":
                # round 8: the operand of the operator IS the element place (`-ls[3]`, `ls[1] * ls[2]`), not a copy of it
                elem_name = name.setdefault("@elem", {})
                elem_name[vkey(o)] = "ls_%s[%d]" % (o[0], pos)
    else:
        for o in pool:
            i = index[vkey(o)]
            name[vkey(o)] = "v%d" % i
            lines.append("v%d = %s" % (i, N.source(*o)))
    for o in pool:
        lines.append("print %s" % name[vkey(o)])
    if route == "param":
        fns = {}
        for op, a, b in cases:
            key = (op, a[0], b[0] if b is not None else None)
            if key not in fns:
                n = len(fns)
                fns[key] = "fn%d" % n
                if b is None:
                    lines.append("fn%d = fn(pa%d: %s) {" % (n, n, TYPE_NAME[a[0]]))
                    lines.append("    print %s" % expr_text(op, "pa%d" % n, None))
                else:
                    lines.append("fn%d = fn(pa%d: %s, pb%d: %s) {" % (n, n, TYPE_NAME[a[0]], n, TYPE_NAME[b[0]]))
                    lines.append("    print %s" % expr_text(op, "pa%d" % n, "pb%d" % n))
                lines.append("}")
        lines.append('print "@@CASES"')
        for op, a, b in cases:
            key = (op, a[0], b[0] if b is not None else None)
            args = name[vkey(a)] if b is None else "%s, %s" % (name[vkey(a)], name[vkey(b)])
            lines.append("%s(%s)" % (fns[key], args))
    elif route in ("rlit", "llit"):
        # one operand is written as a LITERAL next to a variable operand (what peephole rewrites look for)
        lines.append('print "@@CASES"')
        for op, a, b in cases:
            la, lb = name[vkey(a)], name[vkey(b)] if b is not None else None
            if route == "rlit" and b is not None and literalable(b):
                lb = N.source(*b)
            if route == "llit" and literalable(a):
                la = N.source(*a)
            lines.append("print " + expr_text(op, la, lb))
    elif route == "elem":
        en = name["@elem"]
        lines.append('print "@@CASES"')
        for op, a, b in cases:
            lines.append("print " + expr_text(op, en[vkey(a)], en[vkey(b)] if b is not None else None))
    else:
        lines.append('print "@@CASES"')
        for op, a, b in cases:
            lines.append("print " + expr_text(op, name[vkey(a)], name[vkey(b)] if b is not None else None))
    lines.append('print "@@END"')
    return "\n".join(lines) + "\n", pool


def execute(cases, route):
    """Run one program; returns dict(status=..., values=[parsed case lines], failure=classification, ...).
    status: ok | stopped | rejected | inconclusive."""
    src, pool = render(cases, route)
    r, _, _ = core.run_program({"main.ms": src}, typed=True, cpu=20)
    out = {"src": src, "res": r}
    if r.cls in ("wall_timeout", "cpu_timeout", "spawn_error"):
        out["status"] = "inconclusive"
        out["why"] = r.cls
        return out
    if core.compile_rejected(r):
        out["status"] = "rejected"
        return out
    lines = r.lines()
    if not lines or lines[0] != "«Str» @@POOL":
        out["status"] = "inconclusive"
        out["why"] = "no @@POOL sentinel: " + (r.out + r.err)[-300:]
        return out
    try:
        sep = lines.index("«Str» @@CASES")
    except ValueError:
        out["status"] = "inconclusive"
        out["why"] = "operand set-up did not finish: " + (r.out[-200:] + r.err[-300:])
        return out
    echo = lines[1:sep]
    if len(echo) != len(pool):
        out["status"] = "inconclusive"
        out["why"] = "operand echo has %d lines for %d operands" % (len(echo), len(pool))
        return out
    for o, line in zip(pool, echo):
        try:
            got = N.parse_printed(line)
        except ValueError as ex:
            got = ("?", str(ex))
        if got[0] != o[0] or not N.same_value(o[0], got[1], o[1]):
            out["status"] = "inconclusive"
            out["why"] = "operand set-up mismatch: wanted %s via `%s`, variable holds %r" % (
                enc(o), N.source(*o), line)
            return out
    body = lines[sep + 1:]
    finished = bool(body) and body[-1] == "«Str» @@END" and r.cls == "ok"
    if finished:
        body = body[:-1]
    out["lines"] = body
    out["status"] = "ok" if finished else "stopped"
    if not finished:
        out["failure"] = core.classify_failure(r) if r.cls != "ok" else ("internal", "exit 0 without @@END")
    return out


def compare(case, exp, line):
    """Deviation class of one printed line against an expected value, or None."""
    try:
        got = N.parse_printed(line)
    except ValueError:
        return "wrong_value", line
    if got[0] != exp[1]:
        return "wrong_kind", line
    if not N.same_value(exp[1], got[1], exp[2]):
        return "wrong_value", line
    return None


def violation(case, route, exp, cls, observed, src, failure=None):
    op, a, b = case
    observed = re.sub(r"\(\d+\) panicked", "(<tid>) panicked", observed)     # deterministic witness text
    sig = "C05:%s:%s" % (cell_of(case), cls)
    what = "%s %s %s" % (a[0], op, b[0]) if b is not None else "%s %s" % (op, a[0])
    return {"sig": sig, "what": "%s: %s" % (what, cls),
            "rank": rank(case),
            "witness": {"op": op, "left": enc(a), "right": enc(b), "route": route, "expected": N.show(exp),
                        "observed": observed, "failure_class": list(failure) if failure else None,
                        "expression": expr_text(op, N.source(*a), N.source(*b) if b is not None else None),
                        "files": {"main.ms": src}}}


def rank(case):
    """Smaller = simpler witness."""
    op, a, b = case
    tot = 0
    for o in (a, b):
        if o is None:
            continue
        k, v = o
        if k == "float":
            tot += 64 if (v != v or math.isinf(v)) else min(64, len(repr(v)))
        else:
            tot += abs(v).bit_length()
    return tot


# ----------------------------------------------------------------------------- worker jobs

def new_summary():
    return {"runs": 0, "compared": 0, "agree": 0, "violations": [], "inconclusive": [], "rejected": 0,
            "by_op": {}, "by_cell": {}, "stops": {}, "exp_value": 0, "exp_failure": 0, "sample": None, "hashes": [],
            "rejected_cells": []}


def count(summary, case, exp):
    op = N.OP_NAME[case[0]]
    summary["by_op"][op] = summary["by_op"].get(op, 0) + 1
    c = cell_of(case)
    summary["by_cell"][c] = summary["by_cell"].get(c, 0) + 1
    summary["compared"] += 1
    if exp[0] == "ok":
        summary["exp_value"] += 1
    else:
        summary["exp_failure"] += 1
    if nontrivial(case):
        summary["hashes"].append(core.h([case[0], vkey(case[1]), vkey(case[2]) if case[2] is not None else None]))


def nontrivial(case):
    op, a, b = case
    if b is None:
        return True
    small = lambda o: o[0] != "float" and o[1] in (0, 1)
    return not (small(a) and small(b) and a[0] == b[0])


def job_ok(item):
    """A batch of cases that the model expects to yield values."""
    _, route, cases = item
    s = new_summary()
    todo = list(cases)
    while todo:
        ex = execute(todo, route)
        s["runs"] += 1
        if ex["status"] == "inconclusive":
            s["inconclusive"].append(ex["why"])
            return s
        if ex["status"] == "rejected":
            if len(todo) == 1:
                s["rejected"] += 1
                s["inconclusive"].append("compiler rejected an expected-value case %s: %s" % (
                    expr_text(todo[0][0], "a", "b" if todo[0][2] is not None else None), ex["res"].out[-300:]))
                todo = []
                continue
            mid = len(todo) // 2          # find the rejected case(s) by bisection
            for half in (todo[:mid], todo[mid:]):
                sub = job_ok(("ok", route, half))
                merge(s, sub)
            return s
        lines = ex["lines"]
        for case, line in zip(todo, lines):
            exp = expected(case)
            count(s, case, exp)
            dev = compare(case, exp, line)
            if dev is None:
                s["agree"] += 1
                if s["sample"] is None and case[2] is not None and case[1][0] != case[2][0] and not is_core(case[1]):
                    s["sample"] = {"route": route, "expression": expr_text(case[0], N.source(*case[1]), N.source(*case[2])),
                                   "printed": line, "model": N.show(exp)}
            else:
                s["violations"].append(violation(case, route, exp, dev[0], dev[1], ex["src"]))
        if ex["status"] == "ok":
            if len(lines) != len(todo):
                s["inconclusive"].append("%d lines for %d cases" % (len(lines), len(todo)))
            todo = []
        else:
            n = len(lines)
            if n >= len(todo):
                s["inconclusive"].append("program failed after the last case: %s" % (ex["failure"],))
                todo = []
                continue
            case = todo[n]
            exp = expected(case)
            count(s, case, exp)
            fc = ex["failure"]
            s["stops"]["%s/%s" % fc[:2] if fc[0] != "internal" else "internal"] = \
                s["stops"].get("%s/%s" % fc[:2] if fc[0] != "internal" else "internal", 0) + 1
            one = execute([case], route)       # minimal program for the witness
            s["runs"] += 1
            cls = "failure_instead_of_value[%s]" % ("%s/%s" % fc[:2] if fc[0] != "internal" else "internal")
            s["violations"].append(violation(case, route, exp, cls, (ex["res"].err or ex["res"].out)[-600:],
                                             one["src"], fc))
            todo = todo[n + 1:]
    return s


def job_fail(item):
    """Cases that the model expects to stop: one program each."""
    _, route, cases = item
    s = new_summary()
    for case in cases:
        exp = expected(case)
        ex = execute([case], route)
        s["runs"] += 1
        if ex["status"] == "inconclusive":
            s["inconclusive"].append(ex["why"])
            continue
        if ex["status"] == "rejected":
            s["rejected"] += 1
            if exp[0] == "undefined":
                s["rejected_cells"].append(cell_of(case))
            else:
                s["inconclusive"].append("compiler rejected %s" % ex["src"][-200:])
            continue
        count(s, case, exp)
        if ex["lines"]:
            s["violations"].append(violation(case, route, exp, fail_category(exp), ex["lines"][0], ex["src"]))
            continue
        if ex["status"] == "ok":
            s["violations"].append(violation(case, route, exp, fail_category(exp), "<no output, exit 0>", ex["src"]))
            continue
        fc = ex["failure"]
        key = "%s/%s" % fc[:2] if fc[0] != "internal" else "internal"
        s["stops"][key] = s["stops"].get(key, 0) + 1
        s["agree"] += 1
        if s["sample"] is None and case[2] is not None:
            s["sample"] = {"route": route, "expression": expr_text(case[0], N.source(*case[1]), N.source(*case[2])),
                           "printed": None, "stopped_with": list(fc), "model": N.show(exp)}
    return s


def merge(s, sub):
    for k in ("runs", "compared", "agree", "rejected", "exp_value", "exp_failure"):
        s[k] += sub[k]
    for k in ("violations", "inconclusive", "hashes", "rejected_cells"):
        s[k].extend(sub[k])
    for k in ("by_op", "by_cell", "stops"):
        for kk, v in sub[k].items():
            s[k][kk] = s[k].get(kk, 0) + v
    if s["sample"] is None:
        s["sample"] = sub["sample"]


def job(item):
    return job_ok(item) if item[0] == "ok" else job_fail(item)


# ----------------------------------------------------------------------------- workload

def matrix_cases(quick):
    """(case, in_slice) for the whole matrix; the slice is deterministic (independent of the seed)."""
    out = []
    for op in N.BINARY_OPS:
        for lk in N.KINDS:
            for rk in N.KINDS:
                salt = sum(map(ord, op + lk + rk))
                undefined = op in N.BITWISE + N.SHIFT and "float" in (lk, rk)
                for i, a in enumerate(VALUES[lk]):
                    for j, b in enumerate(VALUES[rk]):
                        if undefined:
                            # the compiler rejects these cells; three probes each decide that
                            if (i, j) not in ((0, 0), (3, 3), (5, 2)):
                                continue
                            out.append(((op, a, b), True))
                            continue
                        pinned = is_core(a) and is_core(b)
                        out.append(((op, a, b), pinned or (i * 31 + j * 17 + salt) % 4 == 0))
    for k in N.KINDS:
        for a in VALUES[k]:
            if k == "byte" and a[1] not in (0, 1, 255):
                continue
            out.append((("neg", a, None), True))
            if k != "byte":
                out.append((("negneg", a, None), True))
    for v in (True, False):
        out.append((("!", ("bool", v), None), True))
        out.append((("notnot", ("bool", v), None), True))
    return out


def rand_operand(rng, kind, shiftish=False):
    lo, hi = N.RANGE.get(kind, (0, 0))
    if kind == "byte":
        return ("byte", rng.randrange(0, 256) if not shiftish or rng.random() < 0.3 else rng.randrange(0, 40))
    if kind in ("int", "bigint"):
        w = N.WIDTH[kind]
        m = rng.random()
        if shiftish and m < 0.7:
            return (kind, rng.choice([rng.randrange(0, w), rng.randrange(w - 2, w + 3), rng.randrange(-3, 3),
                                      rng.randrange(0, 140)]))
        if m < 0.25:
            v = rng.randrange(lo, hi + 1)
        elif m < 0.45:
            v = rng.randrange(-40, 41)
        elif m < 0.6:
            v = rng.choice([lo, hi]) + rng.randrange(0, 70) * (1 if rng.random() < 0.5 else -1)
        elif m < 0.85:
            k = rng.randrange(1, w)
            v = rng.choice([1, -1]) * 2 ** k + rng.randrange(-3, 4)
        else:
            bits = rng.randrange(1, w)
            v = rng.randrange(-2 ** bits, 2 ** bits)
        v = max(lo, min(hi, v))
        return (kind, v)
    # float
    m = rng.random()
    if m < 0.3:
        while True:
            x = N.from_bits(rng.getrandbits(64))
            if x == x and not math.isinf(x):
                return ("float", x)
    if m < 0.5:
        return ("float", rng.randrange(-2000, 2001) / rng.choice([1, 2, 4, 8, 10, 3]))
    if m < 0.7:
        return ("float", float(rng.choice([1, -1]) * 2 ** rng.randrange(0, 130) + rng.randrange(-2, 3)))
    if m < 0.85:
        return ("float", rng.choice([1, -1]) * rng.random() * 10.0 ** rng.randrange(-320, 309))
    return ("float", rng.choice(FLOATS))


def random_cases(rng, n):
    out, avoided = [], {}
    ops = list(N.BINARY_OPS)
    while len(out) < n:
        r = rng.random()
        if r < 0.04:
            k = rng.choice(["int", "bigint", "float"])
            case = ("neg", rand_operand(rng, k), None)
        else:
            op = rng.choice(ops)
            if op in N.BITWISE + N.SHIFT:
                lk, rk = rng.choice(N.INT_KINDS), rng.choice(N.INT_KINDS)
            else:
                lk, rk = rng.choice(N.KINDS), rng.choice(N.KINDS)
            a = rand_operand(rng, lk)
            b = rand_operand(rng, rk, shiftish=op in N.SHIFT)
            if op in ("/", "%") and rng.random() < 0.03:
                b = (rk, 0.0 if rk == "float" else 0)
            if op in N.COMPARE and rng.random() < 0.25:       # equal / adjacent values across kinds
                b = nearby(rng, a, rk) or b
            case = (op, a, b)
        exp = expected(case)
        why = avoid(case, exp)
        if why:
            avoided[why] = avoided.get(why, 0) + 1
            continue
        out.append(case)
    return out, avoided


def nearby(rng, a, rk):
    k, v = a
    if v != v or (k == "float" and math.isinf(v)):
        return None
    d = rng.choice([0, 0, 1, -1])
    if rk == "float":
        try:
            x = float(v)
        except OverflowError:
            return None
        if d:
            x = math.nextafter(x, math.inf * d)
        return ("float", x)
    try:
        iv = int(v) + d
    except (OverflowError, ValueError):
        return None
    return (rk, iv) if N.fits(rk, iv) else None


def make_jobs(cases, route):
    ok, bad = [], []
    for c in cases:
        (ok if expected(c)[0] == "ok" else bad).append(c)
    order = lambda c: (c[1][0], c[2][0] if c[2] is not None else "", vkey(c[1]), vkey(c[2]) if c[2] is not None else (),
                       c[0])
    ok.sort(key=order)
    bad.sort(key=order)
    jobs = [("ok", route, ok[i:i + BATCH]) for i in range(0, len(ok), BATCH)]
    jobs += [("fail", route, bad[i:i + FAILS_PER_JOB]) for i in range(0, len(bad), FAILS_PER_JOB)]
    return jobs


# ----------------------------------------------------------------------------- chains of two operators (round 7)
# `(x op1 c1) op2 c2` with LITERAL c1, c2 and x at the edge of its kind: the intermediate result decides — a chain that
# overflows at the first step fails even if the "net" change is zero (`x + 1 - 1` at the maximum).  One program per
# chain (a failure ends the program); expectation = the exact model applied twice.

def chain_cases():
    out = []
    edges = {"int": [N.RANGE["int"][1], N.RANGE["int"][1] - 1, N.RANGE["int"][0], N.RANGE["int"][0] + 1, 0, -1, 7],
             "bigint": [N.RANGE["bigint"][1], N.RANGE["bigint"][0], N.RANGE["bigint"][1] - 1, 5],
             "byte": [0, 1, 255, 254, 128]}
    lits = {"int": [("int", 1), ("int", 2), ("bigint", 1), ("byte", 1)], "bigint": [("bigint", 1), ("int", 1), ("byte", 2)],
            "byte": [("byte", 1), ("byte", 2), ("int", 1)]}
    for kind, xs in edges.items():
        for x in xs:
            for c1 in lits[kind]:
                for c2 in lits[kind]:
                    for op1, op2 in (("+", "-"), ("-", "+"), ("+", "+"), ("-", "-"), ("*", "/"), ("/", "*")):      # same precedence: left to right
                        out.append(((kind, x), op1, c1, op2, c2))
    return out


def chain_expected(case):
    x, op1, c1, op2, c2 = case
    r1 = N.binop(op1, x, c1)
    if r1[0] != "ok":
        return r1
    return N.binop(op2, (r1[1], r1[2]), c2)


def chain_job(cases):
    """Cases expected to succeed are batched; each expected failure runs alone."""
    res = {"compared": 0, "violations": [], "inconclusive": []}
    lines = ['print "@@POOL"']
    for i, (x, op1, c1, op2, c2) in enumerate(cases):
        lines.append("cx%d = %s" % (i, N.source(*x)))
    lines.append('print "@@CASES"')
    for i, (x, op1, c1, op2, c2) in enumerate(cases):
        lines.append("print cx%d %s %s %s %s" % (i, op1, N.source(*c1), op2, N.source(*c2)))
    lines.append('print "@@END"')
    src = "\n".join(lines) + "\n"
    r, _, _ = core.run_program({"main.ms": src}, typed=True, cpu=20)
    if r.cls in ("wall_timeout", "cpu_timeout", "spawn_error"):
        res["inconclusive"].append("chain batch: %s" % r.cls)
        return res
    if core.compile_rejected(r):
        res["inconclusive"].append("chain batch rejected by the compiler: %s" % (r.out + r.err)[-300:])
        return res
    out_lines = r.lines()
    try:
        got = out_lines[out_lines.index("«Str» @@CASES") + 1:]
    except ValueError:
        res["inconclusive"].append("chain batch: no @@CASES marker")
        return res
    for i, case in enumerate(cases):
        exp = chain_expected(case)
        x, op1, c1, op2, c2 = case
        text = "%s %s %s %s %s" % (N.source(*x), op1, N.source(*c1), op2, N.source(*c2))
        sig_mid = "chain:%s%s:%s" % (op1, op2, x[0])
        if exp[0] == "ok":
            if i >= len(got) or got[i] == "«Str» @@END":
                res["violations"].append({"sig": "C05:%s:unexpected_failure" % sig_mid, "what": "`%s` with the left operand in a variable stopped, the exact result is %s %s" % (text, exp[1], exp[2]),
                                          "witness": {"files": {"main.ms": src}, "expression": text, "expected": [exp[1], str(exp[2])], "run": r.brief()}})
                break
            try:
                pv = N.parse_printed(got[i])
            except ValueError:
                pv = ("?", got[i])
            res["compared"] += 1
            if pv[0] != exp[1] or not N.same_value(exp[1], pv[1], exp[2]):
                res["violations"].append({"sig": "C05:%s:wrong_value_or_kind" % sig_mid, "what": "`%s`: expected %s %s, printed %r" % (text, exp[1], exp[2], got[i]),
                                          "witness": {"files": {"main.ms": src}, "expression": text, "expected": [exp[1], str(exp[2])], "printed": got[i], "run": r.brief()}})
        else:
            # a single-case program: nothing may be printed for it
            res["compared"] += 1
            if i < len(got) and got[i] != "«Str» @@END" and r.cls == "ok" or (i < len(got) and got[i].startswith("«") and not got[i].startswith("«Str» @@")):
                res["violations"].append({"sig": "C05:%s:value_instead_of_failure" % sig_mid, "what": "`%s`: %s — but a value was produced: %r" % (text, exp[1], got[i]),
                                          "witness": {"files": {"main.ms": src}, "expression": text, "expected": "failure: " + exp[1], "printed": got[i], "run": r.brief()}})
    return res


def chain_jobs():
    ok, fail = [], []
    for c in chain_cases():
        (ok if chain_expected(c)[0] == "ok" else fail).append(c)
    jobs = [ok[i:i + 60] for i in range(0, len(ok), 60)] + [[c] for c in fail]
    return jobs, len(ok), len(fail)


def run(ctx):
    out = core.Outcome()
    matrix = matrix_cases(ctx.quick)
    chosen = [c for c, in_slice in matrix if in_slice or not ctx.quick]
    sliced = [c for c, in_slice in matrix if in_slice]
    jobs = make_jobs(chosen, "var")
    # the other two routes: the whole matrix (thorough), every third case of the slice (quick)
    other = chosen if not ctx.quick else sliced[::3]
    other = [c for c in other if expected(c)[0] != "undefined"]
    jobs += make_jobs(other, "param")
    jobs += make_jobs([c for c in other if c[1][0] != "bool"], "list")
    jobs += make_jobs([c for c in other[::2] if c[1][0] != "bool"] + [c for c in chosen if c[2] is None and c[1][0] != "bool"], "elem")
    # literal routes: `variable op literal` and `literal op variable`
    lit_cases = [c for c in literal_route_extra() if expected(c)[0] != "undefined"]
    lit_cases += [c for c in (sliced[::5] if ctx.quick else chosen[::2]) if c[2] is not None and expected(c)[0] != "undefined"
                  and c[1][0] != "bool"]
    jobs += make_jobs([c for c in lit_cases if literalable(c[2])], "rlit")
    jobs += make_jobs([c for c in lit_cases if literalable(c[1])], "llit")
    rng = ctx.rng("operands")
    rnd, avoided = random_cases(rng, ctx.n(10000, 150000))
    jobs += make_jobs(rnd, "var")
    # longest jobs first keeps the pool busy
    results = core.pmap(job, jobs, chunksize=1)

    total = new_summary()
    for status, res in results:
        if status != "ok":
            out.inconclusive.append(str(res)[-500:])
            continue
        merge(total, res)
    cj, n_ok, n_fail = chain_jobs()
    chain_res = core.pmap(chain_job, cj, chunksize=4)
    chain_cmp = 0
    for status, res in chain_res:
        if status != "ok":
            out.inconclusive.append(str(res)[-300:])
            continue
        chain_cmp += res["compared"]
        out.inconclusive.extend(res["inconclusive"])
        for v in res["violations"]:
            v.setdefault("rank", 0)
            v["witness"].setdefault("left", v["witness"].get("expression"))
            total["violations"].append(v)
    total["compared"] += chain_cmp
    out.coverage["two_operator_chains"] = {"expected_value": n_ok, "expected_failure": n_fail, "compared": chain_cmp}
    out.evaluations = total["compared"]
    out.distinct = set(total["hashes"])
    out.inconclusive.extend(total["inconclusive"])
    best = {}
    fam = {}
    for v in total["violations"]:
        fam[v["sig"]] = fam.get(v["sig"], 0) + 1
        if v["sig"] not in best or (v["rank"], json.dumps(v["witness"]["left"])) < (
                best[v["sig"]]["rank"], json.dumps(best[v["sig"]]["witness"]["left"])):
            best[v["sig"]] = v
    for sig in sorted(best):
        v = best[sig]
        out.violations.append(core.Violation(sig, v["what"], v["witness"]))
    wanted = {"arith": None, "compare": None, "bits": None, "stop": None}
    for status, res in results:
        sm = res.get("sample") if status == "ok" else None
        if not sm:
            continue
        e = sm["expression"]
        cat = "stop" if sm.get("printed") is None else (
            "bits" if any(" %s " % o in e for o in N.BITWISE + N.SHIFT) else
            "compare" if any(" %s " % o in e for o in N.COMPARE) else "arith")
        if wanted[cat] is None and len(e) < 160:
            wanted[cat] = sm
    out.samples = [v for v in wanted.values() if v]
    cells = total["by_cell"]
    out.coverage.update({
        "program_runs": total["runs"], "model_agreements": total["agree"],
        "cases_expected_value": total["exp_value"], "cases_expected_failure": total["exp_failure"],
        "cases_per_operator": dict(sorted(total["by_op"].items())),
        "cells_observed(op x lkind x rkind)": len(cells), "min_cases_in_a_cell": min(cells.values()) if cells else 0,
        "stop_classes_observed": dict(sorted(total["stops"].items())),
        "cells_rejected_by_compiler": sorted(set(total["rejected_cells"])),
        "compiler_rejected_programs": total["rejected"],
        "matrix_cases_total": len(matrix), "matrix_cases_run_via_variables": len(chosen),
        "cases_via_parameters": len(other), "cases_via_list_elements": len([c for c in other if c[1][0] != "bool"]),
        "random_cases": len(rnd),
        "avoidance_rules": {},
        "avoided_random_draws": avoided,
        "deviation_cases_per_signature": dict(sorted(fam.items())),
        "boundary_values_per_kind": {k: len(v) for k, v in VALUES.items()},
    })
    out.exhaustive = (not ctx.quick)
    out.rule = ("case = (operator, left operand, right operand) evaluated by the real binary with both operands held in "
                "variables (also function parameters / list elements for a slice) and compared with the exact model: "
                "printed kind and value (floats by bit pattern) or 'execution stops'. Matrix: 16 binary operators x 16 "
                "kind pairs x all pairs of the per-kind boundary sets (%s values), unary minus per kind, `!`; quick runs the "
                "fixed slice (all pairs of core extremes + every 4th other pair; every 3rd case of it also through parameters and list elements), thorough the whole matrix through all three routes; plus seeded "
                "random operands. evaluations = cases compared (not program runs). Non-trivial/distinct = distinct "
                "(operator, operand pair by kind and bits) excluding same-kind pairs drawn from {0,1}."
                % "/".join("%s %d" % (k, len(v)) for k, v in VALUES.items()))
    out.assumptions = [
        "float results follow IEEE-754 binary64 including +-inf on overflow and NaN (these are values, not failures); "
        "a float zero divisor (+0.0 or -0.0) is a failure as the statement says",
        "mixed integer/float arithmetic converts the integer operand to double (round-half-even) and then operates in double",
        "& | xor are exact on the two's-complement (sign-extended) representation; shift width is that of the promoted result kind",
        "any stop (interpreter error report or Rust arithmetic panic) counts as 'execution stops'; the class is only recorded",
        "bitwise/shift operators with a float operand, unary minus of a byte and `!` of a number are rejected by the "
        "compiler and therefore outside the quantifier (counted in cells_rejected_by_compiler)",
        "operands are produced by literal expressions and echoed before use; an echo mismatch makes the program inconclusive",
        "dev-profile build (overflow checks on)",
    ]
    if os.environ.get("VERIF_MODEL_BREAK"):
        out.assumptions.append("MODEL DELIBERATELY BROKEN: VERIF_MODEL_BREAK=" + os.environ["VERIF_MODEL_BREAK"])
    if out.evaluations == 0:
        out.observed_nothing = "no case was executed and compared"
    return out


def replay(path):
    with open(os.path.join(path, "case.json")) as f:
        case = json.load(f)
    w = case["witness"]
    c = (w["op"], dec(w["left"]), dec(w["right"]))
    exp = expected(c)
    ex = execute([c], w.get("route", "var"))
    print(ex["src"])
    print("model   :", json.dumps(N.show(exp), ensure_ascii=False))
    if ex["status"] in ("inconclusive", "rejected"):
        print("observed:", ex["status"], ex.get("why", ""))
        return 2
    if ex["lines"]:
        print("observed:", ex["lines"][0])
        agrees = exp[0] == "ok" and compare(c, exp, ex["lines"][0]) is None
    else:
        print("observed: execution stops", ex.get("failure"))
        agrees = exp[0] != "ok"
    print("AGREES" if agrees else "DIFFERS")
    return 0 if agrees else 1
