"""C16 — the compiler is total: any input yields success or diagnostics, never a crash.

Command: `mscript compile <entry>.ms --quick` in a scratch directory, inputs <= 4 kB.
Workload: (a) grammar-directed sentences derived from the working tree's compiler/src/grammar.pest
(mv/models/pest_grammar.py; every production reachable from `file` and every alternative at least once per
run, types ignored), (b) token-level mutation of the repository corpus (mv/corpus.py), of grammar sentences
and of the pinned crashers, (c) a deterministic catalogue: resource shapes + one pinned minimal input per
crash signature already known, so that each of them is observed at every seed.
Oracle: exit class in {ok, fail}; on fail some diagnostic text.  panic / signal => violation
`C16:<kind>:<masked panic message>@<first in-repo backtrace frame>`; CPU >= 20 s => re-run alone with 120 s:
still running => `C16:hang:…`, else recorded as slow.  Wall-clock never decides."""
import json
import os
import random
import re
import time

from .. import core, corpus
from ..models import pest_grammar as pg

GRAMMAR_PATH = os.path.join(core.REPO, "compiler", "src", "grammar.pest")
MAX_BYTES = 4096
CPU_FIRST, CPU_ALONE = 20, 120
THOROUGH_SHAPES = [False]      # set by run(): shapes that need minutes of CPU (a listed known finding) run in the thorough tier only

# ----------------------------------------------------------------------------- lexer for mutation

TOK = re.compile(r'''
   (?P<ws>[ \t\r]+)
 | (?P<nl>\n)
 | (?P<comment>\#\#\#.*?\#\#\#|\#[^\n]*)
 | (?P<string>"(?:\\.|[^"\\])*"?)
 | (?P<number>B?0x[0-9a-fA-F_]+|0b[01_]+|B?\d[\d_]*(?:\.\d[\d_]*)?[fF]?)
 | (?P<word>[A-Za-z_][A-Za-z0-9_]*)
 | (?P<op>\.\.\.|->|<<|>>|<=|>=|==|!=|&&|\|\||\+=|-=|\*=|/=|%=|\?=|\.\.)
 | (?P<open>[(\[{])
 | (?P<close>[)\]}])
 | (?P<punct>.)
''', re.X | re.S)

KEYWORDS = ["fn", "class", "constructor", "return", "if", "else", "while", "from", "to", "through", "step", "import",
            "type", "export", "const", "modify", "print", "assert", "break", "continue", "typeof", "get", "or", "xor",
            "is", "nil", "map", "self", "Self", "true", "false", "int", "str", "bool", "float", "bigint", "byte"]
KWSET = set(KEYWORDS)
VOCAB = {
    "keyword": KEYWORDS,
    "ident": ["a", "b", "c", "x", "y", "f", "A", "m", "k", "mod", "T", "zz"],
    "number": ["0", "1", "5", "255", "256", "2147483647", "2147483648", "B1", "B99999999999999999999999999999999999999999",
               "0xff", "0b101", "0b111111111", "1.5", "2f", "99999999999999999999", "1_0", "0x", "0b", "B0x10"],
    "string": ['""', '"s"', '"a\\"b"', '"\\\\"', '"\\n"', '"é"'],
    "op": ["+", "-", "*", "/", "%", "<<", ">>", "<=", ">=", "<", ">", "==", "!=", "&&", "||", "^", "?=", "&", "|",
           "+=", "-=", "*=", "/=", "%=", "=", ".", "..", "...", "->", ":", ",", "?", "!"],
    "open": ["(", "[", "{"],
    "close": [")", "]", "}"],
}
CLASSES = list(VOCAB)


def lex(text):
    """[(class, text)] — whitespace and comments are tokens too (kept so that a mutant re-joins faithfully)."""
    out = []
    for m in TOK.finditer(text):
        cls = m.lastgroup
        t = m.group()
        if cls == "word":
            cls = "keyword" if t in KWSET else "ident"
        elif cls == "punct":
            cls = "op"
        out.append((cls, t))
    return out


def units(text):
    """Tokens with their trailing layout attached: the unit of mutation and of delta debugging."""
    us = []
    for cls, t in lex(text):
        if cls in ("ws", "nl", "comment") and us:
            us[-1][2] += t
        elif cls in ("ws", "nl", "comment"):
            us.append(["layout", "", t])
        else:
            us.append([cls, t, ""])
    return us


def join(us):
    return "".join(u[1] + u[2] for u in us)


MUTATIONS = ["delete", "insert", "duplicate", "swap", "replace_class", "truncate", "unbalance", "splice", "widen",
             "bad_escape"]
MUT_WEIGHTS = [5, 5, 3, 3, 6, 1, 3, 2, 4, 2]

# 2-, 3- and 4-byte UTF-8 characters (letters, symbols, CJK, emoji, combining mark, astral letter)
WIDE = {2: ["é", "ü", "ö", "ß", "Ω", "ж", "\u0301"], 3: ["✓", "中", "€", "日", "\u200b"], 4: ["\U0001f680", "\U0001f389", "\U00010348"]}
BAD_ESCAPES = ["\\q", "\\x41", "\\ö", "\\0", "\\u{1F600}", "\\'", "\\ "]


def widen_positions(text):
    """Offsets of ASCII letters that lie inside string literals, identifiers/keywords or comments."""
    pos, i = [], 0
    for cls, t in lex(text):
        if cls in ("string", "ident", "keyword", "comment"):
            pos.extend(i + k for k, ch in enumerate(t) if ch.isascii() and ch.isalpha())
        i += len(t)
    return pos


def widen_at(text, offset, width, k=0):
    """Replace the character at `offset` by a `width`-byte character."""
    ch = WIDE[width][k % len(WIDE[width])]
    return text[:offset] + ch + text[offset + 1:]


def mutate(rng, text, donor=None):
    """1-4 token-level edits.  Returns (text, [edit names])."""
    us = units(text)
    if not us:
        us = [["ident", "x", " "]]
    names = []
    for _ in range(rng.choice([1, 1, 1, 2, 2, 3, 4])):
        op = rng.choices(MUTATIONS, MUT_WEIGHTS)[0]
        names.append(op)
        n = len(us)
        i = rng.randrange(n) if n else 0
        if op == "delete" and n > 1:
            del us[i:i + rng.choice([1, 1, 1, 2, 3])]
        elif op == "insert":
            cls = rng.choice(CLASSES)
            us.insert(i, [cls, rng.choice(VOCAB[cls]), " "])
        elif op == "duplicate" and n:
            j = min(n, i + rng.choice([1, 1, 2, 4]))
            us[i:i] = [list(u) for u in us[i:j]]
        elif op == "swap" and n > 1:
            j = min(n - 1, i + rng.choice([1, 1, 1, 2, 5])) if rng.random() < 0.8 else rng.randrange(n)
            us[i], us[j] = us[j], us[i]
        elif op == "replace_class" and n:
            cls = rng.choice([c for c in CLASSES if c != us[i][0]])
            us[i] = [cls, rng.choice(VOCAB[cls]), us[i][2] or " "]
        elif op == "truncate" and n > 1:
            del us[i:]
            if us and rng.random() < 0.3 and len(us[-1][1]) > 1:
                us[-1][1] = us[-1][1][:rng.randrange(1, len(us[-1][1]))]      # cut inside a token
                us[-1][2] = ""
        elif op == "unbalance" and n:
            br = [k for k, u in enumerate(us) if u[0] in ("open", "close")]
            r = rng.random()
            if br and r < 0.4:
                del us[rng.choice(br)]
            elif br and r < 0.7:
                k = rng.choice(br)
                us[k][1] = rng.choice([b for b in "()[]{}" if b != us[k][1]])
            else:
                us.insert(i, [rng.choice(["open", "close"]), rng.choice("()[]{}"), ""])
        elif op == "widen" and n:
            # one to three ASCII letters of a string / identifier / comment become multi-byte characters
            text_now = join(us)
            cand = widen_positions(text_now)
            if cand:
                for _k in range(rng.choice([1, 1, 2, 3])):
                    text_now = widen_at(text_now, rng.choice(cand), rng.choice([2, 3, 4]), rng.randrange(8))
                us = units(text_now)
        elif op == "bad_escape" and n:
            strs = [k for k, u in enumerate(us) if u[0] == "string" and len(u[1]) >= 2]
            if strs:
                k = rng.choice(strs)
                t = us[k][1]
                at = rng.randrange(1, len(t))
                us[k][1] = t[:at] + rng.choice(BAD_ESCAPES) + t[at:]
            else:
                us.insert(i, ["string", '"%s%s"' % (rng.choice(BAD_ESCAPES), rng.choice(["", "x", "é"])), " "])
        elif op == "splice" and donor:
            du = units(donor)
            if du:
                a = rng.randrange(len(du))
                us[i:i] = [list(u) for u in du[a:a + rng.choice([1, 2, 3, 6])]]
    out = join(us)
    if len(out.encode("utf-8", "replace")) > MAX_BYTES:
        out = out.encode("utf-8", "replace")[:MAX_BYTES].decode("utf-8", "ignore")
    return out, names


# ----------------------------------------------------------------------------- grammar-directed sentences

_G = None


def grammar():
    global _G
    if _G is None:
        _G = pg.load(GRAMMAR_PATH)
    return _G


MOD_MS = ('export a_val: int = 5\nexport f_fn = fn(p: int) -> int { return p + 1 }\n'
          'export class K {\n\tv: int\n\tconstructor(self) { self.v = 1 }\n\tfn m(self) -> int { return self.v }\n}\n'
          'export type T int\n')
PRELUDE = ('a = 1\nb = "s"\nc: [int...] = [1, 2, 3]\nx: int? = nil\nf = fn(p: int) -> int { return p }\n'
           'class A {\n\tv: int\n\tconstructor(self) { self.v = 1 }\n\tfn m(self) -> int { return self.v }\n}\n'
           'y = A()\nm = map[str, int] { "k": 1 }\nconst k = [1, "two", 3.0]\n')
NAMES = ["a", "b", "c", "x", "y", "f", "A", "m", "k", "self", "Self", "int", "str", "bool", "float", "bigint", "byte",
         "v", "p", "mod", "K", "T", "a_val", "f_fn", "len", "to_str", "push", "zz", "nil", "map", "type", "fn", "get",
         "or", "is", "xor", "true", "false", "_"]
STRINGS = ['"s"', '""', '"two words"', '"q\\"q"', '"é✓"', '"\\n"', '"1"']
INTS = ["0", "1", "2", "3", "5", "10", "255", "256", "2147483647", "2147483648", "99999999999999999999", "1_000",
        "170141183460469231731687303715884105728"]
PATHS = ["mod", "./mod", "mod.ms", "../mod", "nothere", "main", "./main", "d", "mod/x", "."]


def overrides():
    return {
        "ident": lambda g: g.rng.choice(NAMES),
        "string": lambda g: g.rng.choice(STRINGS),
        "integer": lambda g: g.rng.choice(INTS),
        "import_path": lambda g: g.rng.choice(PATHS),
    }


def sentence(rng, cover, target=None):
    g = grammar()
    gen = pg.Gen(g, rng, cover, max_depth=rng.choice([10, 14, 18, 24, 32]), overrides=overrides(),
                 p_override=rng.choice([0.0, 0.6, 0.85, 0.95]), rep_mean=rng.choice([0.6, 1.0, 1.6]))
    text = ""
    implicit = None
    if target is not None and "file" not in g.distances_to(target[0]):
        # the alternative lives in an implicit rule (WHITESPACE / COMMENT and what they call)
        implicit = "COMMENT" if "COMMENT" in g.distances_to(target[0]) else "WHITESPACE"
    for _ in range(4):
        if implicit:
            text = "a = 1 " + gen.derive(start=implicit, target=target) + "\nb = 2 " + gen.derive(start=implicit) + "\n"
        else:
            text = gen.derive(target=target)
        if len(text.encode("utf-8", "replace")) <= MAX_BYTES - 400:
            break
    if rng.random() < 0.55:
        text = PRELUDE + text
    b = text.encode("utf-8", "replace")
    if len(b) > MAX_BYTES:
        text = b[:MAX_BYTES].decode("utf-8", "ignore")
    return text


# ----------------------------------------------------------------------------- catalogue

def resource_catalogue():
    """(id, files, entry) — identical at every seed."""
    c = []

    def one(cid, src, **more):
        files = {"main.ms": src}
        files.update(more)
        c.append(("shape:" + cid, files, "main.ms"))
    one("paren400", "x = " + "(" * 400 + "1" + ")" * 400 + "\n")
    one("paren400_unclosed", "x = " + "(" * 400 + "1\n")
    one("call400", "f = fn() -> int { return 1 }\nx = f" + "()" * 400 + "\n")
    one("list300", "x = " + "[" * 300 + "1" + "]" * 300 + "\n")
    one("list300_const", "const x = " + "[" * 300 + "1" + "]" * 300 + "\n")
    one("listtype300", "x: " + "[" * 300 + "int" + "...]" * 300 + " = []\n")
    one("block300", "if true {" * 300 + "}" * 300 + "\n")
    one("fn200", "f = " + "fn() { return " * 200 + "1" + " }" * 200 + "\n")
    one("while280", "while false {" * 280 + "}" * 280 + "\n")
    one("else300", "if false {}" + " else if false {}" * 230 + "\n")
    one("neg400", "x = " + "-" * 400 + "1\n")
    one("not400", "x = " + "!" * 400 + "true\n")
    one("binop1000", "x = 1" + " + 1" * 1000 + "\n")
    one("dot400", "x = a" + ".b" * 400 + "\n")
    one("index400", "c: [int...] = [1]\nx = c" + "[0]" * 400 + "\n")
    one("optional400", "x: int" + "?" * 400 + " = nil\n")
    one("ident4k", "a" * 4000 + " = 1\n")
    one("ident2k_twice", "a" * 2000 + " = 1\nprint " + "a" * 2000 + "\n")
    # the property's domain ends at 4 kB: every nesting construct at the deepest a 4 kB input can reach
    # (1 997 balanced / 3 995 unclosed brackets overflowed the stack of `compile` before fix "brackets nested deeper")
    def fit(cid, pre, open_, mid, close, post=""):
        n = (4000 - len(pre) - len(mid) - len(post)) // (len(open_) + len(close))
        one("%s_4k_x%d" % (cid, n), pre + open_ * n + mid + close * n + post + "\n")
    fit("paren", "x = ", "(", "1", ")")
    fit("paren_unclosed", "x = ", "(", "1", "")
    fit("list", "x = ", "[", "1", "]")
    fit("list_unclosed", "x = ", "[", "1", "")
    fit("list_typed", "x: int = ", "[", "1", "]")
    fit("paren_list_mixed", "x = ", "([", "1", "])")
    fit("call_args", "f = fn(a: int) -> int { return a }\nx = ", "f(", "1", ")")
    fit("index_in_index", "c: [int...] = [0]\nx = ", "c[", "0", "]")
    fit("map_key_nest", "x = ", "map[int, int] { 1: ", "1", " }")
    fit("paren_in_string_and_comment", 'x = "', "(", "", "[", '"\n# ((((\nprint x.len()')
    fit("listtype", "x: ", "[", "int", "...]", " = []")
    fit("maptype", "x: ", "map[int, ", "int", "]", " = 1")
    fit("fntype_paren", "x: ", "fn(", "int", ") -> int", " = 1")
    fit("block_if", "", "if true {", "", "}")
    fit("fn_literal", "f = ", "fn() { return ", "1", " }")
    fit("neg", "x = ", "-", "1", "")
    fit("not", "x = ", "!", "true", "")
    fit("get", "o: int? = 1\nx = ", "get ", "o", "")
    fit("typeof", "x = ", "typeof ", "1", "")
    fit("optional_marks", "x: int", "?", "", "", " = nil")
    # the shortest spelling of each construct reaches deeper than the readable one
    fit("block_if_short", "a = true\n", "if a{", "", "}")
    fit("block_if_short_unclosed", "a = true\n", "if a{", "", "")
    fit("fn_literal_short", "f = ", "fn(){", "", "}")
    fit("while_short", "a = false\n", "while a{", "", "}")
    fit("from_short", "", "from 0 to 1{", "", "}")
    one("ident_sum_4k", "a = 1\nx = a" + "+a" * 1990 + "\n")
    one("ident_and_4k", "a = true\nx = a" + "&&a" * 1300 + "\n")
    one("ident_cmp_sum_4k", "a = 1\nx = a" + "+a" * 900 + " < a" + "*a" * 900 + "\n")
    one("str_ident_concat_4k", 'a = "s"\nx = a' + "+a" * 1990 + "\n")
    one("method_chain_4k", 'a = "s"\nx = a' + ".reverse()" * 390 + "\n")
    # a few dozen unclosed brackets: the generated parser backtracked exponentially (26 s at 20 levels)
    for n_ in (12, 16, 20, 24, 32, 48, 64, 100, 127):
        one("list_unclosed_x%d" % n_, "x = " + "[" * n_ + "1\n")
        one("paren_unclosed_x%d" % n_, "x = " + "(" * n_ + "1\n")
        one("list_paren_unclosed_x%d" % n_, "x = " + "[(" * (n_ // 2) + "1\n")
        one("listtype_unclosed_x%d" % n_, "x: " + "[" * n_ + "int\n")
        one("call_unclosed_x%d" % n_, "f = fn(a: int) -> int { return a }\nx = " + "f(" * n_ + "1\n")
        one("index_unclosed_x%d" % n_, "c: [int...] = [0]\nx = " + "c[" * n_ + "0\n")
        one("map_unclosed_x%d" % n_, "x = " + "map[int, int] { 1: " * min(n_, 60) + "1\n")
        one("block_unclosed_x%d" % n_, "a = true\n" + "if a {" * n_ + "\n")
        one("list_closed_wrong_x%d" % n_, "x = " + "[" * n_ + "1" + ")" * n_ + "\n")
    # prefix operators applied to parenthesised operands, a few dozen deep (work must stay linear in the depth)
    for n_ in (24, 40, 100, 127):
        one("get_paren_x%d" % n_, "o: int? = 1\nx = " + "get (" * n_ + "o" + ")" * n_ + "\n")
        one("neg_paren_x%d" % n_, "o = 1\nx = " + "-(" * n_ + "o" + ")" * n_ + "\n")
        one("not_paren_x%d" % n_, "o = true\nx = " + "!(" * n_ + "o" + ")" * n_ + "\n")
        one("typeof_paren_x%d" % n_, "o = 1\nx = " + "typeof (" * n_ + "o" + ")" * n_ + "\n")
        one("or_paren_x%d" % n_, "o: int? = nil\nx = " + "(" * n_ + "o" + ") or 1" * n_ + "\n")
        one("get_neg_mixed_x%d" % n_, "o: int? = 1\nx = " + "-(get (" * (n_ // 2) + "o" + "))" * (n_ // 2) + "\n")
        one("index_of_index_x%d" % n_, "c: [int...] = [0]\nx = " + "c[" * n_ + "0" + "]" * n_ + "\n")
        one("call_of_call_x%d" % n_, "f = fn(a: int) -> int { return a }\nx = " + "f(" * n_ + "1" + ")" * n_ + "\n")
        one("list_of_list_x%d" % n_, "x = " + "[" * n_ + "1" + "]" * n_ + "\n")
        one("listtype_vs_str_x%d" % n_, "x: " + "[" * n_ + "int" + "...]" * n_ + ' = "s"\n')
        one("eq_nested_lists_x%d" % n_, "x = " + "[" * n_ + "1" + "]" * n_ + " == " + "[" * n_ + "2" + "]" * n_ + "\n")
    # constant operations on literals with multi-byte characters (a folder that slices bytes meets a character
    # boundary): index, substring-like built-ins, len, reverse, at every offset
    for tn_, lit_ in (("e_acute", "é"), ("a_e_acute", "aé"), ("cjk", "日本"), ("emoji", "a😀b"), ("combining", "e\u0301x")):
        nb_ = len(lit_.encode("utf-8"))
        for k_ in range(0, nb_ + 2):
            one("const_index_%s_%d" % (tn_, k_), 'x = "%s"[%d]\nprint x\n' % (lit_, k_))
            one("const_substring_%s_%d" % (tn_, k_), 'x = "%s".substring(0, %d)\nprint x\n' % (lit_, k_))
            one("const_index_len_%s_%d" % (tn_, k_), 'x = ("%s"[%d]).len()\nprint x\n' % (lit_, k_))
            one("const_split_%s_%d" % (tn_, k_), 'x = "%s".split(%d)\nprint x\n' % (lit_, k_))
            one("const_insert_%s_%d" % (tn_, k_), 'x = "%s".insert("z", %d)\nprint x\n' % (lit_, k_))
            one("const_decl_index_%s_%d" % (tn_, k_), 'const c = "%s"\nx = c[%d]\nprint typeof x\n' % (lit_, k_))
        one("const_len_%s" % tn_, 'x = "%s".len() + "%s".reverse().len()\nprint x\n' % (lit_, lit_))
    # deeply nested types that do NOT match (comparison must stay linear in the depth)
    for n_ in (16, 24, 40, 100):
        one("listtype_vs_strlist_x%d" % n_, "x: " + "[" * n_ + "int" + "...]" * n_ + " = " + "[" * n_ + '"x"' + "]" * n_ + "\n")
        one("listtype_argument_mismatch_x%d" % n_, "f = fn(a: " + "[" * n_ + "int" + "...]" * n_ + ") {\n}\nf(" + "[" * n_ + '"x"' + "]" * n_ + ")\n")
        one("fntype_nest_mismatch_x%d" % n_, "x: " + "fn() -> " * n_ + "int = fn() -> " + "fn() -> " * (n_ - 1) + "str {\n}\n")
        one("optional_nest_mismatch_x%d" % n_, "x: int" + "?" * n_ + " = nil\ny: str" + "?" * n_ + " = x\n")
        one("maptype_nest_mismatch_x%d" % min(n_, 60), "x: " + "map[int, " * min(n_, 60) + "int" + "]" * min(n_, 60) + " = " + "map[int, " * min(n_, 60) + "str" + "]" * min(n_, 60) + " { }\n")
        one("list_return_mismatch_x%d" % n_, "f = fn() -> " + "[" * n_ + "int" + "...]" * n_ + " {\n  return " + "[" * n_ + '"x"' + "]" * n_ + "\n}\n")
    # nested types built FLAT, one alias / constant per level (the bracket-nesting guard does not see them), with
    # the mismatch at the bottom: fixed-shape lists, open lists, optionals, maps, function types (area round a5-4)
    for n_ in (30, 60):
        for kind_, ty_, val_ in (("fixed", "[T%d,int]", "[v%d, 1]"), ("fixed_first_int", "[int,T%d]", "[1, v%d]"),
                                 ("open", "[T%d...]", "[v%d]"), ("map", "map[int, T%d]", "map[int, T%d] { }"),
                                 ("fixed_vs_open", "[T%d,int]", "[v%d, 1]")):
            lines_ = ["type T1 [int,int]" if kind_ != "fixed_vs_open" else "type T1 [int...]", 'const v1 = ["s", 1]']   # no blank after the comma: `[int, int]` is not a type
            for k_ in range(2, n_ + 1):
                lines_.append("type T%d %s" % (k_, ty_ % (k_ - 1)))
                if kind_ == "map":
                    lines_.append("const v%d: %s = %s" % (k_, "map[int, " * (k_ - 1) + "[str, int]" + "]" * (k_ - 1), "map[int, " + "map[int, " * (k_ - 2) + "[str, int]" + "]" * (k_ - 2) + "] { }"))
                else:
                    lines_.append("const v%d = %s" % (k_, val_ % (k_ - 1)))
            lines_.append("const x: T%d = v%d" % (n_, n_))
            if kind_ != "map" or n_ <= 30:
                one("flat_alias_nest_mismatch_%s_x%d" % (kind_, n_), "\n".join(lines_) + "\n")
    # the crash clause has no size bound: 200 kB of nesting after a string the guard's scanner must delimit like the
    # grammar does (area round a6-1), and plain 200 kB nests
    for tn_, lit_ in (("none", '"a"'), ("backslash_backslash_quote", '"a\\\\" + "'), ("escaped_quote", '"a\\"b" + "'),
                      ("escaped_quote_then_backslashes", '"\\"\\\\" + "'), ("backslash_n_quote", '"\\n" + "\\\\" + "')):
        for bn_, open_, close_ in (("paren", "(", ")"), ("list", "[", "]")):
            one("large_%s_nest_100k_after_string_%s" % (bn_, tn_), "x = " + lit_ + ' + "z"\ny = ' + open_ * 100000 + "1" + close_ * 100000 + "\n")
        one("large_block_nest_60k_after_string_%s" % tn_, "x = " + lit_ + ' + "z"\n' + "if true {" * 60000 + "}" * 60000 + "\n")
    # errors the compiler only finds while GENERATING code (`-true`, `-false` pass type checking as bool): in every
    # header / operand position, nested in every construct (round 7: clean-up paths that run only then)
    holes_ = [("from_end", "from 0 to wq(%s) {\n print 1\n}"), ("from_start", "from wq(%s) to 3 {\n print 1\n}"),
              ("from_step", "from 0 to 3 step wq(%s) {\n print 1\n}"), ("from_named_end", "from 0 to wq(%s), iq {\n print iq\n}"),
              ("from_named_step", "from 0 to 9 step wq(%s), iq {\n print iq\n}"), ("while_cond", "while wq(%s) > 0 {\n print 1\n}"),
              ("if_cond", "if wq(%s) > 0 {\n print 1\n}"), ("elseif_cond", "if vq > 5 {\n print 1\n} else if wq(%s) > 0 {\n print 2\n}"),
              ("print", "print %s"), ("assign", "zq = %s"), ("call_arg", "zq = wq(%s)"), ("list_elem", "zq = [1, wq(%s)]"),
              ("index", "zq = lq[wq(%s)]"), ("index_assign", "lq[wq(%s)] = 1"), ("opassign", "vq += wq(%s)"),
              ("assert", "assert wq(%s) == 1"), ("return", "return wq(%s)"), ("map_value", "zq = map[int, int] {\n 1: wq(%s)\n}"),
              ("field_assign", "oq.f = wq(%s)"), ("method_arg", "zq = oq.m(wq(%s))"), ("or_fallback", "zq = (nq) or wq(%s)")]
    wraps_ = [("top", "%s"), ("in_from", "from 0 to 3 {\n%s\n}"), ("in_named_from", "from 0 to 3, jq {\n%s\n}"), ("in_while", "while vq < 0 {\n%s\n}"),
              ("in_if", "if vq > 0 {\n%s\n}"), ("in_else", "if vq > 0 {\n print 0\n} else {\n%s\n}"),
              ("in_fn", "gq = fn() -> int {\n%s\n return 0\n}"), ("in_from_in_from", "from 0 to 2 {\n from 0 to 2 {\n%s\n }\n}"),
              ("in_method", "class Cq {\n f: int\n constructor(self) {\n  self.f = 1\n }\n fn run(self) -> int {\n%s\n  return 0\n }\n}")]
    pre_ = ("wq = fn(b: bool) -> int {\n return 1\n}\nvq = 1\nlq: [int...] = [1, 2]\nnq: int? = nil\nclass Oq {\n f: int\n constructor(self) {\n  self.f = 1\n }\n"
            " fn m(self, a: int) -> int {\n  return a\n }\n}\noq = Oq()\n")
    for hn_, ht_ in holes_:
        for wn_, wt_ in wraps_:
            if hn_ == "return" and wn_ not in ("in_fn", "in_method"):
                continue
            for lit_ in ("-true", "-false"):
                if lit_ == "-false" and (hash((hn_, wn_)) % 3):
                    continue
                body_ = ht_ % (lit_ if hn_ in ("print", "assign") else lit_)
                one("codegen_error_%s_%s_%s" % (hn_, wn_, lit_[1:]), pre_ + (wt_ % body_) + "\n")
    # a function passed where a function of another (deeply nested) type is expected (repaired finding dd9f40d: 2^depth)
    for n_ in (16, 22, 30, 60):
        one("fntype_chain_argument_mismatch_x%d" % n_, "f = fn(g: " + "fn() -> " * n_ + "int) {}\nh = fn(k: " + "fn() -> " * n_ + "str) {\n\tf(k)\n}\n")
        one("fntype_chain_return_mismatch_x%d" % n_, "h = fn(k: " + "fn() -> " * n_ + "str) -> " + "fn() -> " * n_ + "int {\n\treturn k\n}\n")
        one("fntype_chain_assign_mismatch_x%d" % n_, "h = fn(k: " + "fn() -> " * n_ + "str, j: " + "fn() -> " * n_ + "int) {\n\tk = j\n}\n")
    # same-named aliases of optional lists redefined over another element type (known finding at depth 30, thorough tier)
    for n_ in ((14, 30) if THOROUGH_SHAPES[0] else (14,)):
        l_ = ["type T0 [int]"] + ["type T%d [T%d?]" % (k_, k_ - 1) for k_ in range(1, n_)] + ["a: T%d? = nil" % (n_ - 1)]
        l_ += ["type T0 [str]"] + ["type T%d [T%d?]" % (k_, k_ - 1) for k_ in range(1, n_)] + ["b: T%d? = a" % (n_ - 1)]
        one("alias_optlist_redefined_x%d" % n_, "\n".join(l_) + "\n")
    # every pinned constant expression of C06's catalogue (boundary values of each kind under every operator, unary
    # operators on folded sub-expressions, get / or on constants ...) as a compiler input: the folder must answer with a
    # value or a diagnostic for each of them (round 8: a plain `-x` on a folded int minimum panicked)
    try:
        from . import c06 as _c06
        seen_ = set()
        for t_, _ctx in _c06.catalogue():
            e_ = _c06.render(t_)
            if e_ in seen_ or len(e_) > 300:
                continue
            seen_.add(e_)
            one("c06_constant_%04d" % len(seen_), "x = %s\nprint x\n" % e_)
    except Exception:        # the shapes above stand on their own
        pass
    # string literals the scanner of the nesting guard and the grammar must delimit identically
    for tn_, lit_ in (("backslash_backslash_quote", '"\\\\" + "'), ("escaped_quote", '"a\\"b" + "'), ("hash_in_string", '"#" + "'),
                      ("triple_hash_in_string", '"###" + "'), ("backslash_n", '"\\n" + "'), ("lone_backslash_end", '"a\\\\"')):
        one("string_%s_then_deep_nesting" % tn_, "x = " + lit_ + ' + "z"\ny = ' + "(" * 1500 + "1" + ")" * 1500 + "\n")
        one("string_%s_then_code" % tn_, "x = " + lit_ + ' + "z"\nprint x\n')
    one("brackets_inside_string_only", 'x = "' + "([" * 300 + '"\nprint x.len()\n')
    one("brackets_inside_string_after_escaped_quote", 'x = "\\"' + "([" * 300 + '"\nprint x.len()\n')
    # an unterminated `###` is a line comment: what follows is code
    one("unterminated_blockcomment_then_nesting", "### never closed\nx = " + "(" * 1500 + "1" + ")" * 1500 + "\n")
    one("blockcomment_hides_brackets", "### " + "(" * 500 + " ###\nx = 1\nprint x\n")
    one("binop_4k", "x = 1" + " + 1" * 998 + "\n")
    one("cmp_chain_4k", "x = 1" + " < 1" * 990 + "\n")
    one("and_chain_4k", "x = true" + " && true" * 490 + "\n")
    one("str_concat_4k", 'x = "a"' + ' + "a"' * 660 + "\n")
    one("dot_4k", "x = a" + ".b" * 1990 + "\n")
    one("index_4k", "c: [int...] = [1]\nx = c" + "[0]" * 1300 + "\n")
    one("call_4k", "f = fn() -> int { return 1 }\nx = f" + "()" * 1900 + "\n")
    one("elseif_4k", "if false {}" + " else if false {}" * 234 + "\n")
    # constant-expression matrix: every binary operator between every pair of literal kinds (the compile-time
    # folder has one arm per pair; type-incorrect pairs must be diagnostics), plus the prefix operators
    lits = [("int", "3"), ("int0", "0"), ("intmax", "2147483647"), ("hex", "0xff"), ("bigint", "B3"), ("float", "1.5"),
            ("byte", "0b11"), ("str", '"a"'), ("bool", "true"), ("nil", "nil"), ("list", "[1]")]
    ops = ["+", "-", "*", "/", "%", "<<", ">>", "&", "|", "xor", "<", "<=", ">", ">=", "==", "!=", "&&", "||", "^", "is"]
    for ka, a in lits:
        for kb, b in lits:
            for op in ops:
                one("fold:%s:%s:%s" % (ka, op, kb), "x = %s %s %s\n" % (a, op, b))
        for pre in ("-", "!", "typeof ", "get "):
            one("fold:%s%s" % (pre.strip(), ka), "x = %s%s\n" % (pre, a))
    one("string4k", 'x = "' + "s" * 4000 + '"\n')
    one("string4k_unterminated", 'x = "' + "s" * 4000 + "\n")
    one("comment4k", "#" + "c" * 4000 + "\nx = 1\n")
    one("blockcomment_unterminated", "### " + "c" * 3000 + "\nx = 1\n")
    one("int_beyond_i128", "x = " + "9" * 60 + "\n")
    one("int_4k", "x = " + "9" * 4000 + "\n")
    one("bigint_beyond_i128", "x = B" + "9" * 60 + "\n")
    one("neg_bigint_beyond", "x = -B" + "9" * 60 + "\n")
    one("hex_beyond", "x = 0x" + "f" * 40 + "\n")
    one("bighex_beyond", "x = B0x" + "f" * 40 + "\n")
    one("byte_9bits", "x = 0b111111111\n")
    one("byte_40bits", "x = 0b" + "1" * 40 + "\n")
    one("float_400digits", "x = " + "9" * 400 + "." + "9" * 400 + "\n")
    one("float_f_400digits", "x = " + "9" * 400 + "f\n")
    one("underscores", "x = 1_2_3_4 + 0xf_f + 0b1_0 + B1_0\n")
    one("empty", "")
    one("only_newlines", "\n" * 300)
    one("only_spaces", " " * 300)
    one("only_comment", "# nothing")
    one("bom", "﻿x = 1\n")
    one("nul_byte", "x = 1\0\nprint x\n")
    one("nul_in_string", 'x = "a\0b"\n')
    one("control_chars", "x = 1\x01\x02\x7f\n")
    one("crlf", "x = 1\r\nprint x\r\n")
    one("cr_only", "x = 1\rprint x\r")
    one("non_ascii_ident", "é = 1\n")
    one("non_ascii_string", 'x = "日本語 ✓ \U0001f389"\nprint x\n')
    one("non_ascii_comment", "# héllo ✓\nx = 1\n")
    one("invalid_utf8", b'x = "\xff\xfe"\n')
    one("truncated_utf8", b'x = "\xe6\x97"\n')
    one("import_self", "import main\n")
    one("import_self_names", "export q = 1\nimport q from main\n")
    one("import_missing", "import nothere\n")
    one("import_missing_names", "import q from nothere\n")
    c.append(("shape:import_directory", {"main.ms": "import d\n", "d/inner.ms": "x = 1\n"}, "main.ms"))
    c.append(("shape:import_directory_named_ms", {"main.ms": "import e\n", "e.ms/inner.ms": "x = 1\n"}, "main.ms"))
    c.append(("shape:import_parent", {"main.ms": "import ../main\n"}, "main.ms"))
    c.append(("shape:import_dotdot", {"main.ms": "import ..\n"}, "main.ms"))
    c.append(("shape:import_dot", {"main.ms": "import .\n"}, "main.ms"))
    c.append(("shape:import_cycle", {"main.ms": "import a\nprint 1\n", "a.ms": "import b\n", "b.ms": "import main\n"},
              "main.ms"))
    c.append(("shape:import_twice", {"main.ms": "import mod\nimport mod\nimport ./mod\n", "mod.ms": MOD_MS}, "main.ms"))
    c.append(("shape:import_broken_module", {"main.ms": "import bad\nprint 1\n", "bad.ms": "x = (\n"}, "main.ms"))
    c.append(("shape:import_ill_typed_module", {"main.ms": "import bad\n", "bad.ms": 'x: int = "s"\n'}, "main.ms"))
    c.append(("shape:import_names_ok", {"main.ms": "import a_val, f_fn, K, type T from mod\nz: T = f_fn(a_val)\n",
                                       "mod.ms": MOD_MS}, "main.ms"))
    c.append(("shape:import_name_missing", {"main.ms": "import nope from mod\n", "mod.ms": MOD_MS}, "main.ms"))
    c.append(("shape:import_type_missing", {"main.ms": "import type Nope from mod\n", "mod.ms": MOD_MS}, "main.ms"))
    c.append(("shape:import_empty_module", {"main.ms": "import e\nprint e\n", "e.ms": ""}, "main.ms"))
    c.append(("shape:import_subdir", {"main.ms": "import d/inner\nprint inner.x\n", "d/inner.ms": "export x = 1\n"},
              "main.ms"))
    c.append(("shape:entry_in_subdir", {"d/main.ms": "import ../mod\nprint mod.a_val\n", "mod.ms": MOD_MS}, "d/main.ms"))
    c.append(("shape:entry_wrong_extension", {"main.txt": "x = 1\n"}, "main.txt"))
    c.append(("shape:entry_missing", {"other.ms": "x = 1\n"}, "main.ms"))
    c.append(("shape:entry_is_directory", {"main.ms/inner.ms": "x = 1\n"}, "main.ms"))
    return c


# ---- placement matrix: context-sensitive statements x container chains ---------------------------------------

CONTAINERS = ["if", "else", "while", "from", "fn", "method", "ctor"]


def wrap(container, body, level):
    """`body` (text) inside one container; `level` keeps the names of nested containers apart."""
    b = "\n".join("\t" + l for l in body.split("\n"))
    if container == "if":
        return "if true {\n%s\n}" % b
    if container == "else":
        return "if false {\n} else {\n%s\n}" % b
    if container == "while":
        return "w%d = 0\nwhile w%d < 1 {\n\tw%d = w%d + 1\n%s\n}" % (level, level, level, level, b)
    if container == "from":
        return "from 0 to 2, i%d {\n%s\n}" % (level, b)
    if container == "fn":
        return "f%d = fn() {\n%s\n}\nf%d()" % (level, b, level)
    if container == "method":
        return "class C%d {\n\tfn m(self) {\n%s\n\t}\n}" % (level, "\n".join("\t" + l for l in b.split("\n")))
    if container == "ctor":
        return ("class C%d {\n\tv: int\n\tconstructor(self) {\n\t\tself.v = 1\n%s\n\t}\n}"
                % (level, "\n".join("\t" + l for l in b.split("\n"))))
    raise ValueError(container)


# statements whose legality depends on where they stand (plus two neutral controls)
PLACED = [
    ("break", "break"), ("continue", "continue"),
    ("return_bare", "return "), ("return_value", "return 1"), ("return_nil", "return nil"),
    ("import_std", "import mod"), ("import_names", "import a_val, f_fn from mod"), ("import_type", "import type T from mod"),
    ("class", "class Z {\n\tv: int\n\tconstructor(self) { self.v = 1 }\n}\nz9 = Z()"),
    ("type_alias", "type T9 int\nt9: T9 = 1"), ("export_type", "export type T8 int"),
    ("export_var", "export e9: int = 1"), ("export_class", "export class E9 { }"),
    ("modify", "modify a = 2"), ("modify_undeclared", "modify q9 = 2"), ("const_then_write", "const k9 = 1\nk9 = 2"),
    ("assert", "assert a == 1"),
    ("from_colliding_counter", "from 0 to 2, i1 {\n\tprint i1\n}"),
    ("while_break_inner", "while true {\n\tbreak\n}"),
    ("self_read", "print self"), ("self_field_write", "self.v = 3"), ("self_capture", "s9 = self"),
    ("fn_returning_in_branch", "g9 = fn() -> int {\n\tif a == 1 {\n\t\treturn 1\n\t}\n\treturn 2\n}\nprint g9()"),
    ("control_print", "print a"), ("control_assign", "b9 = a + 1"),
]


def container_chains(max_depth=3):
    chains = [[]]
    frontier = [[]]
    for _ in range(max_depth):
        frontier = [c + [k] for c in frontier for k in CONTAINERS]
        chains += frontier
    return chains


# statements placed under the 343 depth-3 chains in the quick tier (all 25 in the thorough tier)
CORE_PLACED = {"break", "continue", "return_bare", "return_value", "import_std", "class", "export_var", "modify",
               "from_colliding_counter", "self_read", "self_field_write"}
PLACE_ALL = [False]


def placement_matrix():
    """(id, files, entry): every PLACED statement under every container chain of depth <= 3 (outermost first);
    quick tier: depth-3 chains carry the CORE_PLACED statements only."""
    out = []
    for chain in container_chains(3):
        for name, stmt in PLACED:
            if len(chain) == 3 and not PLACE_ALL[0] and name not in CORE_PLACED:
                continue
            body = stmt
            for level in range(len(chain), 0, -1):
                body = wrap(chain[level - 1], body, level)
            out.append(("place:%s:%s" % ("/".join(chain) or "top", name),
                        {"main.ms": "a = 1\n" + body + "\n", "mod.ms": MOD_MS}, "main.ms"))
    return out


# ---- expression placement matrix: inner expression x hole x container chain ------------------------------------
EXPR_PRELUDE = ('l9: [int...] = [10, 20, 30]\ns9 = "abc"\no9: int? = 1\nidf = fn(p: int) -> int { return p }\n'
                'ap = fn(g: fn() -> int) -> int { return g() }\n'
                'class K9 {\n\tv: int\n\trows: [int...]\n\tconstructor(self, v: int) {\n\t\tself.v = v\n\t\tself.rows = [1, 2]\n\t}\n'
                '\tfn pick(self, g: fn() -> int) -> int { return g() }\n}\nk9 = K9(1)\n')
INNER_EXPRS = [("fn_literal_argument", "ap(fn() -> int { return 1 })"), ("fn_literal_method_argument", "k9.pick(fn() -> int { return 1 })"),
               ("self_method_with_fn_literal", "self.pick(fn() -> int { return 1 })"),
               ("map_literal_len", "(map[int, int] { 1: 2 }).len()"), ("list_literal_index", "[0, 1][1]"),
               ("new_object_field", "(K9(1)).v"), ("or_fallback", "(o9) or 1"), ("get", "get o9"),
               ("nested_call", "idf(idf(1))"), ("nested_index", "l9[l9[0] - 10]"), ("self_field", "self.v"),
               ("fn_literal_called_in_list", "[ap(fn() -> int { return 1 })][0]")]
HOLES = [("index", "x9 = l9[{E}]"), ("paren_index", "x9 = (l9)[{E}]"), ("self_rows_index", "x9 = (self.rows)[{E}]"),
         ("field_index", "x9 = (k9.rows)[{E}]"), ("string_index", "x9 = s9[{E}]"), ("index_assign", "l9[{E}] = 5"),
         ("index_opassign", "l9[{E}] += 5"), ("call_argument", "x9 = idf({E})"), ("method_argument", "x9 = k9.pick(fn() -> int { return {E} })"),
         ("list_element", "x9 = [{E}, 2]"), ("map_key", "x9 = map[int, int] { {E}: 1 }"), ("map_value", "x9 = map[int, int] { 1: {E} }"),
         ("if_condition", "if {E} == 1 {\n}"), ("while_condition", "while {E} == 9 {\n}"), ("from_bound", "from 0 to {E} {\n}"),
         ("from_step", "from 0 to 2 step {E} {\n}"), ("return_value", "return {E}"), ("opassign_value", "x9 = 1\nx9 += {E}"),
         ("negated", "x9 = -({E})"), ("print", "print {E}"), ("assert", "assert {E} == 1"), ("ctor_argument", "x9 = K9({E})"),
         ("unwrap_assign_value", "t9: int? = nil\nu9 = t9 ?= {E}")]
EXPR_CHAINS = [[], ["fn"], ["method"], ["ctor"], ["if"], ["while"], ["from"], ["else"], ["method", "if"], ["method", "while"],
               ["method", "fn"], ["fn", "method"], ["ctor", "from"], ["fn", "fn"], ["ctor", "fn"], ["method", "else"]]


def expression_placement_matrix():
    """(id, files, entry): every inner expression in every expression hole under every chain of EXPR_CHAINS."""
    out = []
    for chain in EXPR_CHAINS:
        for en, e in INNER_EXPRS:
            for hn, h in HOLES:
                body = h.replace("{E}", e)
                for level in range(len(chain), 0, -1):
                    body = wrap(chain[level - 1], body, level)
                out.append(("exprplace:%s:%s:%s" % ("/".join(chain) or "top", hn, en),
                            {"main.ms": EXPR_PRELUDE + body + "\n"}, "main.ms"))
    return out


# ---- non-ASCII text at every byte offset of a literal that takes a diagnostic path ---------------------------

def escape_offset_family():
    """For every byte offset L in 0..70 and character width 2/3/4: a string literal whose multi-byte character
    starts at byte L of the literal's content, with an unknown escape sequence before or after it, as a print
    operand, a call argument, a map key and next to comments."""
    out = []
    escapes = ["\\q", "\\x41", "\\ö"]
    for L in range(0, 71):
        for width in (2, 3, 4):
            ch = WIDE[width][(L + width) % len(WIDE[width])]
            for where in ("before", "after"):
                esc = escapes[(L + width + (where == "after")) % 3]
                if where == "before":
                    head = esc + "a" * max(0, L - len(esc.encode()))
                    if len(head.encode()) != L:
                        head = "a" * L                  # no room for the escape before the character
                        tail = esc
                    else:
                        tail = ""
                    lit = head + ch + "b" * 40 + tail
                else:
                    lit = "a" * L + ch + "b" * 10 + esc + "c" * 30
                lit = '"' + lit + '"'
                for ctx, cname in enumerate(("print", "arg", "mapkey", "comments")):
                    if ctx == 0:
                        src = "print %s\n" % lit
                    elif ctx == 1:
                        src = "f = fn(t: str) -> str { return t }\nprint f(%s)\n" % lit
                    elif ctx == 2:
                        src = "m = map[str, int] { %s: 1 }\n" % lit
                    else:
                        src = "### ünïcode ✓ ### x = %s # trailing cömment \U0001f680\n" % lit
                    out.append(("esc:%d:w%d:%s:%s" % (L, width, where, cname), {"main.ms": src}, "main.ms"))
    return out


# inputs that take a diagnostic path (one per kind of message known): bases for the sliding non-ASCII variants
DIAGNOSTIC_BASES = [
    'label = "some text here"\nprint lable + " and more text after it"\n',                       # undeclared variable
    'number: int = "a string literal, not a number at all"\n',                                    # type mismatch
    'value = "abc" - "a long string that cannot be subtracted"\n',                                # invalid operation
    'const names = ["alpha", "beta"]\nnames[5]\n',                                                # index
    'greet = fn(name: str) -> str { return "hello " + name }\nprint greet(42, "extra argument")\n',
    'print "unterminated string literal\n',
    'text = "bad escape \\q inside a longer string literal value"\n',
    'import does_not_exist_module_name\n',
    'class Person {\n\tname: str\n\tconstructor(self, name: str) { self.name = name }\n}\np = Person("Ann")\nprint p.nickname\n',
    'opt: str? = nil\nprint opt + "suffix text"\n',
    'm = map[str, int] { "first key": 1, "second key": "not an int" }\n',
    'x = 5 # a comment with words\nif x { print "condition is not a bool" }\n',
    'while "string condition" { }\n',
    'from "a" to "z" { }\n',
    'assert "this is not a boolean assertion"\n',
    'return "outside of any function body"\n',
    'f = fn() -> int { return "a string instead of an int" }\n',
    'type Alias nosuchtype\nvalue: Alias = "x"\n',
    '### block comment words ### y = = "double equals sign"\n',
    'print typeof "some string" + 1\n',
    'reserved = 1\nget = "keyword used as a name"\n',
    'big = 99999999999999999999999999999999999999999999 # "too large"\n',
    'byte_value = 0b101010101010 # more than eight bits in "a byte"\n',
    'a = "x"\na.no_such_method("argument text", "more")\n',
    'list: [int...] = ["strings", "in", "an", "int", "list"]\n',
    'const c = "constant"\nc = "reassigned constant value"\n',
    'break # "break" outside of a loop\n',
    'modify undeclared_name = "text"\n',
    'x = "abc" ?= "unwrap on a non optional"\n',
    'obj = nil\nprint (obj).field_name_here\n',
]


def widen_family(base_id, files, entry, limit):
    """Sliding non-ASCII variants of one input: an ASCII letter inside a string, identifier or comment becomes a
    2-, 3- or 4-byte character, at up to `limit` evenly spread offsets."""
    src = files[entry]
    if isinstance(src, bytes):
        return []
    pos = widen_positions(src)
    if not pos:
        return []
    step = max(1, len(pos) // limit)
    out = []
    for j, off in enumerate(pos[::step][:limit]):
        width = (2, 3, 4)[j % 3]
        f2 = dict(files)
        f2[entry] = widen_at(src, off, width, j)
        if len(f2[entry].encode()) <= MAX_BYTES + 8:
            out.append(("wide:%s:@%d:w%d" % (base_id, off, width), f2, entry))
    return out


def widen_bases():
    bases = [("diag%d" % i, {"main.ms": t, "mod.ms": MOD_MS}, "main.ms") for i, t in enumerate(DIAGNOSTIC_BASES)]
    bases += pinned_catalogue()
    bases += corpus_programs()
    return bases


# One pinned minimal input per crash signature found so far (see docs/notes_C19_C16.md).  While a defect is
# open its pin reaches the signature deterministically, so a known-findings entry is observed at every seed;
# once it is repaired (patch series c16fix 01-14) the same input stays here as a REGRESSION GUARD: the general
# oracle then expects exit ok/fail with a diagnostic, and evidence lists it under
# `pinned_inputs_that_no_longer_crash` / counts it out of `pinned_crashers_still_crashing`.
PINNED = [
    "typeof 5\n",                                              # declaration.rs  unreachable!("typeof is not supported")
    "x: [int, str...] = 1\n",                                  # type.rs         unreachable!(open_ended_type) in list_type
    "(a.b).c = 1\n",                                           # reassignment.rs unimplemented!("Cannot parse a path from …")
    "x = [][0]\n",                                             # list.rs         `types.len() - 1` on the empty list type
    "f = fn() { import ..ms }\n",                              # import.rs       .expect("not a file") (path `.` + `.ms`)
    'result = "Fizz"\nresult or ""\n',                         # math_expr.rs    assert_eq! in Expr::for_type (NilEval)
    "class A { fn c(self: int) { } }\n",                       # ident.rs        debug_assert_eq!(rule, ident): typed `self`
    # (repaired in the tree by "fix: a byte literal with more than 8 binary digits is a diagnostic…": the inputs
    #  `0b111111111` / 40 bits stay in the resource shapes as a regression guard)
    "x = [1]\ny = x[1.5]\n",                                   # number.rs       unreachable!("not sure how to round …")
    "if false { - false }\n",                                  # function_body.rs Block::compile  x.compile(state).unwrap()
    "f = fn(a: bool) -> bool { return a }\nf(- false)\n",      # callable.rs     Callable::compile x.compile(state).unwrap()
    "x = map[float, float] { 3.1415: typeof }\n",              # map.rs          for_type(..).unwrap() on a typeless identifier
    "a = 5\nif true { a = typeof }\n",                         # assignment.rs   for_type(..).unwrap() on a typeless identifier
    # class/constructor.rs: a constructor with a return type hands the type node to Parser::block; the message
    # names the (unmaskable) rule of the type, so each spelling is its own signature
    "class A { constructor(self) -> int { } }\n",              # declaration.rs  unreachable!("ident is not supported")
    "class A { constructor(self) -> fn() { } }\n",             #                 function_type
    "class A { constructor(self) -> [int...] { } }\n",         #                 list_type_open_only
    "class A { constructor(self) -> [int, str] { } }\n",       #                 list_type
    "class A { constructor(self) -> map[int, int] { } }\n",    #                 user_map_type
    "a: int? = nil\nbbb: int? = nil\nif get bbb ?= a { }\n",   # math_expr.rs    unreachable!("Expected ident in lhs") — `(get bbb) ?= a`
    "f = fn(g: fn() -> int, n: int) -> int {\n  if n <= 0 {\n    return g()\n  }\n  return self(fn() -> int { return 1 }, n - 1)\n}\n",   # scope.rs RefCell already borrowed: a function literal as argument of `self(..)`
    "f = fn(cb: fn() -> Self) {\n  x = cb()\n  print x.foo\n}\n",   # type.rs assume_type_of_self unwrap(): `Self` outside a class
]


# Further spellings of the same defects (found while shrinking / probing the neighbourhood): regression
# guards only — after the repairs each must compile or be rejected with a diagnostic.
GUARDS = [
    "typeof \n", "typeof typeof\n", "if true { typeof 5 }\n",                       # 01
    "type b [,fn...]\n", "x = ( [ ] != fn ( ) -> [ [ , fn ...] ] { } )\n",           # 02
    "( or [ c ] ) . or = K\n", "( m . push ) . v = u_\n", "(a[0]).c = 1\n",          # 03
    "[][0]\n", "[ k ] = [ ]\n", "[] [ false ]\n", "const x = []\ny = x[0]\n",        # 04
    "f = fn() { import . }\n", "import ..ms\n", "f = fn() { import ./. }\n",         # 05
    'fn() { if 3 == 0 { result = "Fizz" if 5 == 0 { result or "" } } }\n',          # 06 (legal: exit 0)
    'x: str? = "abc"\ny: str? = nil\nz = x or y\n',                                 # 06
    "class A { fn c(, self: int) { } }\n", "class A { constructor(self: A) { } }\n",  # 07
    "x = 0b100000000\n",                                                            # 08
    "const x = [1, 2]\ny = x[0.5]\n", "x = [1] x[31.5 ]\n", "x = [1]\ny = x[2f]\n",   # 09
    "f = fn() { - false }\n", "while false { - false }\n", "from 1 to 3 { - false }\n",
    "class A { constructor(self) { - false } }\n", "if true { } else { - false }\n",  # 10
    "f = fn(a: bool, b: bool) -> bool { return a }\nf(true, - false)\n",             # 11
    "x = map[str, int] { typeof : 1 }\n",                                            # 12
    "class A { constructor(self) -> (fn()) { } }\n", "class A { constructor(self) -> int? { } }\n",  # 13
    "a = 5\nf = fn() { a = typeof }\n", "a = 5\nf = fn() { modify a = typeof }\n",    # 14
    "a: int? = nil\nb: int? = nil\nz = typeof b ?= a\n", "a: int? = nil\nb: int? = nil\nc = get b ?= a\n",   # 15
    "a: bool? = nil\nb: bool? = nil\nc = !b ?= a\n",                              # 15
]


def pinned_catalogue():
    out = []
    for i, p in enumerate(PINNED):
        files = p if isinstance(p, dict) else {"main.ms": p}
        out.append(("pin:%d" % i, files, "main.ms"))
    for i, p in enumerate(GUARDS):
        out.append(("guard:%d" % i, {"main.ms": p}, "main.ms"))
    return out


# ----------------------------------------------------------------------------- running and classifying

_PANIC = re.compile(r"panicked at ([^\n]*?):(\d+):(\d+):\n(.*?)(?=\nnote: |\nstack backtrace:|\nthread '|\Z)", re.S)
_KEEP_TICKS = ("`left == right`", "`left != right`")


def mask(msg):
    """First line of a panic message with input-dependent parts masked."""
    first = (msg.strip().split("\n") or [""])[0]
    first = re.sub(r"called `(Result|Option)::unwrap\(\)` on an? `(Err|None)` value.*", r"called \1::unwrap() on \2", first)
    first = re.sub(r"\b([A-Z]\w*) \{.*$", r"\1{..}", first)                 # Debug dump of a struct
    first = re.sub(r"[\w./\\-]+\.(?:ms|rs|mmm)(?::\d+)+", "<pos>", first)
    first = re.sub(r"`[^`]*`", lambda m: m.group() if m.group() in _KEEP_TICKS else "`_`", first)
    first = re.sub(r'"(?:\\.|[^"\\])*"', '"_"', first)
    first = re.sub(r"'[^' ]{1,40}'", "'_'", first)
    first = re.sub(r"\d+", "N", first)
    return first[:140].rstrip()


def dominant_token(text):
    cnt = {}
    for cls, t in lex(text):
        if cls not in ("ws", "nl", "comment"):
            cnt[t] = cnt.get(t, 0) + 1
    if not cnt:
        return "none"
    return sorted(cnt.items(), key=lambda kv: (-kv[1], kv[0]))[0][0][:12]


def classify(res, entry_text):
    """-> None (conforming) | (kind, masked message, location)"""
    both = res.err + "\n" + res.out
    if res.cls in ("ok",):
        return None
    if res.cls == "fail":
        if not both.strip():
            return ("silent_failure", "exit status 1 without any diagnostic text", "")
        return None
    if res.cls == "cpu_timeout":
        return ("cpu", "", "")
    if res.cls in ("wall_timeout", "spawn_error"):
        return ("inconclusive", res.cls, "")
    m = _PANIC.search(both)
    if m:
        kind = "panic" if res.cls == "panic" else "panic+abort" if res.cls == "signal" else "panic"
        return (kind, mask(m.group(4)), "%s:%s" % (m.group(1), m.group(2)))
    if "has overflowed its stack" in both:
        return ("stack_overflow", "thread main has overflowed its stack", "nest:" + dominant_token(entry_text))
    if res.cls == "signal":
        return ("signal", "killed by signal %s" % (-res.rc), "")
    return ("exit_%s" % res.rc, mask(both.strip()[-200:]), "")


def compile_case(files, entry, cpu=CPU_FIRST, env=None, raw=False):
    """`mscript compile <entry> --quick` (binary output) or, with raw=True, the same with
    `--output-format raw-text` (the human-readable writer) in a fresh scratch directory."""
    if not raw:
        r, _, _ = core.run_program(files, entry=entry, mode="compile", cpu=cpu, env=env, tag="c16")
        return r
    d = core.case_dir("c16")
    try:
        core.write_files(d, files)
        return core.run(core.ms("compile", entry, "--quick", "--output-format", "raw-text"), d, env, cpu=cpu)
    finally:
        core.rm(d)


def entry_text(files, entry):
    t = files.get(entry, "")
    return t.decode("utf-8", "replace") if isinstance(t, bytes) else t


_CORPUS = None


def corpus_programs():
    global _CORPUS
    if _CORPUS is None:
        _CORPUS = [(n, f, e) for n, f, e in corpus.all_programs() if len(f[e].encode()) <= MAX_BYTES]
    return _CORPUS


def work(item):
    """One chunk of inputs: generate, run, classify.  Returns counters, coverage, and the failing inputs
    (at most 2 per raw key, shortest first)."""
    kind, seed, n = item
    rng = random.Random(seed)
    cover = set()
    res = {"runs": 0, "cls": {}, "origin": {}, "edits": {}, "fail_diag": 0, "failures": {}, "inconclusive": [],
           "cover": None, "distinct": set(), "bytes": 0, "slow": [], "samples": [], "pins": {}}
    cases = []
    if kind == "cat":
        cat = resource_catalogue() + pinned_catalogue()
        cases = [("catalogue", cid, files, entry) for cid, files, entry in cat[seed:seed + n]]
    elif kind == "place":
        cases = [("placement_matrix", cid, files, entry) for cid, files, entry in placement_matrix()[seed:seed + n]]
    elif kind == "exprplace":
        cases = [("expression_placement_matrix", cid, files, entry) for cid, files, entry in expression_placement_matrix()[seed:seed + n]]
    elif kind == "place_raw":
        # the same inputs through the human-readable writer (`--output-format raw-text`)
        pm = [c for c in placement_matrix() if c[0].split(":")[1].count("/") < RAW_DEPTH[0]]
        cases = [("placement_matrix_raw_text", cid + ":raw", files, entry, True) for cid, files, entry in pm[seed:seed + n]]
    elif kind == "esc":
        cases = [("escape_offset_family", cid, files, entry) for cid, files, entry in escape_offset_family()[seed:seed + n]]
    elif kind == "wide":
        for base_id, files, entry in widen_bases()[seed:seed + n]:
            limit = 400 if base_id.startswith("diag") else WIDE_LIMIT[0]
            cases += [("non_ascii_sliding", cid, f2, e2) for cid, f2, e2 in widen_family(base_id, files, entry, limit)]
    elif kind == "cover":
        g = grammar()
        for (rule, nid, k) in g.alts[seed:seed + n]:
            cases.append(("grammar", "cover:%s/%d/%d" % (rule, nid, k),
                          {"main.ms": sentence(random.Random(core.h(["cover", rule, nid, k])), cover, (rule, nid, k)),
                           "mod.ms": MOD_MS}, "main.ms"))
    elif kind == "gen":
        for i in range(n):
            cases.append(("grammar", "gen:%d:%d" % (seed, i), {"main.ms": sentence(rng, cover), "mod.ms": MOD_MS},
                          "main.ms"))
    elif kind == "mutgen":
        for i in range(n):
            src = sentence(rng, cover)
            text, names = mutate(rng, src, donor=PRELUDE)
            for e in names:
                res["edits"][e] = res["edits"].get(e, 0) + 1
            cases.append(("mutated_grammar", "mutgen:%d:%d" % (seed, i), {"main.ms": text, "mod.ms": MOD_MS}, "main.ms"))
    elif kind == "mutcorpus":
        progs = corpus_programs()
        pins = pinned_catalogue()
        for i in range(n):
            if pins and rng.random() < 0.06:      # mutants of the pinned crashers / guards: their neighbourhood
                name, files, entry = rng.choice(pins)
            else:
                name, files, entry = rng.choice(progs)
            files = dict(files)
            victim = entry if rng.random() < 0.8 or len(files) == 1 else rng.choice(sorted(files))
            donor = rng.choice(progs)
            src = files[victim]
            if isinstance(src, bytes) or len(src.encode()) > MAX_BYTES:
                victim, src = entry, files[entry]
            text, names = mutate(rng, src, donor=donor[1][donor[2]])
            for e in names:
                res["edits"][e] = res["edits"].get(e, 0) + 1
            files[victim] = text
            cases.append(("mutated_corpus", "mut:%s:%d:%d" % (name, seed, i), files, entry))
    for case in cases:
        origin, cid, files, entry = case[:4]
        raw = len(case) > 4 and case[4]
        r = compile_case(files, entry, raw=raw)
        et = entry_text(files, entry)
        c = classify(r, et)
        res["origin"][origin] = res["origin"].get(origin, 0) + 1
        if c is not None and c[0] == "inconclusive":
            res["inconclusive"].append("%s on %s" % (c[1], cid))
            continue
        res["runs"] += 1
        res["bytes"] += len(et)
        res["cls"][r.cls] = res["cls"].get(r.cls, 0) + 1
        if r.cls == "fail":
            res["fail_diag"] += 1
            if not et.isascii():
                res["fail_diag_non_ascii"] = res.get("fail_diag_non_ascii", 0) + 1
        if len(et.strip()) > 0:
            res["distinct"].add(core.h([files, entry, bool(raw)]))
        if r.cpu >= 2.0:
            res["slow"].append({"id": cid, "cpu_s": round(r.cpu, 2), "cls": r.cls})
        if len(res["samples"]) < 1 and origin != "catalogue" and 40 < len(et) < 400 and r.cls in ("ok", "fail"):
            res["samples"].append({"id": cid, "origin": origin, "source": et, "exit_class": r.cls,
                                   "diagnostic_tail": (r.out + r.err).strip()[-160:]})
        if cid.startswith("pin:"):
            res["pins"][cid] = None if c is None else "%s: %s @ %s" % c
        if c is None:
            continue
        key = "%s|%s|%s" % c
        lst = res["failures"].setdefault(key, [])
        size = sum(len(v) for v in files.values())
        lst.append({"id": cid, "origin": origin, "files": files, "entry": entry, "kind": c[0], "msg": c[1], "loc": c[2],
                    "size": size, "run": r.brief(), "raw": bool(raw)})
        lst.sort(key=lambda w: w["size"])
        del lst[2:]
    res["cover"] = sorted(cover)
    return res


# ----------------------------------------------------------------------------- signature, hang check, shrinking

_FRAME = re.compile(r"^\s*\d+:\s+(<?(?:compiler|bytecode|mscript)::.*)$", re.M)


def first_repo_frame(files, entry, raw=False):
    r = compile_case(files, entry, cpu=60, env={"RUST_BACKTRACE": "1"}, raw=raw)
    text = r.err + "\n" + r.out
    # the panic's own backtrace follows the last "stack backtrace:" line; an anyhow error printed inside the
    # panic message carries another one ("Stack backtrace:", capitalised) that must not be used
    cut = text.rfind("\nstack backtrace:")
    m = _FRAME.search(text[cut:] if cut >= 0 else text)
    if not m:
        return "?"
    sym = m.group(1).strip()
    sym = re.sub(r"::h[0-9a-f]{16}$", "", sym)
    return sym


def same_failure(files, entry, want, raw=False):
    r = compile_case(files, entry, cpu=CPU_FIRST, raw=raw)
    c = classify(r, entry_text(files, entry))
    if c is None:
        return False
    if want[0] == "stack_overflow":
        return c[0] == "stack_overflow"
    return (c[0], c[1], c[2]) == tuple(want)


class Budget:
    """Shrinking is bounded by the number of compiler runs (deterministic), not by wall-clock."""

    def __init__(self, n):
        self.left = n

    def spend(self):
        self.left -= 1
        return self.left >= 0

    def __bool__(self):
        return self.left > 0


def ddmin(us, test, budget):
    """Classic delta debugging over a list of units (complements only; granularity doubles)."""
    n = 2
    while len(us) >= 2 and budget:
        chunk = max(1, (len(us) + n - 1) // n)
        reduced = False
        for start in range(0, len(us), chunk):
            if not budget:
                break
            cand = us[:start] + us[start + chunk:]
            if cand and test(cand):
                us = cand
                n = max(n - 1, 2)
                reduced = True
                break
        if not reduced:
            if chunk == 1:
                break
            n = min(len(us), n * 2)
    return us


def bracket_groups(us):
    """(open index, close index) of every matched bracket pair, largest first."""
    close_of = {"(": ")", "[": "]", "{": "}"}
    stack, pairs = [], []
    for i, u in enumerate(us):
        if u[0] == "open":
            stack.append(i)
        elif u[0] == "close":
            while stack:
                j = stack.pop()
                if close_of.get(us[j][1]) == u[1]:
                    pairs.append((j, i))
                    break
    pairs.sort(key=lambda p: (-(p[1] - p[0]), p[0]))
    return pairs


def shrink_groups(us, test, budget):
    """Hierarchical step: drop whole bracketed groups or their interiors (what aligned ddmin chunks miss)."""
    progress = True
    while progress and budget:
        progress = False
        for a, b in bracket_groups(us):
            if not budget:
                break
            for cand in (us[:a] + us[b + 1:], us[:a + 1] + us[b:] if b - a > 1 else None):
                if cand and len(cand) < len(us) and test(cand):
                    us = cand
                    progress = True
                    break
            if progress:
                break
    return us


def shrink_windows(us, test, budget):
    """Remove every removable run of 4, 2, 1 adjacent units (unaligned)."""
    for w in (4, 2, 1):
        i = 0
        while i < len(us) and budget and len(us) > 1:
            cand = us[:i] + us[i + w:]
            if cand and test(cand):
                us = cand
            else:
                i += 1
    return us


def shrink(item):
    """Worker: minimise one failing input for its raw key, then name the first in-repo frame."""
    w, runs = item
    files, entry, want = dict(w["files"]), w["entry"], (w["kind"], w["msg"], w["loc"])
    raw = bool(w.get("raw"))
    budget = Budget(runs)

    seen = {}

    def holds(cand):
        key = core.h(cand)
        if key not in seen:
            if not budget.spend():
                return False
            seen[key] = same_failure(cand, entry, want, raw)
        return seen[key]
    if want[0] not in ("cpu",):
        # drop the files that are not needed
        for name in sorted(files):
            if name != entry and budget:
                cand = {k: v for k, v in files.items() if k != name}
                if holds(cand):
                    files = cand
        order = [entry] + [n for n in sorted(files) if n != entry]
        for name in order:
            src = files[name]
            if isinstance(src, bytes) or not budget:
                continue

            def test(us, name=name):
                cand = dict(files)
                cand[name] = join(us)
                return holds(cand)
            # lines first (cheap), then tokens, twice (a second pass profits from the first)
            lines = [["line", l, ""] for l in src.splitlines(True)]
            if len(lines) > 1:
                lines = ddmin(lines, test, budget)
            us = units(join(lines) if lines else src)
            for _ in range(3):
                before = len(us)
                us = shrink_groups(us, test, budget)
                us = ddmin(us, test, budget)
                if len(us) <= 60:
                    us = shrink_windows(us, test, budget)
                if len(us) == before:
                    break
            # layout: one blank between tokens where the result still fails the same way
            tidy = [[u[0], u[1], " " if u[2] else ""] for u in us]
            if tidy:
                tidy[-1][2] = ""
            if join(tidy) != join(us) and test(tidy):
                us = tidy
            files[name] = join(us)
    frame = first_repo_frame(files, entry, raw) if want[0].startswith("panic") else "-"
    r = compile_case(files, entry, cpu=CPU_FIRST, raw=raw)
    c = classify(r, entry_text(files, entry))
    if want[0] == "stack_overflow" and c is not None:
        want = c
    return {"files": files, "entry": entry, "want": list(want), "frame": frame, "run": r.brief(),
            "still": c is not None and c[0] == want[0], "origin": w["origin"], "id": w["id"], "raw": raw,
            "shrink_runs": runs - max(0, budget.left)}


def stable_run(brief):
    """Run summary without what changes from run to run (pid in the panic header, CPU time): the replay
    directory of a signature is then the same at every run."""
    return {"argv": brief["argv"][1:], "rc": brief["rc"], "cls": brief["cls"], "out": brief["out"],
            "err": re.sub(r"thread '([^']*)' \(\d+\)", r"thread '\1' (<pid>)", brief["err"])}


def signature(kind, msg, frame_or_loc):
    return "C16:%s:%s@%s" % (kind, msg, frame_or_loc)


# ----------------------------------------------------------------------------- engine

RAW_DEPTH = [2]      # placement chains shallower than this also go through the raw-text writer
WIDE_LIMIT = [12]    # sliding offsets per corpus/pin base


def plan(ctx):
    g = grammar()
    RAW_DEPTH[0] = ctx.n(2, 3)
    PLACE_ALL[0] = not ctx.quick
    THOROUGH_SHAPES[0] = not ctx.quick
    WIDE_LIMIT[0] = ctx.n(12, 40)
    ncat = len(resource_catalogue()) + len(pinned_catalogue())
    items = [("cat", i, 8) for i in range(0, ncat, 8)]
    items += [("cover", i, 12) for i in range(0, len(g.alts), 12)]
    n_place = len(placement_matrix())
    items += [("place", i, 125) for i in range(0, n_place, 125)]
    items += [("exprplace", i, 125) for i in range(0, len(expression_placement_matrix()), 125)]
    n_raw = len([c for c in placement_matrix() if c[0].split(":")[1].count("/") < RAW_DEPTH[0]])
    items += [("place_raw", i, 125) for i in range(0, n_raw, 125)]
    items += [("esc", i, 142) for i in range(0, len(escape_offset_family()), 142)]
    items += [("wide", i, 6) for i in range(0, len(widen_bases()), 6)]
    base = ctx.seed * 1000003
    n_gen, n_mutgen, n_mutcorpus = ctx.n((8000, 4000, 12000), (60000, 30000, 110000))
    chunk = ctx.n(100, 250)
    k = 0
    for kind, n in (("gen", n_gen), ("mutgen", n_mutgen), ("mutcorpus", n_mutcorpus)):
        for _ in range(0, n, chunk):
            k += 1
            items.append((kind, base + k * 7919 + {"gen": 1, "mutgen": 2, "mutcorpus": 3}[kind], chunk))
    return items


def run(ctx):
    out = core.Outcome()
    if not os.path.exists(core.BIN):
        raise core.Inconclusive("no mscript binary at %s" % core.BIN)
    g = grammar()
    corpus_programs()
    items = plan(ctx)
    results = core.pmap(work, items, chunksize=1)
    cover = set()
    cls_tot, origin_tot, edits_tot = {}, {}, {}
    failures = {}
    slow = []
    fail_diag = 0
    fail_diag_wide = 0
    nbytes = 0
    pins = {}
    for item, (status, res) in zip(items, results):
        if status != "ok":
            out.inconclusive.append("%s: %s" % (item[:2], str(res)[-400:]))
            continue
        out.evaluations += res["runs"]
        out.inconclusive.extend(res["inconclusive"])
        out.distinct.update(res["distinct"])
        cover.update(tuple(c) for c in res["cover"])
        fail_diag += res["fail_diag"]
        fail_diag_wide += res.get("fail_diag_non_ascii", 0)
        pins.update(res["pins"])
        nbytes += res["bytes"]
        slow.extend(res["slow"])
        for src, dst in ((res["cls"], cls_tot), (res["origin"], origin_tot), (res["edits"], edits_tot)):
            for k, v in src.items():
                dst[k] = dst.get(k, 0) + v
        for s in res["samples"]:
            if len(out.samples) < 4 and s["origin"] not in [x["origin"] for x in out.samples]:
                out.samples.append(s)
        for key, lst in res["failures"].items():
            cur = failures.setdefault(key, [])
            cur.extend(lst)
            cur.sort(key=lambda w: (w["origin"] != "catalogue", w["size"]))
            del cur[2:]

    # ---- CPU >= 20 s: re-run alone with the large budget
    hangs, slow_alone = [], []
    for key in [k for k in failures if k.startswith("cpu|")]:
        for n_rerun, w in enumerate(failures.pop(key)):
            if len(hangs) + len(slow_alone) >= 3:
                out.inconclusive.append("CPU >= %d s on %s: not re-run (3 re-runs per run)" % (CPU_FIRST, w["id"]))
                continue
            r = compile_case(w["files"], w["entry"], cpu=CPU_ALONE, raw=bool(w.get("raw")))
            if r.cls == "cpu_timeout":
                hangs.append((w, r))
            elif r.cls in ("wall_timeout", "spawn_error"):
                out.inconclusive.append("%s on the 120 s re-run of %s" % (r.cls, w["id"]))
            else:
                slow_alone.append({"id": w["id"], "cpu_s": round(r.cpu, 1), "cls": r.cls})
                c = classify(r, entry_text(w["files"], w["entry"]))
                if c is not None:
                    w.update({"kind": c[0], "msg": c[1], "loc": c[2], "run": r.brief()})
                    failures.setdefault("%s|%s|%s" % c, []).append(w)
    for w, r in hangs:
        fam = w["id"].split(":")[1] if w["origin"] == "catalogue" else dominant_token(entry_text(w["files"], w["entry"]))
        out.violations.append(core.Violation(
            signature("hang", "no result within %d CPU-seconds" % CPU_ALONE, fam),
            "compile still running after %d CPU-seconds (%s)" % (CPU_ALONE, w["id"]),
            {"files": w["files"], "entry": w["entry"], "origin": w["origin"], "id": w["id"], "run": r.brief()}))

    # ---- one shrink + one backtrace per raw key, then group by signature
    todo = [(lst[0], ctx.n(900, 2500)) for key, lst in sorted(failures.items())]
    by_sig = {}
    for (w, _), (status, s) in zip(todo, core.pmap(shrink, todo, chunksize=1)):
        if status != "ok":
            out.inconclusive.append("shrinking %s: %s" % (w["id"], str(s)[-300:]))
            s = {"files": w["files"], "entry": w["entry"], "want": [w["kind"], w["msg"], w["loc"]], "frame": "?",
                 "run": w["run"], "still": True, "origin": w["origin"], "id": w["id"], "raw": bool(w.get("raw"))}
        kind, msg, loc = s["want"]
        sig = signature(kind, msg, s["frame"] if kind.startswith("panic") else (loc or "-"))
        size = sum(len(v) for v in s["files"].values())
        if sig not in by_sig or size < by_sig[sig][0]:
            by_sig[sig] = (size, s, loc)
    for sig, (size, s, loc) in sorted(by_sig.items()):
        src = entry_text(s["files"], s["entry"])
        what = "%s at %s — minimal input (%d bytes, from %s): %r" % (s["want"][1] or s["want"][0], loc or "?", size,
                                                                     s["id"], src[:160])
        out.violations.append(core.Violation(sig, what, {
            "files": s["files"], "entry": s["entry"], "kind": s["want"][0], "message": s["want"][1],
            "panic_location": loc, "first_repo_frame": s["frame"], "found_by": s["origin"], "found_in": s["id"],
            "raw_text_output": bool(s.get("raw")),
            "command": "mscript compile %s --quick%s" % (s["entry"], " --output-format raw-text" if s.get("raw") else ""),
            "run": stable_run(s["run"])}))

    rules_cov = sorted(c[1] for c in cover if c[0] == "rule")
    alts_cov = {c[1:] for c in cover if c[0] == "alt"}
    reachable = reachable_rules(g)
    missing_rules = [r for r in g.order if r in reachable and r not in rules_cov]
    missing_alts = [a for a in g.alts if a[0] in reachable and a not in alts_cov]
    out.coverage.update({
        "grammar_file": GRAMMAR_PATH, "grammar_rules": len(g.rules), "grammar_alternatives": len(g.alts),
        "rules_reachable_from_file(incl. implicit WHITESPACE/COMMENT)": len(reachable),
        "rules_derived": len([r for r in rules_cov if r in reachable]),
        "alternatives_reachable": len([a for a in g.alts if a[0] in reachable]),
        "alternatives_derived": len([a for a in alts_cov if a[0] in reachable]),
        "rules_not_derived": missing_rules, "alternatives_not_derived": ["%s/%d/%d" % a for a in missing_alts],
        "rules_unreachable_from_file": [r for r in g.order if r not in reachable],
        "exit_classes": cls_tot, "inputs_by_origin": origin_tot, "token_edits_applied": edits_tot,
        "failed_with_diagnostic": fail_diag, "diagnostics_on_inputs_with_non_ascii_text": fail_diag_wide,
        "placement_matrix": {"statements": len(PLACED), "inputs": len(placement_matrix()),
                             "statements_under_depth_3_chains": len(PLACED) if PLACE_ALL[0] else sorted(CORE_PLACED), "container_chains(depth<=3)": len(container_chains(3)),
                             "containers": CONTAINERS, "also_raw_text_for_chains_shallower_than": RAW_DEPTH[0]},
        "escape_offset_family": {"offsets": "0..70", "widths": [2, 3, 4], "contexts": 4, "inputs": len(escape_offset_family())},
        "non_ascii_sliding_bases": len(widen_bases()), "mean_input_bytes": round(nbytes / max(1, out.evaluations), 1),
        "catalogue_shapes": len(resource_catalogue()), "pinned_crashers": len(PINNED),
        "regression_guards(further spellings)": len(GUARDS),
        "pinned_crashers_still_crashing": sum(1 for v in pins.values() if v),
        "pinned_inputs_that_no_longer_crash(repaired?)": sorted(
            "%s %r" % (k, PINNED[int(k.split(":")[1])][:60]) for k, v in pins.items() if not v),
        "corpus_programs": len(corpus_programs()),
        "crash_raw_keys(kind|message|location)": len(todo), "crash_signatures": sorted(by_sig),
        "slow_inputs(cpu>=2s)": slow[:20], "cpu>=20s_but_finished_within_120s": slow_alone,
        "hangs": len(hangs),
    })
    out.rule = ("inputs <= 4 kB for `mscript compile main.ms --quick`: deterministic catalogue (resource shapes, import "
                "fixtures, one pinned minimal input per known crash signature); placement matrix (25 context-sensitive "
                "statements x all 400 container chains of depth <= 3 over if/else/while/from/function literal/method/"
                "constructor, the shallow ones also with --output-format raw-text); escape-offset family (multi-byte "
                "character at every byte offset 0..70 of a literal with an unknown escape, 4 contexts); sliding non-ASCII "
                "variants of diagnostic-producing inputs, pins and corpus programs; one grammar sentence steered to every "
                "alternative of grammar.pest, seeded grammar sentences (depth-bounded random walk, types ignored, name/"
                "literal pools + a declaring prelude in ~55%), token-level mutants (delete/insert/duplicate/swap/"
                "replace-by-other-class/truncate/unbalance/splice, 1-4 edits) of corpus programs, of grammar sentences "
                "and of the pinned crashers.  Distinct non-trivial = distinct non-blank input (files + entry).")
    out.assumptions = [
        "the main thread's stack is the harness's RLIMIT_STACK (8 MiB default); a stack overflow under it is a crash",
        "one backtrace and one shrink per (kind, masked message, panic location): inputs with the same triple are "
        "taken to be the same crash",
        "`fail` needs any non-blank output on stdout/stderr to count as diagnosed",
        "CPU time of the child decides slowness (>= 20 s, then 120 s alone); wall-clock only guards the harness",
    ]
    if out.evaluations == 0:
        out.observed_nothing = "no input was compiled"
    elif missing_rules or missing_alts:
        out.inconclusive.append("grammar coverage incomplete: rules %s alternatives %s" % (missing_rules, missing_alts[:8]))
    return out


def reachable_rules(g):
    seen = set()
    stack = ["file", "WHITESPACE", "COMMENT"]
    while stack:
        r = stack.pop()
        if r in seen or r not in g.rules:
            continue
        seen.add(r)
        stack.extend(n.a for n in g.rules[r].nodes if n.kind == pg.REF)
    return seen


def replay(path):
    with open(os.path.join(path, "case.json")) as f:
        case = json.load(f)
    files = {}
    root = os.path.join(path, "files")
    for dirpath, _, names in os.walk(root):
        for n in names:
            p = os.path.join(dirpath, n)
            with open(p, "rb") as f:
                raw = f.read()
            try:
                files[os.path.relpath(p, root)] = raw.decode("utf-8")
            except UnicodeDecodeError:
                files[os.path.relpath(p, root)] = raw
    entry = case["witness"].get("entry", "main.ms")
    r = compile_case(files, entry, cpu=CPU_ALONE, raw=bool(case["witness"].get("raw_text_output")))
    c = classify(r, entry_text(files, entry))
    print(json.dumps({"run": r.brief(), "classified": c}, indent=1, ensure_ascii=False))
    return 0 if c is None else 1
